#!/usr/bin/env python3
"""Generate zipsrc/: a package named `zip` built from /repo's working tree, with the repository's own dependency
table plus loom.

Mode "rewrite" (default): the sources are COPIED to zipsrc/src and every std synchronisation primitive that loom
models is switched to loom's by text: std::sync::atomic::*, std::sync::{Arc, Mutex, RwLock, Condvar, mpsc, Barrier?}.
The hook H2 in /repo (cfg zip_rs_zip_verif_loom) already does that for the Arc and AtomicU64 the pinned tree uses; the
rewrite extends it to whatever an edited tree has added, so that loom also explores interleavings inside locks and
atomics the hook does not know about. What loom has no model for (OnceLock, OnceCell, LazyLock, thread_local, UnsafeCell)
is left alone and listed on stdout as `UNINTERCEPTED ...`.

Mode "direct" (argument `direct`): the library root is /repo/src/lib.rs itself, no copy (the fallback when the rewritten
copy does not build)."""
import os, re, sys, shutil
repo = os.environ.get('ZIPMC_REPO', '/repo')
mode = sys.argv[1] if len(sys.argv) > 1 else 'rewrite'
here = os.path.dirname(os.path.abspath(__file__))
zs = os.path.join(here, 'zipsrc')
src = open(os.path.join(repo, 'Cargo.toml')).read()
out = []
for block in re.split(r'(?m)^(?=\[)', src):
    head = block.split('\n', 1)[0].strip()
    if head in ('[dependencies]', '[features]') or (head.startswith('[target.') and head.endswith('.dependencies]')):
        out.append(block.rstrip() + '\n')
m = re.search(r'(?m)^version\s*=\s*"([^"]+)"', src)
version = m.group(1) if m else '0.0.0'
libpath = f'{repo}/src/lib.rs' if mode == 'direct' else 'src/lib.rs'
pkg = f'''[package]
name = "zip"
version = "{version}"
edition = "2021"
publish = false

[lib]
path = "{libpath}"

'''
text = pkg + '\n'.join(out)
text = text.replace('[dependencies]\n', '[dependencies]\nloom = "0.7"\n', 1)
os.makedirs(zs, exist_ok=True)
p = os.path.join(zs, 'Cargo.toml')
if not os.path.exists(p) or open(p).read() != text:
    open(p, 'w').write(text)

LOOM_SYNC = {'Arc', 'Mutex', 'MutexGuard', 'RwLock', 'RwLockReadGuard', 'RwLockWriteGuard', 'Condvar', 'mpsc', 'atomic', 'Notify', 'WaitTimeoutResult', 'LockResult', 'TryLockError', 'TryLockResult', 'PoisonError'}
# (the last five are re-exported by loom::sync from std)
LOOM_SYNC_REEXPORT_OK = {'Arc', 'Mutex', 'MutexGuard', 'RwLock', 'RwLockReadGuard', 'RwLockWriteGuard', 'Condvar', 'mpsc', 'atomic', 'LockResult', 'TryLockError', 'TryLockResult', 'WaitTimeoutResult'}

def split_items(body):
    items, depth, cur = [], 0, ''
    for ch in body:
        if ch == '{': depth += 1
        if ch == '}': depth -= 1
        if ch == ',' and depth == 0:
            items.append(cur.strip()); cur = ''
        else:
            cur += ch
    if cur.strip(): items.append(cur.strip())
    return items

def rewrite(code):
    # grouped imports: use std::sync::{A, B, atomic::{..}};
    def grp(mo):
        vis, body = mo.group(1) or '', mo.group(2)
        lo, st = [], []
        for it in split_items(body):
            head = re.split(r'[:{ ]', it, 1)[0]
            (lo if head in LOOM_SYNC_REEXPORT_OK else st).append(it)
        res = []
        if lo: res.append(f'{vis}use loom::sync::{{{", ".join(lo)}}};')
        if st: res.append(f'{vis}use std::sync::{{{", ".join(st)}}};')
        return '\n'.join(res)
    code = re.sub(r'(?m)^(\s*(?:pub(?:\([a-z]+\))?\s+)?)use std::sync::\{([^;]*)\};', grp, code)
    # plain paths
    for name in sorted(LOOM_SYNC_REEXPORT_OK, key=len, reverse=True):
        code = re.sub(r'\bstd::sync::' + name + r'\b', 'loom::sync::' + name, code)
    code = re.sub(r'\bcore::sync::atomic\b', 'loom::sync::atomic', code)
    code = re.sub(r'\bstd::thread::yield_now\b', 'loom::thread::yield_now', code)
    code = re.sub(r'\bstd::hint::spin_loop\b', 'loom::hint::spin_loop', code)
    return code

if mode != 'direct':
    dst = os.path.join(zs, 'src')
    if os.path.isdir(dst):
        shutil.rmtree(dst)
    left = []
    for root, dirs, files in os.walk(os.path.join(repo, 'src')):
        rel = os.path.relpath(root, os.path.join(repo, 'src'))
        os.makedirs(os.path.join(dst, rel), exist_ok=True)
        for f in files:
            sp = os.path.join(root, f)
            dp = os.path.join(dst, rel, f)
            if f.endswith('.rs'):
                code = rewrite(open(sp, encoding='utf-8', errors='replace').read())
                open(dp, 'w', encoding='utf-8').write(code)
                for k, line in enumerate(code.split('\n'), 1):
                    s = line.strip()
                    if s.startswith('//'):
                        continue
                    if re.search(r'std::sync::(Once|OnceLock|LazyLock|Barrier|Weak)\b|std::cell::|core::cell::|thread_local!|static mut |\bunsafe\b|std::thread::', line):
                        left.append(f'{os.path.join(rel, f)}:{k}: {s[:100]}')
            else:
                shutil.copy(sp, dp)
    # files referenced from the sources by include_str!/include_bytes! relative paths outside src/ are rare; README is the usual one
    for extra in ('README.md',):
        if os.path.exists(os.path.join(repo, extra)):
            shutil.copy(os.path.join(repo, extra), os.path.join(zs, extra))
    for l in left[:20]:
        print('UNINTERCEPTED', l)

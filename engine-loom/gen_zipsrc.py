#!/usr/bin/env python3
"""Generate zipsrc/Cargo.toml: a package named `zip` whose library root is /repo/src/lib.rs (the
working tree itself, no copy), with the repository's own dependency table plus loom."""
import os, re, sys
repo = os.environ.get('ZIPMC_REPO', '/repo')
here = os.path.dirname(os.path.abspath(__file__))
src = open(os.path.join(repo, 'Cargo.toml')).read()
# keep [package] basics, [dependencies], [target...dependencies] and [features]
out = []
keep = False
for block in re.split(r'(?m)^(?=\[)', src):
    head = block.split('\n', 1)[0].strip()
    if head in ('[dependencies]', '[features]') or (head.startswith('[target.') and head.endswith('.dependencies]')):
        out.append(block.rstrip() + '\n')
m = re.search(r'(?m)^version\s*=\s*"([^"]+)"', src)
version = m.group(1) if m else '0.0.0'
pkg = f'''[package]
name = "zip"
version = "{version}"
edition = "2021"
publish = false

[lib]
path = "{repo}/src/lib.rs"

'''
text = pkg + '\n'.join(out)
text = text.replace('[dependencies]\n', '[dependencies]\nloom = "0.7"\n', 1)
os.makedirs(os.path.join(here, 'zipsrc'), exist_ok=True)
p = os.path.join(here, 'zipsrc', 'Cargo.toml')
if not os.path.exists(p) or open(p).read() != text:
    open(p, 'w').write(text)

//! C20(b): loom exploration of cloned ZipArchive handles used from several threads.
//! Built with --cfg zip_rs_zip_verif_loom so that the crate's Arc and AtomicU64 are loom's.
//! usage: zipmc-loom <scenario> ; prints "LOOM scenario=<s> executions=<n> result=ok"

use std::io::{Cursor, Read};
use std::sync::atomic::{AtomicUsize, Ordering};

fn p16(v: &mut Vec<u8>, x: u16) {
    v.extend_from_slice(&x.to_le_bytes());
}
fn p32(v: &mut Vec<u8>, x: u32) {
    v.extend_from_slice(&x.to_le_bytes());
}
fn crc32(data: &[u8]) -> u32 {
    let mut c = 0xffff_ffffu32;
    for &b in data {
        c ^= b as u32;
        for _ in 0..8 {
            c = if c & 1 != 0 { (c >> 1) ^ 0xedb8_8320 } else { c >> 1 };
        }
    }
    !c
}

/// Hand-built archive of stored entries (the writer is unavailable in the loom build).
/// Entry i has a local extra field of i*3 bytes so that data_start differs from what the
/// central directory alone would suggest.
fn archive(n: usize) -> (Vec<u8>, Vec<(Vec<u8>, u64)>) {
    let mut out = vec![];
    let mut cd = vec![];
    let mut truth = vec![];
    for i in 0..n {
        let name = format!("entry{i}");
        let content: Vec<u8> = (0..(20 + 7 * i)).map(|k| (k * 13 + i * 5) as u8).collect();
        let lextra: Vec<u8> = if i == 0 { vec![] } else { let mut e = vec![0x66, 0x66, (i * 3) as u8, 0]; e.extend(std::iter::repeat(0xab).take(i * 3)); e };
        let off = out.len() as u32;
        let crc = crc32(&content);
        p32(&mut out, 0x04034b50);
        p16(&mut out, 20);
        p16(&mut out, 0);
        p16(&mut out, 0);
        p16(&mut out, 0x6000);
        p16(&mut out, 0x5821);
        p32(&mut out, crc);
        p32(&mut out, content.len() as u32);
        p32(&mut out, content.len() as u32);
        p16(&mut out, name.len() as u16);
        p16(&mut out, lextra.len() as u16);
        out.extend_from_slice(name.as_bytes());
        out.extend_from_slice(&lextra);
        truth.push((content.clone(), out.len() as u64));
        out.extend_from_slice(&content);
        p32(&mut cd, 0x02014b50);
        p16(&mut cd, (3 << 8) | 20);
        p16(&mut cd, 20);
        p16(&mut cd, 0);
        p16(&mut cd, 0);
        p16(&mut cd, 0x6000);
        p16(&mut cd, 0x5821);
        p32(&mut cd, crc);
        p32(&mut cd, content.len() as u32);
        p32(&mut cd, content.len() as u32);
        p16(&mut cd, name.len() as u16);
        p16(&mut cd, 0);
        p16(&mut cd, 0);
        p16(&mut cd, 0);
        p16(&mut cd, 0);
        p32(&mut cd, 0o100644 << 16);
        p32(&mut cd, off);
        cd.extend_from_slice(name.as_bytes());
    }
    let cd_off = out.len() as u32;
    out.extend_from_slice(&cd);
    p32(&mut out, 0x06054b50);
    p16(&mut out, 0);
    p16(&mut out, 0);
    p16(&mut out, n as u16);
    p16(&mut out, n as u16);
    p32(&mut out, cd.len() as u32);
    p32(&mut out, cd_off);
    p16(&mut out, 0);
    (out, truth)
}

const PW: &[u8] = b"loom-pw";

fn crc_byte(c: u32, b: u8) -> u32 {
    let mut c = c ^ b as u32;
    for _ in 0..8 {
        c = if c & 1 != 0 { (c >> 1) ^ 0xedb8_8320 } else { c >> 1 };
    }
    c
}
/// PKWARE traditional encryption of `plain` (12-byte header with the CRC's high byte as check byte).
fn zipcrypto(plain: &[u8], crc: u32) -> Vec<u8> {
    let mut k = [0x1234_5678u32, 0x2345_6789, 0x3456_7890];
    let upd = |k: &mut [u32; 3], c: u8| {
        k[0] = crc_byte(k[0], c);
        k[1] = k[1].wrapping_add(k[0] & 0xff).wrapping_mul(134_775_813).wrapping_add(1);
        k[2] = crc_byte(k[2], (k[1] >> 24) as u8);
    };
    for &b in PW {
        upd(&mut k, b);
    }
    let mut out = vec![];
    let mut hdr = [7u8; 12];
    hdr[11] = (crc >> 24) as u8;
    for &p in hdr.iter().chain(plain.iter()) {
        let t = (k[2] | 2) as u16;
        let s = (t.wrapping_mul(t ^ 1) >> 8) as u8;
        out.push(p ^ s);
        upd(&mut k, p);
    }
    out
}

/// One plain stored entry followed by one ZipCrypto stored entry (with a local extra field).
fn crypto_archive() -> (Vec<u8>, Vec<u8>, u64, Vec<u8>) {
    let (mut out, mut cd) = (vec![], vec![]);
    let plain: Vec<u8> = (0..33u32).map(|k| (k * 11 + 3) as u8).collect();
    let mut data_start = 0u64;
    let mut stored_bytes = vec![];
    for i in 0..2usize {
        let name = format!("entry{i}");
        let crc = crc32(&plain);
        let payload = if i == 1 { zipcrypto(&plain, crc) } else { plain.clone() };
        let flags: u16 = if i == 1 { 1 } else { 0 };
        let lextra: Vec<u8> = if i == 1 { vec![0x66, 0x66, 2, 0, 9, 9] } else { vec![] };
        let off = out.len() as u32;
        p32(&mut out, 0x04034b50);
        p16(&mut out, 20);
        p16(&mut out, flags);
        p16(&mut out, 0);
        p16(&mut out, 0x6000);
        p16(&mut out, 0x5821);
        p32(&mut out, crc);
        p32(&mut out, payload.len() as u32);
        p32(&mut out, plain.len() as u32);
        p16(&mut out, name.len() as u16);
        p16(&mut out, lextra.len() as u16);
        out.extend_from_slice(name.as_bytes());
        out.extend_from_slice(&lextra);
        if i == 1 {
            data_start = out.len() as u64;
            stored_bytes = payload.clone();
        }
        out.extend_from_slice(&payload);
        p32(&mut cd, 0x02014b50);
        p16(&mut cd, (3 << 8) | 20);
        p16(&mut cd, 20);
        p16(&mut cd, flags);
        p16(&mut cd, 0);
        p16(&mut cd, 0x6000);
        p16(&mut cd, 0x5821);
        p32(&mut cd, crc);
        p32(&mut cd, payload.len() as u32);
        p32(&mut cd, plain.len() as u32);
        p16(&mut cd, name.len() as u16);
        p16(&mut cd, 0);
        p16(&mut cd, 0);
        p16(&mut cd, 0);
        p16(&mut cd, 0);
        p32(&mut cd, 0o100644 << 16);
        p32(&mut cd, off);
        cd.extend_from_slice(name.as_bytes());
    }
    let cd_off = out.len() as u32;
    out.extend_from_slice(&cd);
    p32(&mut out, 0x06054b50);
    p16(&mut out, 0);
    p16(&mut out, 0);
    p16(&mut out, 2);
    p16(&mut out, 2);
    p32(&mut out, cd.len() as u32);
    p32(&mut out, cd_off);
    p16(&mut out, 0);
    (out, plain, data_start, stored_bytes)
}

/// Two threads on the same ZipCrypto entry: `raw_second` = the second thread opens it undecoded.
fn run_crypto(raw_second: bool, max_preemptions: Option<usize>) {
    let (bytes, plain, data_start, stored) = crypto_archive();
    let mut b = loom::model::Builder::new();
    b.preemption_bound = max_preemptions;
    b.check(move || {
        EXECUTIONS.fetch_add(1, Ordering::Relaxed);
        let (bytes, plain, stored) = (bytes.clone(), plain.clone(), stored.clone());
        let root = loom::thread::Builder::new()
            .stack_size(1 << 20)
            .spawn(move || {
                let ar = zip::ZipArchive::new(Cursor::new(bytes)).expect("open");
                let mut hs = vec![];
                for t in 0..2usize {
                    let mut mine = ar.clone();
                    let (plain, stored) = (plain.clone(), stored.clone());
                    hs.push(
                        loom::thread::Builder::new()
                            .stack_size(1 << 20)
                            .spawn(move || {
                                let raw = raw_second && t == 1;
                                let mut f = if raw { mine.by_index_raw(1).expect("by_index_raw") } else { mine.by_index_decrypt(1, PW).expect("by_index_decrypt").expect("password") };
                                assert_eq!(f.data_start(), data_start, "data_start of the encrypted entry seen by thread {t}");
                                let mut v = vec![];
                                f.read_to_end(&mut v).expect("read");
                                assert_eq!(&v, if raw { &stored } else { &plain }, "bytes of the encrypted entry seen by thread {t}");
                                assert_eq!(f.data_start(), data_start, "data_start after reading, thread {t}");
                            })
                            .unwrap(),
                    );
                }
                drop(ar);
                for h in hs {
                    h.join().unwrap();
                }
            })
            .unwrap();
        root.join().unwrap();
    });
}

/// Lookups by name (and the name listing) as the FIRST thing each thread does on a freshly opened archive: whatever the
/// crate builds lazily for them is built under contention. `mixed`: the second thread opens by index instead.
fn run_byname(threads: usize, mixed: bool, max_preemptions: Option<usize>) {
    let (bytes, truth) = archive(3);
    let mut b = loom::model::Builder::new();
    b.preemption_bound = max_preemptions;
    b.check(move || {
        EXECUTIONS.fetch_add(1, Ordering::Relaxed);
        let bytes = bytes.clone();
        let truth = truth.clone();
        let root = loom::thread::Builder::new()
            .stack_size(1 << 20)
            .spawn(move || {
                let ar = zip::ZipArchive::new(Cursor::new(bytes)).expect("open");
                let mut hs = vec![];
                for t in 0..threads {
                    let mut mine = ar.clone();
                    let truth = truth.clone();
                    hs.push(
                        loom::thread::Builder::new()
                            .stack_size(1 << 20)
                            .spawn(move || {
                                let i = (t + 1) % 3;
                                if mixed && t == 1 {
                                    let mut f = mine.by_index(i).expect("by_index");
                                    let mut v = vec![];
                                    f.read_to_end(&mut v).expect("read");
                                    assert_eq!(v, truth[i].0, "content of entry {i} seen by thread {t}");
                                } else {
                                    let name = format!("entry{i}");
                                    {
                                        let mut f = mine.by_name(&name).unwrap_or_else(|e| panic!("thread {t}: by_name({name:?}) of an existing name failed: {e}"));
                                        assert_eq!(f.name(), name, "thread {t}: by_name returned another entry");
                                        assert_eq!(f.data_start(), truth[i].1, "data_start of entry {i} seen by thread {t}");
                                        let mut v = vec![];
                                        f.read_to_end(&mut v).expect("read");
                                        assert_eq!(v, truth[i].0, "content of entry {i} seen by thread {t}");
                                    }
                                    let mut names: Vec<String> = mine.file_names().map(|s| s.to_string()).collect();
                                    names.sort();
                                    assert_eq!(names, vec!["entry0".to_string(), "entry1".to_string(), "entry2".to_string()], "thread {t}: file_names()");
                                    assert!(matches!(mine.by_name("no such entry"), Err(zip::result::ZipError::FileNotFound)), "thread {t}: absent name");
                                }
                            })
                            .unwrap(),
                    );
                }
                drop(ar);
                for h in hs {
                    h.join().unwrap();
                }
            })
            .unwrap();
        root.join().unwrap();
    });
}

static EXECUTIONS: AtomicUsize = AtomicUsize::new(0);

fn run(threads: usize, per_thread: usize, shared_entries: bool, max_preemptions: Option<usize>) {
    let n_entries = if shared_entries { per_thread } else { threads * per_thread };
    let (bytes, truth) = archive(n_entries.max(2));
    let mut b = loom::model::Builder::new();
    b.preemption_bound = max_preemptions;
    b.check(move || {
        EXECUTIONS.fetch_add(1, Ordering::Relaxed);
        // loom's coroutines have 32 KiB stacks by default; the crate keeps a 64 KiB buffer on the stack in
        // Drop for ZipFile, so all work happens on threads created with an explicit 1 MiB stack.
        let bytes = bytes.clone();
        let truth = truth.clone();
        let root = loom::thread::Builder::new()
            .stack_size(1 << 20)
            .spawn(move || {
                let ar = zip::ZipArchive::new(Cursor::new(bytes)).expect("open");
                let mut hs = vec![];
                for t in 0..threads {
                    let mut mine = ar.clone();
                    let truth = truth.clone();
                    hs.push(
                        loom::thread::Builder::new()
                            .stack_size(1 << 20)
                            .spawn(move || {
                                for k in 0..per_thread {
                                    // threads collide on the same entries when `shared_entries`
                                    let i = if shared_entries { (k + t) % per_thread } else { t * per_thread + k };
                                    let mut f = mine.by_index(i).expect("by_index");
                                    assert_eq!(f.data_start(), truth[i].1, "data_start of entry {i} seen by thread {t}");
                                    assert_eq!(f.size(), truth[i].0.len() as u64);
                                    let mut v = vec![];
                                    f.read_to_end(&mut v).expect("read");
                                    assert_eq!(v, truth[i].0, "content of entry {i} seen by thread {t}");
                                    assert_eq!(f.data_start(), truth[i].1);
                                }
                            })
                            .unwrap(),
                    );
                }
                // the original handle is used concurrently too, then dropped while the others still run
                // (it only reads metadata: a third concurrent Relaxed store to the same atomic trips an internal
                // assertion of loom 0.7.2, rt/atomic.rs "TODO: this sometimes fails")
                {
                    let me = ar;
                    assert_eq!(me.len(), truth.len().max(2));
                }
                for h in hs {
                    h.join().unwrap();
                }
            })
            .unwrap();
        root.join().unwrap();
    });
}

fn main() {
    let scenario = std::env::args().nth(1).unwrap_or_default();
    let bound = std::env::var("ZIPMC_LOOM_PREEMPTIONS").ok().and_then(|s| s.parse::<usize>().ok());
    match scenario.as_str() {
        "2x2-shared" => run(2, 2, true, bound),
        "2x2-disjoint" => run(2, 2, false, bound),
        "3x1-disjoint" => run(3, 1, false, bound),
        "3x1-shared" => run(3, 1, true, bound),
        "2x1-shared" => run(2, 1, true, bound),
        "2x1-byname" => run_byname(2, false, bound),
        "2x1-byname-mixed" => run_byname(2, true, bound),
        "3x1-byname" => run_byname(3, false, bound),
        "2x1-crypto-pw-pw" => run_crypto(false, bound),
        "2x1-crypto-pw-raw" => run_crypto(true, bound),
        s => {
            eprintln!("unknown scenario {s}");
            std::process::exit(2);
        }
    }
    println!("LOOM scenario={scenario} executions={} preemption_bound={} result=ok", EXECUTIONS.load(Ordering::Relaxed), bound.map_or("none".to_string(), |b| b.to_string()));
}

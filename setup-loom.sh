#!/bin/bash
set -eu
cd "$(dirname "$0")/engine-loom"
export CARGO_NET_OFFLINE=true
export CARGO_TARGET_DIR="$(cd .. && pwd)/.target-loom"
export RUSTFLAGS="--cfg zip_rs_zip_verif --cfg zip_rs_zip_verif_loom"
python3 gen_zipsrc.py rewrite >/dev/null
cargo build --release --offline

//! zipmc — bounded-exhaustive model checking harness for zip-rs/zip.
//! usage: zipmc <C01..C20|selftest> [--tier quick|thorough] [--replay FILE] [--worker SPEC]

mod foreign;
mod props;
mod reference;
mod refmodel;
mod sio;
mod util;
mod zipapi;

use util::{Ctx, Tier};

#[global_allocator]
static GLOBAL: sio::alloc::Counting = sio::alloc::Counting;

pub struct Args {
    pub tier: Tier,
    pub seed: u64,
    pub replay: Option<String>,
    pub worker: Option<String>,
}

fn main() {
    util::silence_crate_stderr();
    util::install_panic_hook();
    let argv: Vec<String> = std::env::args().collect();
    if argv.len() < 2 {
        crate::diag!("usage: zipmc <C01..C20|selftest> [--tier quick|thorough] [--replay FILE]");
        std::process::exit(2);
    }
    let prop = argv[1].to_uppercase();
    let mut tier = match std::env::var("VERIF_TIER").as_deref() {
        Ok("thorough") => Tier::Thorough,
        _ => Tier::Quick,
    };
    let seed = std::env::var("VERIF_SEED").ok().and_then(|s| s.parse::<i64>().ok()).unwrap_or(1) as u64;
    let mut replay = None;
    let mut worker = None;
    let mut i = 2;
    while i < argv.len() {
        match argv[i].as_str() {
            "--tier" => {
                i += 1;
                tier = if argv.get(i).map(|s| s.as_str()) == Some("thorough") { Tier::Thorough } else { Tier::Quick };
            }
            "quick" => tier = Tier::Quick,
            "thorough" => tier = Tier::Thorough,
            "--replay" => {
                i += 1;
                replay = argv.get(i).cloned();
            }
            "--worker" => {
                i += 1;
                worker = argv.get(i).cloned();
            }
            other => {
                crate::diag!("unknown argument {other}");
                std::process::exit(2);
            }
        }
        i += 1;
    }
    let args = Args { tier, seed, replay, worker };
    if prop == "SELFTEST" {
        std::process::exit(props::selftest());
    }
    if let Err(e) = reference::crc32::selftest() {
        crate::diag!("machinery: reference crc32 self-test failed: {e}");
        std::process::exit(2);
    }
    let code = match util::guard(|| props::run(&prop, &args)) {
        Ok(c) => c,
        Err(p) => {
            crate::diag!("MACHINERY-ERROR: harness panicked outside a guarded call: {p}");
            2
        }
    };
    std::process::exit(code);
}

pub fn new_ctx(prop: &str, args: &Args) -> Ctx {
    let c = Ctx::new(prop, args.tier, args.seed);
    *util::RUN_INFO.lock().unwrap() = Some((prop.to_string(), args.tier.name().to_string(), args.seed, c.level));
    c
}

//! Foreign judges run in batches: CPython's zipfile (pyref/zipcheck.py) and Info-ZIP unzip -t.
//! Archives are written to a scratch directory on tmpfs (outside /repo and /verif) which is
//! removed when the batch is dropped.

use serde_json::Value;
use std::path::PathBuf;
use std::process::Command;

pub const SHARDS: usize = 16;

pub struct Batch {
    pub dir: PathBuf,
    pub n: usize,
    pub bytes: u64,
}

pub fn scratch_root() -> PathBuf {
    let shm = PathBuf::from("/dev/shm");
    if shm.is_dir() {
        shm
    } else {
        PathBuf::from("/var/tmp")
    }
}

impl Batch {
    pub fn new(tag: &str) -> std::io::Result<Batch> {
        let dir = scratch_root().join(format!("zipmc-{}-{}", std::process::id(), tag));
        let _ = std::fs::remove_dir_all(&dir);
        for s in 0..SHARDS {
            std::fs::create_dir_all(dir.join(format!("s{s}")))?;
        }
        Ok(Batch { dir, n: 0, bytes: 0 })
    }
    /// Add an archive with the expectation record (see zipcheck.py). Returns its key.
    pub fn add(&mut self, archive: &[u8], expect: &Value) -> std::io::Result<String> {
        let k = format!("{:07}", self.n);
        let d = self.dir.join(format!("s{}", self.n % SHARDS));
        std::fs::write(d.join(format!("{k}.zip")), archive)?;
        std::fs::write(d.join(format!("{k}.json")), serde_json::to_vec(expect).unwrap())?;
        self.n += 1;
        self.bytes += archive.len() as u64;
        Ok(k)
    }
    pub fn path_of(&self, key: &str) -> PathBuf {
        let n: usize = key.parse().unwrap_or(0);
        self.dir.join(format!("s{}", n % SHARDS)).join(format!("{key}.zip"))
    }
    /// Run CPython over all shards in parallel. Returns (disagreement lines, archives, entries, entries read).
    pub fn run_cpython(&self) -> Result<(Vec<String>, u64, u64, u64), String> {
        let script = format!("{}/pyref/zipcheck.py", crate::util::verif_root());
        let mut children = vec![];
        for s in 0..SHARDS {
            let c = Command::new("python3")
                .arg(&script)
                .arg(self.dir.join(format!("s{s}")))
                .stdout(std::process::Stdio::piped())
                .stderr(std::process::Stdio::piped())
                .spawn()
                .map_err(|e| format!("cannot start python3: {e}"))?;
            children.push(c);
        }
        let mut lines = vec![];
        let (mut na, mut ne, mut nr) = (0u64, 0u64, 0u64);
        for c in children {
            let o = c.wait_with_output().map_err(|e| e.to_string())?;
            if !o.status.success() {
                return Err(format!("zipcheck.py failed: {}", String::from_utf8_lossy(&o.stderr)));
            }
            let mut saw = false;
            for l in String::from_utf8_lossy(&o.stdout).lines() {
                if let Some(rest) = l.strip_prefix("CHECKED ") {
                    let v: Vec<u64> = rest.split(' ').filter_map(|x| x.parse().ok()).collect();
                    if v.len() == 3 {
                        na += v[0];
                        ne += v[1];
                        nr += v[2];
                        saw = true;
                    }
                } else if l.starts_with("DISAGREE ") {
                    lines.push(l.to_string());
                }
            }
            if !saw {
                return Err("zipcheck.py printed no CHECKED line".into());
            }
        }
        Ok((lines, na, ne, nr))
    }
    /// `unzip -tqq` on one archive; Ok(exit code, output).
    pub fn unzip_test(&self, key: &str, password: Option<&[u8]>) -> Result<(i32, String), String> {
        let mut cmd = Command::new("unzip");
        cmd.arg("-tqq");
        if let Some(p) = password {
            cmd.arg("-P").arg(String::from_utf8_lossy(p).into_owned());
        }
        cmd.arg(self.path_of(key));
        let o = cmd.output().map_err(|e| format!("cannot start unzip: {e}"))?;
        Ok((o.status.code().unwrap_or(-1), format!("{}{}", String::from_utf8_lossy(&o.stdout), String::from_utf8_lossy(&o.stderr))))
    }
}
impl Drop for Batch {
    fn drop(&mut self) {
        let _ = std::fs::remove_dir_all(&self.dir);
    }
}

/// Expectation record for zipcheck.py from an independent parse.
pub fn expect_from_parsed(p: &crate::reference::zipparse::Parsed, password: Option<&[u8]>) -> Value {
    use crate::util::hex;
    serde_json::json!({
        "comment": hex(&p.comment),
        "password": password.map(hex),
        "entries": p.entries.iter().map(|e| serde_json::json!({
            "name": hex(&e.name), "utf8": e.flags & 0x800 != 0, "size": e.usize_, "crc": e.crc, "method": e.method,
            "date": e.date, "time": e.time, "ext_attr": e.ext_attr,
        })).collect::<Vec<_>>(),
    })
}

//! Sparse in-memory file: 64 KiB pages, all-zero writes leave holes. Lets multi-GiB archives
//! go through the real write/read paths at the cost of time only.

use crate::reference::zipparse::Blob;
use std::collections::HashMap;
use std::io::{self, Read, Seek, SeekFrom, Write};

const PAGE: u64 = 1 << 16;

#[derive(Default, Clone)]
pub struct SparseFile {
    pages: HashMap<u64, Box<[u8]>>,
    pub len: u64,
    pub pos: u64,
    pub writes: u64,
}

impl SparseFile {
    pub fn new() -> SparseFile {
        Default::default()
    }
    pub fn resident_pages(&self) -> usize {
        self.pages.len()
    }
    fn write_at(&mut self, mut off: u64, mut buf: &[u8]) {
        while !buf.is_empty() {
            let pg = off / PAGE;
            let po = (off % PAGE) as usize;
            let n = buf.len().min(PAGE as usize - po);
            let chunk = &buf[..n];
            let zero = chunk.iter().all(|&b| b == 0);
            match self.pages.get_mut(&pg) {
                Some(p) => p[po..po + n].copy_from_slice(chunk),
                None => {
                    if !zero {
                        let mut p = vec![0u8; PAGE as usize].into_boxed_slice();
                        p[po..po + n].copy_from_slice(chunk);
                        self.pages.insert(pg, p);
                    }
                }
            }
            off += n as u64;
            buf = &buf[n..];
        }
    }
    fn read_into(&self, mut off: u64, mut buf: &mut [u8]) {
        while !buf.is_empty() {
            let pg = off / PAGE;
            let po = (off % PAGE) as usize;
            let n = buf.len().min(PAGE as usize - po);
            match self.pages.get(&pg) {
                Some(p) => buf[..n].copy_from_slice(&p[po..po + n]),
                None => buf[..n].iter_mut().for_each(|b| *b = 0),
            }
            off += n as u64;
            buf = &mut buf[n..];
        }
    }
}

impl Write for SparseFile {
    fn write(&mut self, buf: &[u8]) -> io::Result<usize> {
        self.writes += 1;
        let pos = self.pos;
        self.write_at(pos, buf);
        self.pos += buf.len() as u64;
        if self.pos > self.len {
            self.len = self.pos;
        }
        Ok(buf.len())
    }
    fn flush(&mut self) -> io::Result<()> {
        Ok(())
    }
}
impl Read for SparseFile {
    fn read(&mut self, buf: &mut [u8]) -> io::Result<usize> {
        if self.pos >= self.len {
            return Ok(0);
        }
        let n = (buf.len() as u64).min(self.len - self.pos) as usize;
        self.read_into(self.pos, &mut buf[..n]);
        self.pos += n as u64;
        Ok(n)
    }
}
impl Seek for SparseFile {
    fn seek(&mut self, pos: SeekFrom) -> io::Result<u64> {
        let np: i128 = match pos {
            SeekFrom::Start(p) => p as i128,
            SeekFrom::End(d) => self.len as i128 + d as i128,
            SeekFrom::Current(d) => self.pos as i128 + d as i128,
        };
        if np < 0 || np > u64::MAX as i128 {
            return Err(io::Error::new(io::ErrorKind::InvalidInput, "seek before start"));
        }
        self.pos = np as u64;
        Ok(self.pos)
    }
}
impl Blob for SparseFile {
    fn blen(&self) -> u64 {
        self.len
    }
    fn read_at(&self, off: u64, buf: &mut [u8]) -> bool {
        match off.checked_add(buf.len() as u64) {
            Some(e) if e <= self.len => {
                self.read_into(off, buf);
                true
            }
            _ => false,
        }
    }
    fn zero_range(&self, off: u64, len: u64) -> Option<bool> {
        if len == 0 {
            return Some(true);
        }
        let first = off / PAGE;
        let last = (off + len - 1) / PAGE;
        // cheap when the resident set is small
        for (&pg, p) in &self.pages {
            if pg >= first && pg <= last {
                let lo = if pg == first { (off % PAGE) as usize } else { 0 };
                let hi = if pg == last { ((off + len - 1) % PAGE) as usize + 1 } else { PAGE as usize };
                if p[lo..hi].iter().any(|&b| b != 0) {
                    return Some(false);
                }
            }
        }
        Some(true)
    }
}

pub mod inst;
pub mod sparse;

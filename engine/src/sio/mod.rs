pub mod inst;
pub mod sparse;
pub mod alloc;

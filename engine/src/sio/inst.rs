//! Instrumented in-memory stream: numbers every I/O call (choice point) and applies
//! deviations (short transfer, transient / sticky error) chosen by the explorer.

use std::cell::RefCell;
use std::collections::HashMap;
use std::io::{self, Cursor, Read, Seek, SeekFrom, Write};
use std::rc::Rc;

#[derive(Clone, Copy, Debug, PartialEq, Eq)]
pub enum Kind {
    Read,
    Write,
    Flush,
    Seek,
}
impl Kind {
    pub fn name(self) -> &'static str {
        match self {
            Kind::Read => "read",
            Kind::Write => "write",
            Kind::Flush => "flush",
            Kind::Seek => "seek",
        }
    }
}

#[derive(Clone, Copy, Debug, PartialEq, Eq)]
pub enum Dev {
    /// transfer at most this many bytes (≥1 unless asked 0)
    Short(usize),
    /// this call fails
    Err,
    /// this and every later call fails
    ErrSticky,
    /// this call returns ErrorKind::Interrupted and transfers nothing (the retryable non-failure of the Read/Write contract)
    Interrupted,
    /// this call returns ErrorKind::WouldBlock and transfers nothing (a non-blocking source that has nothing yet: callers
    /// that know their source call again later; the Read contract guarantees that an error return consumed nothing)
    WouldBlock,
}

#[derive(Default)]
pub struct Plan {
    pub devs: HashMap<u64, Dev>,
    /// every read/write transfers at most this many bytes
    pub chunk: Option<usize>,
    /// reads that would cross one of these absolute positions are cut there
    pub cuts: Vec<u64>,
    pub calls: u64,
    pub kinds: Vec<Kind>,
    /// requested transfer size of every call (0 for flush/seek)
    pub sizes: Vec<usize>,
    pub sticky_on: bool,
    pub errors_returned: u64,
    pub interrupts_returned: u64,
    pub record_kinds: bool,
}

pub type PlanRef = Rc<RefCell<Plan>>;

pub fn plan() -> PlanRef {
    Rc::new(RefCell::new(Plan { record_kinds: true, ..Default::default() }))
}

pub struct Inst<T = Cursor<Vec<u8>>> {
    pub cur: T,
    pub plan: PlanRef,
}

impl Inst<Cursor<Vec<u8>>> {
    pub fn new(data: Vec<u8>, plan: PlanRef) -> Inst {
        Inst { cur: Cursor::new(data), plan }
    }
}
impl<T> Inst<T> {
    pub fn over(inner: T, plan: PlanRef) -> Inst<T> {
        Inst { cur: inner, plan }
    }
    fn point(&mut self, k: Kind, size: usize) -> Option<Dev> {
        let mut p = self.plan.borrow_mut();
        let idx = p.calls;
        p.calls += 1;
        if p.record_kinds {
            p.kinds.push(k);
            p.sizes.push(size);
        }
        if p.sticky_on {
            p.errors_returned += 1;
            return Some(Dev::Err);
        }
        match p.devs.get(&idx).copied() {
            Some(Dev::ErrSticky) => {
                p.sticky_on = true;
                p.errors_returned += 1;
                Some(Dev::Err)
            }
            Some(Dev::Err) => {
                p.errors_returned += 1;
                Some(Dev::Err)
            }
            Some(Dev::Interrupted) => {
                p.interrupts_returned += 1;
                Some(Dev::Interrupted)
            }
            Some(Dev::WouldBlock) => {
                p.interrupts_returned += 1;
                Some(Dev::WouldBlock)
            }
            d => d,
        }
    }
}

fn would_block() -> io::Error {
    io::Error::new(io::ErrorKind::WouldBlock, "injected EWOULDBLOCK")
}

fn interrupted() -> io::Error {
    io::Error::new(io::ErrorKind::Interrupted, "injected EINTR")
}

fn injected(k: Kind) -> io::Error {
    io::Error::new(io::ErrorKind::Other, format!("injected {} failure", k.name()))
}

impl<T: Read + Seek> Read for Inst<T> {
    fn read(&mut self, buf: &mut [u8]) -> io::Result<usize> {
        let d = self.point(Kind::Read, buf.len());
        let mut n = buf.len();
        match d {
            Some(Dev::Err) | Some(Dev::ErrSticky) => return Err(injected(Kind::Read)),
            Some(Dev::Interrupted) => return Err(interrupted()),
            Some(Dev::WouldBlock) => return Err(would_block()),
            Some(Dev::Short(j)) => n = n.min(j),
            None => {}
        }
        {
            let p = self.plan.borrow();
            if let Some(c) = p.chunk {
                n = n.min(c);
            }
            let pos = if p.cuts.is_empty() { 0 } else { self.cur.stream_position().unwrap_or(0) };
            for &cut in &p.cuts {
                if cut > pos && cut < pos + n as u64 {
                    n = (cut - pos) as usize;
                }
            }
        }
        self.cur.read(&mut buf[..n])
    }
}
impl<T: Write> Write for Inst<T> {
    fn write(&mut self, buf: &[u8]) -> io::Result<usize> {
        let d = self.point(Kind::Write, buf.len());
        let mut n = buf.len();
        match d {
            Some(Dev::Err) | Some(Dev::ErrSticky) => return Err(injected(Kind::Write)),
            Some(Dev::Interrupted) => return Err(interrupted()),
            Some(Dev::WouldBlock) => return Err(would_block()),
            Some(Dev::Short(j)) => n = n.min(j.max(1)),
            None => {}
        }
        if let Some(c) = self.plan.borrow().chunk {
            n = n.min(c.max(1));
        }
        self.cur.write(&buf[..n])
    }
    /// A sink with a real gathering write: takes bytes from the slices in order, as many as the plan allows for this call
    /// (so a short count can end in the middle of any slice).
    fn write_vectored(&mut self, bufs: &[io::IoSlice<'_>]) -> io::Result<usize> {
        let total: usize = bufs.iter().map(|b| b.len()).sum();
        let d = self.point(Kind::Write, total);
        let mut n = total;
        match d {
            Some(Dev::Err) | Some(Dev::ErrSticky) => return Err(injected(Kind::Write)),
            Some(Dev::Interrupted) => return Err(interrupted()),
            Some(Dev::WouldBlock) => return Err(would_block()),
            Some(Dev::Short(j)) => n = n.min(j.max(1)),
            None => {}
        }
        if let Some(c) = self.plan.borrow().chunk {
            n = n.min(c.max(1));
        }
        let mut left = n;
        for b in bufs {
            if left == 0 {
                break;
            }
            let k = b.len().min(left);
            self.cur.write_all(&b[..k])?;
            left -= k;
        }
        Ok(n - left)
    }
    fn flush(&mut self) -> io::Result<()> {
        match self.point(Kind::Flush, 0) {
            Some(Dev::Err) | Some(Dev::ErrSticky) => Err(injected(Kind::Flush)),
            Some(Dev::Interrupted) => Err(interrupted()),
            Some(Dev::WouldBlock) => Err(would_block()),
            _ => self.cur.flush(),
        }
    }
}
impl<T: Seek> Seek for Inst<T> {
    fn seek(&mut self, pos: SeekFrom) -> io::Result<u64> {
        match self.point(Kind::Seek, 0) {
            Some(Dev::Err) | Some(Dev::ErrSticky) => Err(injected(Kind::Seek)),
            Some(Dev::Interrupted) => Err(interrupted()),
            Some(Dev::WouldBlock) => Err(would_block()),
            _ => self.cur.seek(pos),
        }
    }
}

/// A plain non-seekable reader over bytes with the same deviation machinery (streaming API).
pub struct InstRead {
    pub inner: Inst,
}
impl Read for InstRead {
    fn read(&mut self, buf: &mut [u8]) -> io::Result<usize> {
        self.inner.read(buf)
    }
}

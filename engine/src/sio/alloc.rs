//! Counting global allocator: per-thread live/peak byte counters (used by C05's memory oracle
//! inside single-threaded worker processes) and a hard refusal of absurd single requests, so
//! that a missing plausibility guard becomes a clean, attributable abort instead of an OOM kill.

use std::alloc::{GlobalAlloc, Layout, System};
use std::cell::Cell;

pub const REFUSE_ABOVE: usize = 8 << 30;
/// adjustable limit for a single request (a check that only ever handles small inputs lowers it, so that a
/// reservation sized by an untrusted header field is an attributable abort and not a silent multi-GiB mapping)
static SINGLE_CAP: std::sync::atomic::AtomicUsize = std::sync::atomic::AtomicUsize::new(REFUSE_ABOVE);
pub fn set_single_request_cap(n: usize) {
    SINGLE_CAP.store(n, std::sync::atomic::Ordering::Relaxed);
}
#[inline]
fn cap() -> usize {
    SINGLE_CAP.load(std::sync::atomic::Ordering::Relaxed)
}

thread_local! {
    static LIVE: Cell<isize> = const { Cell::new(0) };
    static PEAK: Cell<isize> = const { Cell::new(0) };
}

pub struct Counting;

#[inline]
fn add(n: isize) {
    let _ = LIVE.try_with(|l| {
        let v = l.get() + n;
        l.set(v);
        if n > 0 {
            let _ = PEAK.try_with(|p| {
                if v > p.get() {
                    p.set(v);
                }
            });
        }
    });
}

unsafe impl GlobalAlloc for Counting {
    unsafe fn alloc(&self, l: Layout) -> *mut u8 {
        if l.size() > cap() {
            return std::ptr::null_mut();
        }
        let p = System.alloc(l);
        if !p.is_null() {
            add(l.size() as isize);
        }
        p
    }
    unsafe fn alloc_zeroed(&self, l: Layout) -> *mut u8 {
        if l.size() > cap() {
            return std::ptr::null_mut();
        }
        let p = System.alloc_zeroed(l);
        if !p.is_null() {
            add(l.size() as isize);
        }
        p
    }
    unsafe fn dealloc(&self, p: *mut u8, l: Layout) {
        System.dealloc(p, l);
        add(-(l.size() as isize));
    }
    unsafe fn realloc(&self, p: *mut u8, l: Layout, new: usize) -> *mut u8 {
        if new > cap() {
            return std::ptr::null_mut();
        }
        let q = System.realloc(p, l, new);
        if !q.is_null() {
            add(new as isize - l.size() as isize);
        }
        q
    }
}

/// Start a measurement window on this thread: peak := live.
pub fn mark() -> isize {
    let live = LIVE.with(|l| l.get());
    PEAK.with(|p| p.set(live));
    live
}
/// Peak bytes above the mark since `mark()`.
pub fn peak_since(mark: isize) -> usize {
    let p = PEAK.with(|p| p.get());
    (p - mark).max(0) as usize
}

//! C12 — any order of writer calls is safe; misuse is reported, not absorbed.
//! E-SEQ: breadth-first explicit-state search over call histories on the real ZipWriter, in
//! lock step with `refmodel::writer::Model`; states are de-duplicated on a canonical
//! fingerprint (hook flags, sink bytes, model state).

use crate::reference::zipparse::{self, Opts, PEntry};
use crate::refmodel::writer::{Class, Mode, Model};
use crate::util::{fnv_mix, panic_site, par_for, Stats};
use crate::zipapi::*;
use crate::Args;
use serde_json::{json, Value};
use std::sync::Mutex;

pub const PW: &[u8] = b"pw";

fn rec(id: u16, body: &[u8]) -> Vec<u8> {
    crate::reference::zipbuild::extra_block(id, body)
}

/// The alphabet, simplest first. `core`: the 12-operation core used for the deeper search.
pub fn alphabet(core: bool) -> Vec<(&'static str, Call)> {
    let o = FOpts::m;
    let mut trunc = rec(0xbeef, b"");
    trunc[2] = 4; // claims 4 body bytes
    trunc.extend_from_slice(b"ab"); // has 2
    let full: Vec<(&'static str, Call)> = vec![
        ("set_comment", Call::SetComment(b"c".to_vec())),
        // one byte more than the end record can describe: finish() must refuse it, and a caller who then sets a
        // shorter comment and finishes again must get exactly the entries created so far
        ("set_comment-65536", Call::SetComment(vec![b'k'; 65536])),
        ("write-empty", Call::Write(vec![])),
        ("write-xyz", Call::Write(b"xyz".to_vec())),
        ("write-valid-record", Call::Write(rec(0xbeef, b"hi"))),
        ("write-reserved-record", Call::Write(rec(0x000a, b""))),
        ("write-zip64-record", Call::Write(rec(0x0001, b""))),
        ("write-truncated-record", Call::Write(trunc)),
        ("flush", Call::Flush),
        ("start_file-stored", Call::StartFile { name: "a".into(), opts: o(0) }),
        ("start_file-deflated", Call::StartFile { name: "b".into(), opts: o(8) }),
        ("start_file-bzip2", Call::StartFile { name: "c".into(), opts: o(12) }),
        ("start_file-zstd", Call::StartFile { name: "z".into(), opts: o(93) }),
        // level 0 was documented for Bzip2 and panicked inside libbz2 (fixed: now refused); either result, never a panic
        ("start_file-bzip2-level0", Call::StartFile { name: "c0".into(), opts: FOpts { level: Some(0), ..o(12) } }),
        ("start_file-deflated-level77", Call::StartFile { name: "d77".into(), opts: FOpts { level: Some(77), ..o(8) } }),
        ("start_file-stored-level3", Call::StartFile { name: "s3".into(), opts: FOpts { level: Some(3), ..o(0) } }),
        ("start_file-method1", Call::StartFile { name: "u1".into(), opts: o(1) }),
        ("start_file-aes", Call::StartFile { name: "aes".into(), opts: o(99) }),
        // a name one byte too long for the format: must not disturb what was created before it
        ("start_file-name-65536", Call::StartFile { name: "n".repeat(65536), opts: o(0) }),
        ("start_file-large", Call::StartFile { name: "L".into(), opts: FOpts { large: true, ..o(0) } }),
        ("start_file-zipcrypto", Call::StartFile { name: "enc".into(), opts: FOpts { password: Some(PW.to_vec()), ..o(0) } }),
        ("aligned-1", Call::StartAligned { name: "al1".into(), opts: o(0), align: 1 }),
        ("aligned-4", Call::StartAligned { name: "al4".into(), opts: o(0), align: 4 }),
        ("aligned-64", Call::StartAligned { name: "al64".into(), opts: o(8), align: 64 }),
        ("start_extra", Call::StartExtra { name: "x".into(), opts: o(0) }),
        ("start_extra-deflated-large", Call::StartExtra { name: "xl".into(), opts: FOpts { large: true, ..o(8) } }),
        // the level is only looked at when the extra data ends: the refusal (and whatever follows it) comes late
        ("start_extra-deflated-level77", Call::StartExtra { name: "x77".into(), opts: FOpts { level: Some(77), ..o(8) } }),
        ("end_local_start_central", Call::EndLocalStartCentral),
        ("end_extra", Call::EndExtra),
        ("add_directory", Call::AddDir { name: "d".into(), opts: o(0) }),
        ("add_directory-slash", Call::AddDir { name: "d/".into(), opts: o(0) }),
        ("add_symlink", Call::AddSymlink { name: "l".into(), target: "t".into(), opts: o(0) }),
        ("raw_copy-stored", Call::RawCopy { src: 0, idx: 0, rename: None, raw_open: false }),
        ("raw_copy-deflated", Call::RawCopy { src: 0, idx: 1, rename: None, raw_open: false }),
        ("raw_copy-renamed", Call::RawCopy { src: 0, idx: 0, rename: Some("r".into()), raw_open: false }),
        // the "bulk" operations (own, shallower search): single write calls larger than the codecs' internal buffers, and
        // alignments that are not powers of two requested once the archive has grown past 64 KiB
        ("bulk-write-300KiB-incompressible", Call::Write(crate::util::Rng(0xB01C).bytes(300 << 10))),
        ("bulk-write-70000", Call::Write(vec![b'q'; 70_000])),
        ("bulk-aligned-3", Call::StartAligned { name: "al3".into(), opts: o(0), align: 3 }),
        ("bulk-aligned-1000-deflated", Call::StartAligned { name: "al1000".into(), opts: o(8), align: 1000 }),
        ("bulk-aligned-4095", Call::StartAligned { name: "al4095".into(), opts: o(0), align: 4095 }),
        ("bulk-start_file-zstd", Call::StartFile { name: "bz".into(), opts: o(93) }),
        ("finish", Call::Finish),
        ("drop", Call::Drop),
    ];
    if !core {
        return full;
    }
    let keep = [
        "write-xyz",
        "write-valid-record",
        "write-truncated-record",
        "start_file-stored",
        "start_file-deflated",
        "start_extra",
        "end_local_start_central",
        "end_extra",
        "add_directory",
        "raw_copy-deflated",
        "start_file-name-65536",
        "finish",
        "drop",
    ];
    full.into_iter().filter(|(n, _)| keep.contains(n)).collect()
}

pub struct SrcInfo {
    pub bytes: Vec<u8>,
    pub obs: ObsArchive,
}
/// The archive the appended-writer searches start from (last source).
fn append_base(seed: u64) -> Vec<u8> {
    let calls = vec![
        Call::SetComment(b"old comment".to_vec()),
        Call::StartFile { name: "p0".into(), opts: FOpts { perm: Some(0o640), ..FOpts::m(0) } },
        Call::Write(content_class(2, seed)),
        Call::StartFile { name: "p1".into(), opts: FOpts::m(8) },
        Call::Write(content_class(3, seed)),
        Call::Finish,
    ];
    let (r, b) = exec(&calls, &[]);
    assert!(r.iter().all(|x| x.is_ok()), "append base could not be built");
    b
}

pub fn sources(seed: u64) -> Vec<SrcInfo> {
    let mut v = crate::props::c02::sources(seed);
    v.push(append_base(seed));
    v.into_iter()
        .map(|b| {
            let obs = observe(&b, None, 1 << 24).expect("source archive unreadable");
            SrcInfo { bytes: b, obs }
        })
        .collect()
}

/// Outcome of executing a history.
struct Run {
    model: Model,
    fp: u64,
    /// result of every step
    res: Vec<Res>,
    classes: Vec<Class>,
    sink: Vec<u8>,
    /// hook flags at the end (None when the writer is gone)
    hook: Option<HookState>,
}

/// Snapshot of the writer's mode machine through hook H1; an empty stand-in when the harness had to be built
/// without the hook (the search then distinguishes states by sink bytes and model state only).
#[cfg(zip_rs_zip_verif)]
type HookState = zip::write::VerifWriterState;
#[cfg(not(zip_rs_zip_verif))]
#[derive(Debug, Clone)]
pub struct HookState {
    pub writing_to_file: bool,
    pub writing_to_extra_field: bool,
    pub writing_to_central_extra_field_only: bool,
    pub writing_raw: bool,
    pub inner: &'static str,
    pub files: usize,
    pub stats_start: u64,
    pub bytes_written: u64,
}
#[cfg(zip_rs_zip_verif)]
fn hook_of<S: std::io::Write + std::io::Seek>(w: &W<S>) -> HookState {
    w.writer().verif_state()
}
#[cfg(not(zip_rs_zip_verif))]
fn hook_of<S: std::io::Write + std::io::Seek>(_w: &W<S>) -> HookState {
    HookState { writing_to_file: false, writing_to_extra_field: false, writing_to_central_extra_field_only: false, writing_raw: false, inner: "unknown", files: 0, stats_start: 0, bytes_written: 0 }
}

/// Start state of the histories being executed (process-wide; searches run one after the other): None = a fresh
/// writer; Some((i, n, comment)) = a writer re-opened with `new_append` on source archive i, whose n entries and
/// comment the model then lists as already present.
static BASE: std::sync::RwLock<Option<(usize, usize, Vec<u8>)>> = std::sync::RwLock::new(None);
fn set_base(b: Option<(usize, usize, Vec<u8>)>) {
    *BASE.write().unwrap() = b;
}

fn execute(hist: &[Call], src_bytes: &[Vec<u8>]) -> Run {
    let base = BASE.read().unwrap().clone();
    let (sink, mut w, mut model) = match base {
        None => {
            let sink = SharedBuf::default();
            let w = W::new(sink.clone());
            (sink, w, Model::new())
        }
        Some((b, n, comment)) => {
            let sink = SharedBuf::new(src_bytes[b].clone());
            let zw = match crate::util::guard(|| zip::ZipWriter::new_append(sink.clone())) {
                Ok(Ok(z)) => z,
                other => panic!("machinery: the base archive cannot be opened for append: {:?}", other.map(|r| r.map(|_| ()).map_err(|e| e.to_string()))),
            };
            (sink, W::from_writer(zw), Model::appended(b, n, comment))
        }
    };
    let mut res = Vec::with_capacity(hist.len());
    let mut classes = Vec::with_capacity(hist.len());
    for c in hist {
        let class = model.expect(c);
        let r = w.call(c, src_bytes);
        model.apply(c, class, r.is_ok());
        res.push(r);
        classes.push(class);
    }
    let hook = if w.alive() { Some(hook_of(&w)) } else { None };
    let mut fp = model.hash64();
    fp = fnv_mix(fp, sink.hash());
    fp = fnv_mix(fp, sink.len() as u64);
    fp = fnv_mix(fp, sink.pos());
    if let Some(h) = &hook {
        let bits = (h.writing_to_file as u64) | (h.writing_to_extra_field as u64) << 1 | (h.writing_to_central_extra_field_only as u64) << 2 | (h.writing_raw as u64) << 3;
        fp = fnv_mix(fp, bits);
        fp = fnv_mix(fp, crate::util::fnv(h.inner.as_bytes()));
        fp = fnv_mix(fp, h.files as u64);
        fp = fnv_mix(fp, h.stats_start);
        fp = fnv_mix(fp, h.bytes_written);
    } else {
        fp = fnv_mix(fp, 0xdead);
    }
    // the writer must not be dropped implicitly with side effects on `sink` before we snapshot
    let snapshot = sink.snapshot();
    drop(w);
    Run { model, fp, res, classes, sink: snapshot, hook }
}

fn case_json(hist: &[Call], names: &[&str]) -> Value {
    match BASE.read().unwrap().as_ref() {
        None => json!({"kind": "history", "ops": names, "calls": calls_json(hist)}),
        Some((b, _, _)) => json!({"kind": "history", "start": "new_append", "base_source": b, "ops": names, "calls": calls_json(hist)}),
    }
}

/// refinement mapping: hook flags <-> model mode. Returns a description on mismatch.
fn refinement(model: &Model, h: &HookState) -> Option<String> {
    if h.inner == "unknown" {
        return None;
    }
    let closed = h.inner == "closed";
    let ok = match model.mode {
        Mode::Unknown => true,
        Mode::Finished => closed,
        Mode::Idle | Mode::NoFile => !h.writing_to_file && !h.writing_to_extra_field && !closed,
        Mode::InFile => h.writing_to_file && !h.writing_to_extra_field && !h.writing_raw && !closed,
        Mode::AfterRaw => h.writing_to_file && h.writing_raw && !closed,
        Mode::ExtraLocal => h.writing_to_extra_field && !h.writing_to_central_extra_field_only && !closed,
        Mode::ExtraCentral => h.writing_to_extra_field && h.writing_to_central_extra_field_only && !closed,
    };
    let files_ok = model.mode == Mode::Unknown || model.mode == Mode::Finished || h.files == model.entries.len();
    if ok && files_ok {
        None
    } else {
        Some(format!("model mode {:?} with {} entries vs hook {:?}", model.mode, model.entries.len(), h))
    }
}

/// Compare a finished archive with the model.
pub fn verify_finished(model: &Model, bytes: &[u8], srcs: &[SrcInfo], st: &mut Stats, case: &Value, order: u64) {
    st.count("finish_verifications", 1);
    let opts = Opts { password: Some(PW.to_vec()), ..Opts::strict() };
    let parsed = match crate::util::guard(|| zipparse::validate(bytes, &opts)) {
        Ok(Ok(p)) => p,
        Ok(Err(e)) => {
            st.viol(format!("finish-ok/invalid-archive/{}", e.clause), format!("finish() succeeded but the strict parser rejects the archive: {e}"), case.clone(), order);
            return;
        }
        Err(p) => {
            st.viol(format!("machinery/validator-panic/{}", panic_site(&p)), p, case.clone(), order);
            return;
        }
    };
    let obs = match observe(bytes, Some(PW), 1 << 24) {
        Ok(o) => o,
        Err(RErr::Panic(p)) => {
            st.viol(format!("finish-ok/reader-panic/{}", panic_site(&p)), format!("crate reader panicked on the finished archive: {p}"), case.clone(), order);
            return;
        }
        Err(RErr::Open(e)) => {
            st.viol(format!("finish-ok/reader-rejects/{}", panic_site(&e)), format!("finish() succeeded but ZipArchive::new fails: {e}"), case.clone(), order);
            return;
        }
    };
    let mut bad = |what: &str, detail: String, st: &mut Stats| {
        st.viol(format!("finish-ok/{what}"), detail, case.clone(), order);
    };
    let want_comment = model.final_comment.clone().unwrap_or_default();
    if obs.comment != want_comment || parsed.comment != want_comment {
        bad("comment", format!("archive comment {:?}, model {:?}", crate::util::show(&obs.comment), crate::util::show(&want_comment)), st);
    }
    if obs.entries.len() != model.entries.len() || parsed.entries.len() != model.entries.len() {
        let names: Vec<&str> = obs.entries.iter().map(|e| e.name.as_str()).collect();
        let want: Vec<String> = model.entries.iter().map(|e| if e.kind == 3 && e.name.is_empty() { "<copy>".to_string() } else { e.name.clone() }).collect();
        bad(
            "entry-list",
            format!("archive lists {} entries {:?}; entries whose creation succeeded: {} {:?}", obs.entries.len(), names, model.entries.len(), want),
            st,
        );
        return;
    }
    for (i, m) in model.entries.iter().enumerate() {
        let o = &obs.entries[i];
        let p = &parsed.entries[i];
        if let Some((s, idx)) = m.raw_of {
            let so = &srcs[s].obs.entries[idx];
            let want_name = if m.name.is_empty() { so.name.clone() } else { m.name.clone() };
            if o.name != want_name || p.name != want_name.as_bytes() {
                bad("raw-copy/name", format!("entry {i}: name {:?}, expected {:?}", o.name, want_name), st);
            }
            if !m.content_known {
                continue;
            }
            if o.raw != so.raw {
                bad("raw-copy/compressed-bytes", format!("entry {i}: stored bytes differ from the source's"), st);
            }
            if o.content != so.content {
                bad("raw-copy/content", format!("entry {i}: content differs from the source's"), st);
            }
            if (o.method, o.crc, o.size, o.csize) != (so.method, so.crc, so.size, so.csize) {
                bad("raw-copy/metadata", format!("entry {i}: method/crc/sizes {:?} vs source {:?}", (o.method, o.crc, o.size, o.csize), (so.method, so.crc, so.size, so.csize)), st);
            }
            continue;
        }
        if o.name != m.name || p.name != m.name.as_bytes() {
            bad("name", format!("entry {i}: name {:?} / {:?}, model {:?}", o.name, crate::util::show(&p.name), m.name), st);
        }
        if !m.content_known {
            continue;
        }
        if o.method != m.method || p.method != m.method {
            bad("method", format!("entry {i} ({}): method {} / {}, model {}", m.name, o.method, p.method, m.method), st);
        }
        if o.mode != m.unix_mode {
            bad("unix_mode", format!("entry {i} ({}): mode {:?}, model {:?}", m.name, o.mode, m.unix_mode), st);
        }
        match &o.content {
            Ok(c) if *c == m.content => {}
            Ok(c) => bad(
                "content",
                format!("entry {i} ({}): holds {} bytes {:?}, bytes successfully written: {} {:?}", m.name, c.len(), crate::util::show(c), m.content.len(), crate::util::show(&m.content)),
                st,
            ),
            Err(e) => bad("content-read", format!("entry {i} ({}): read failed: {e}", m.name), st),
        }
        match zipparse::content(bytes, p, &opts) {
            Ok(c) if c == m.content => {}
            Ok(c) => bad("content-independent", format!("entry {i} ({}): independent decode gives {} bytes, model {}", m.name, c.len(), m.content.len()), st),
            Err(e) => bad("content-independent", format!("entry {i} ({}): independent decode failed: {e}", m.name), st),
        }
        // where extra data lands is C17's statement, not C12's: counted here, judged there
        if let Some(le) = &m.local_extra {
            if PEntry::extra_without_zip64(&p.l_extra).as_ref() != Some(le) {
                st.count("note_local_extra_not_as_supplied(C17)", 1);
            }
        }
        if let Some(ce) = &m.central_extra {
            if PEntry::extra_without_zip64(&p.extra).as_ref() != Some(ce) || PEntry::extra_without_zip64(&o.extra).as_ref() != Some(ce) {
                st.count("note_central_extra_not_as_supplied(C17)", 1);
            }
        }
    }
}

/// Check the last step of `hist` (the prefix was checked when its state was expanded).
fn check_last(run: &Run, hist: &[Call], names: &[&str], srcs: &[SrcInfo], src_bytes: &[Vec<u8>], st: &mut Stats, order: u64) {
    let k = hist.len() - 1;
    let call = &hist[k];
    let r = &run.res[k];
    let class = run.classes[k];
    let opn = names[k];
    st.class(&format!("{}:{}{}", opn, r.class(), if class == Class::Unspecified { "(unspecified)" } else { "" }));
    let case = || case_json(hist, names);
    match (r, class) {
        (Res::Panic(p), _) => {
            st.viol(format!("panic/{}/{}", call.opname(), panic_site(p)), format!("{opn} panicked after {:?}: {p}", &names[..k]), case(), order);
            return;
        }
        (Res::Err(e), Class::MustOk) => {
            st.viol(
                format!("valid-call-refused/{opn}/{}", panic_site(e)),
                format!("{opn} is valid after {:?} but returned Err({e})", &names[..k]),
                case(),
                order,
            );
        }
        (Res::Ok(_), Class::MustErr) => {
            st.viol(format!("misuse-absorbed/{opn}"), format!("{opn} after {:?} is misuse and must return an error, but returned Ok", &names[..k]), case(), order);
        }
        (_, Class::Unspecified) => st.count("unspecified_steps", 1),
        _ => {}
    }
    if let Some(h) = &run.hook {
        st.count("refinement_checked", 1);
        if let Some(d) = refinement(&run.model, h) {
            st.count("refinement_mismatch", 1);
            if st.extra.get("refinement_mismatch") == Some(&1) {
                crate::diag!("WARNING: refinement mapping mismatch after {:?}: {d}", names);
            }
        }
    }
    match call {
        Call::Finish if r.is_ok() => verify_finished(&run.model, &run.sink, srcs, st, &case(), order),
        Call::Drop => {
            // drop instead of finish from the same state must leave identical bytes (where finish must succeed)
            let mut h2 = hist.to_vec();
            h2[k] = Call::Finish;
            let pre = execute(&hist[..k], src_bytes).model;
            if pre.expect(&Call::Finish) == Class::MustOk && pre.mode != Mode::Finished {
                let fin = execute(&h2, src_bytes);
                // "finish() and drop produce identical bytes" is C01's statement: counted here, judged there
                if fin.res[k].is_ok() && fin.sink != run.sink {
                    st.count("note_drop_differs_from_finish(C01)", 1);
                }
                st.count("drop_vs_finish_compared", 1);
            }
        }
        _ => {}
    }
}

struct State {
    hist: Vec<u8>,
}

pub struct SearchResult {
    pub states: u64,
    pub transitions: u64,
    pub per_level: Vec<u64>,
}

/// Breadth-first search to `depth` over `alpha`.
pub fn search(alpha: &[(&'static str, Call)], depth: usize, srcs: &[SrcInfo], stats: &mut Stats, max_states: u64, tag: u64) -> (SearchResult, bool) {
    let src_bytes: Vec<Vec<u8>> = srcs.iter().map(|s| s.bytes.clone()).collect();
    let nops = alpha.len() as u64;
    let mut seen: std::collections::HashSet<u64> = Default::default();
    let init = execute(&[], &src_bytes);
    seen.insert(init.fp);
    let mut level: Vec<State> = vec![State { hist: vec![] }];
    let mut res = SearchResult { states: 1, transitions: 0, per_level: vec![1] };
    let mut capped = false;
    for d in 0..depth {
        let found: Mutex<Vec<(u64, u64, u64)>> = Mutex::new(vec![]); // (fp, parent idx, op)
        let lvl = &level;
        // for the hang watchdog: the history an item stands for
        let describe = |t: u64| -> Option<Value> {
            let (pi, k) = ((t / nops) as usize, (t % nops) as usize);
            let st = lvl.get(pi)?;
            let mut hist: Vec<Call> = st.hist.iter().map(|&i| alpha[i as usize].1.clone()).collect();
            let mut names: Vec<&str> = st.hist.iter().map(|&i| alpha[i as usize].0).collect();
            hist.push(alpha[k].1.clone());
            names.push(alpha[k].0);
            Some(case_json(&hist, &names))
        };
        let s = crate::util::par_for_desc(lvl.len() as u64 * nops, 8, &describe, |t, st| {
            let (pi, k) = ((t / nops) as usize, (t % nops) as usize);
            let mut hist: Vec<Call> = lvl[pi].hist.iter().map(|&i| alpha[i as usize].1.clone()).collect();
            let mut names: Vec<&str> = lvl[pi].hist.iter().map(|&i| alpha[i as usize].0).collect();
            // nothing follows drop; after the object is gone there is nothing to call
            hist.push(alpha[k].1.clone());
            names.push(alpha[k].0);
            let run = execute(&hist, &src_bytes);
            st.evals += 1;
            let order = (tag << 56) | ((d as u64) << 48) | t;
            check_last(&run, &hist, &names, srcs, &src_bytes, st, order);
            st.max_depth = st.max_depth.max(d as u64 + 1);
            if matches!(alpha[k].1, Call::Drop) || run.hook.is_none() {
                return;
            }
            found.lock().unwrap().push((run.fp, pi as u64, k as u64));
        });
        res.transitions += s.evals;
        stats.merge(s);
        let mut f = found.into_inner().unwrap();
        f.sort_by_key(|x| (x.1, x.2));
        let mut next = vec![];
        for (fp, pi, k) in f {
            if seen.contains(&fp) {
                continue;
            }
            if seen.len() as u64 >= max_states {
                capped = true;
                break;
            }
            seen.insert(fp);
            let mut h = level[pi as usize].hist.clone();
            h.push(k as u8);
            next.push(State { hist: h });
        }
        res.per_level.push(next.len() as u64);
        res.states = seen.len() as u64;
        level = next;
        if level.is_empty() || capped {
            break;
        }
    }
    (res, capped)
}

// ---------------------------------------------------------------------------------------------
// second engine: the same transition function explored by stateright's breadth-first checker

pub mod sr {
    use super::*;
    use stateright::{Checker, Model, Property};

    pub struct WriterModel {
        pub alpha: Vec<(&'static str, Call)>,
        pub src_bytes: Vec<Vec<u8>>,
        pub depth: usize,
    }
    /// A state is the history that reaches it; identity (hash, equality) is the canonical fingerprint only.
    #[derive(Clone, Debug)]
    pub struct S {
        pub hist: Vec<u8>,
        pub fp: u64,
        /// the last step contradicted the reference model (panic, valid call refused, misuse absorbed)
        pub bad: bool,
    }
    impl std::hash::Hash for S {
        fn hash<H: std::hash::Hasher>(&self, h: &mut H) {
            self.fp.hash(h)
        }
    }
    impl PartialEq for S {
        fn eq(&self, o: &S) -> bool {
            self.fp == o.fp
        }
    }
    impl Eq for S {}

    impl Model for WriterModel {
        type State = S;
        type Action = u8;
        fn init_states(&self) -> Vec<S> {
            vec![S { hist: vec![], fp: execute(&[], &self.src_bytes).fp, bad: false }]
        }
        fn actions(&self, s: &S, out: &mut Vec<u8>) {
            if s.hist.len() < self.depth {
                out.extend(0..self.alpha.len() as u8);
            }
        }
        fn next_state(&self, s: &S, a: u8) -> Option<S> {
            let mut hist = s.hist.clone();
            hist.push(a);
            let calls: Vec<Call> = hist.iter().map(|&i| self.alpha[i as usize].1.clone()).collect();
            let run = execute(&calls, &self.src_bytes);
            // nothing follows drop or a writer that is gone: terminal transitions are judged by the primary engine
            if matches!(self.alpha[a as usize].1, Call::Drop) || run.hook.is_none() {
                return None;
            }
            let k = calls.len() - 1;
            let bad = match (&run.res[k], run.classes[k]) {
                (Res::Panic(_), _) => true,
                (Res::Err(_), Class::MustOk) => true,
                (Res::Ok(_), Class::MustErr) => true,
                _ => false,
            };
            Some(S { hist, fp: run.fp, bad })
        }
        fn properties(&self) -> Vec<Property<Self>> {
            vec![Property::<Self>::always("every step has the result class the reference model demands", |_, s| !s.bad)]
        }
    }

    /// (unique states, total states generated, max depth, path of a discovery if any)
    pub fn explore(alpha: Vec<(&'static str, Call)>, src_bytes: Vec<Vec<u8>>, depth: usize) -> (u64, u64, usize, Option<Vec<u8>>) {
        let m = WriterModel { alpha, src_bytes, depth };
        // one thread: breadth-first order, so every state is first met at its minimal depth (as in the primary engine)
        let c = m.checker().threads(1).spawn_bfs().join();
        let disc = c.discoveries().into_iter().next().map(|(_, p)| p.last_state().hist.clone());
        (c.unique_state_count() as u64, c.state_count() as u64, c.max_depth(), disc)
    }
}

fn replay(case: &Value, st: &mut Stats, seed: u64) {
    let srcs = sources(seed);
    let src_bytes: Vec<Vec<u8>> = srcs.iter().map(|s| s.bytes.clone()).collect();
    let regen = |n: usize| vec![b'q'; n];
    let hist = calls_from_json(&case["calls"], &regen);
    if let Some(b) = case["base_source"].as_u64() {
        let b = b as usize;
        set_base(Some((b, srcs[b].obs.entries.len(), srcs[b].obs.comment.clone())));
        println!("  start state: ZipWriter::new_append on source archive {b} ({} entries)", srcs[b].obs.entries.len());
    }
    let names_owned: Vec<String> = case["ops"].as_array().map(|a| a.iter().map(|x| x.as_str().unwrap_or("?").to_string()).collect()).unwrap_or_default();
    let names: Vec<&str> = (0..hist.len()).map(|i| names_owned.get(i).map(|s| s.as_str()).unwrap_or("?")).collect();
    for k in 1..=hist.len() {
        let run = execute(&hist[..k], &src_bytes);
        println!("  step {k}: {} -> {} (model demands {:?}; model mode now {:?})", names[k - 1], run.res[k - 1].show(), run.classes[k - 1], run.model.mode);
        check_last(&run, &hist[..k], &names[..k], &srcs, &src_bytes, st, 0);
    }
}

pub fn run(args: &Args) -> i32 {
    let mut ctx = crate::new_ctx("C12", args);
    let seed = args.seed;
    if let Some(path) = &args.replay {
        return crate::props::replay_file(ctx, path, |c, st| replay(c, st, seed));
    }
    let thorough = args.tier.thorough();
    // one history takes microseconds: a case that runs for seconds is a call that does not return
    crate::util::set_hang_budget_secs(15);
    let srcs = sources(seed);
    let mut full = alphabet(false);
    if !thorough {
        // the per-change tier drops five operations that differ from a kept one only in a parameter value
        // (the thorough tier explores all of them)
        let drop = ["aligned-1", "add_directory-slash", "write-zip64-record", "start_file-zstd", "raw_copy-stored"];
        full.retain(|(n, _)| !drop.contains(n));
    }
    let bulk_extra = ["start_file-stored", "start_file-deflated", "write-xyz", "start_extra", "write-valid-record", "end_extra", "add_directory", "finish", "drop"];
    let bulk: Vec<(&'static str, Call)> = full.iter().filter(|(n, _)| n.starts_with("bulk-") || bulk_extra.contains(n)).cloned().collect();
    full.retain(|(n, _)| !n.starts_with("bulk-"));
    let core = alphabet(true);
    let (d_full, d_core) = if thorough { (6, 9) } else { (5, 7) };
    ctx.rule = format!(
        "E-SEQ: breadth-first search over ALL call sequences up to depth {d_full} over the full {}-operation alphabet and up to depth {d_core} over a \
         {}-operation core alphabet, each transition executed on the real ZipWriter (state rebuilt by replaying the history) in lock step with the \
         reference model; states de-duplicated on fingerprint = (hook mode flags, inner kind, files.len, stats, sink bytes+position, model state). \
         Every step's result class is compared with the model (MustOk / MustErr / Unspecified); every successful finish() is verified through the crate \
         reader and the independent parser; drop is compared with finish from every state; stateright 0.31's breadth-first checker explores the same transition function over the core alphabet as a second engine (state counts must agree); additionally every extra-data header ID 0..=65535 singly (explicit and implicit end). distinct_nontrivial = distinct fingerprints.",
        full.len(),
        core.len()
    );
    ctx.assume("states with equal fingerprint have equal futures: the writer has no state besides the hooked fields, the sink, and compressor internals which are a function of (method, level, bytes written, flush points) — all reflected in model state and sink bytes");
    ctx.uncovered("call sequences deeper than the stated depths; random depth-200 sequences (sampling); ZipCrypto combined with extra-data/aligned starts (excluded by the property)");
    ctx.bound("alphabet_full", json!(full.iter().map(|x| x.0).collect::<Vec<_>>()));
    ctx.bound("alphabet_core", json!(core.iter().map(|x| x.0).collect::<Vec<_>>()));
    ctx.bound("depth_full", json!(d_full));
    ctx.bound("depth_core", json!(d_core));

    let cap = if thorough { 200_000_000 } else { 20_000_000 };
    let (r1, capped1) = search(&full, d_full, &srcs, &mut ctx.stats, cap, 1);
    crate::diag!("  [C12] full alphabet depth {d_full}: states {} transitions {} per level {:?} at {:.1}s", r1.states, r1.transitions, r1.per_level, ctx.elapsed());
    if capped1 {
        ctx.cap(format!("full-alphabet search stopped at {} states", r1.states));
    }
    let (r2, capped2) = search(&core, d_core, &srcs, &mut ctx.stats, cap, 2);
    crate::diag!("  [C12] core alphabet depth {d_core}: states {} transitions {} per level {:?} at {:.1}s", r2.states, r2.transitions, r2.per_level, ctx.elapsed());
    if capped2 {
        ctx.cap(format!("core-alphabet search stopped at {} states", r2.states));
    }
    {
        let d_bulk = if thorough { 5 } else { 4 };
        let (r7, c7) = search(&bulk, d_bulk, &srcs, &mut ctx.stats, cap, 7);
        crate::diag!("  [C12] bulk alphabet depth {d_bulk}: states {} transitions {} per level {:?} at {:.1}s", r7.states, r7.transitions, r7.per_level, ctx.elapsed());
        if c7 {
            ctx.cap("bulk-alphabet search stopped at the state cap".to_string());
        }
        ctx.bound("alphabet_bulk", json!({"ops": bulk.iter().map(|x| x.0).collect::<Vec<_>>(), "depth": d_bulk, "states_per_level": r7.per_level}));
    }
    // start from a non-initial state: the same searches on a writer re-opened with new_append on a finished archive
    // (two entries and a comment already present; the crate starts such a writer in its after-raw-copy mode)
    let (r5, r6) = {
        let base_idx = srcs.len() - 1;
        let (n, comment) = (srcs[base_idx].obs.entries.len(), srcs[base_idx].obs.comment.clone());
        set_base(Some((base_idx, n, comment)));
        let d_app_full = if thorough { 5 } else { 4 };
        let d_app_core = if thorough { 8 } else { 6 };
        let (r5, c5) = search(&full, d_app_full, &srcs, &mut ctx.stats, cap, 5);
        crate::diag!("  [C12] appended writer, full alphabet depth {d_app_full}: states {} transitions {} per level {:?} at {:.1}s", r5.states, r5.transitions, r5.per_level, ctx.elapsed());
        let (r6, c6) = search(&core, d_app_core, &srcs, &mut ctx.stats, cap, 6);
        crate::diag!("  [C12] appended writer, core alphabet depth {d_app_core}: states {} transitions {} per level {:?} at {:.1}s", r6.states, r6.transitions, r6.per_level, ctx.elapsed());
        set_base(None);
        if c5 || c6 {
            ctx.cap("appended-writer search stopped at the state cap".to_string());
        }
        ctx.bound("appended_writer_start", json!({"base": "2 entries (stored, deflated) + comment, opened with new_append", "depth_full": d_app_full, "depth_core": d_app_core,
            "states_per_level_full": r5.per_level, "states_per_level_core": r6.per_level}));
        (r5, r6)
    };
    // every extra-data header ID, singly, through an explicit and an implicit end ("reserved ... extra data returns an error")
    {
        let src_bytes: Vec<Vec<u8>> = srcs.iter().map(|s| s.bytes.clone()).collect();
        let srcs_r = &srcs;
        let s = par_for(65536 * 2, 256, |t, st| {
            let id = (t / 2) as u16;
            let explicit = t % 2 == 0;
            let mut hist = vec![Call::StartExtra { name: "x".into(), opts: FOpts::m(8) }, Call::Write(rec(id, b"v"))];
            let mut names = vec!["start_extra", "write-record"];
            if explicit {
                hist.push(Call::EndExtra);
                names.push("end_extra");
            }
            hist.push(Call::Write(b"xyz".to_vec()));
            names.push("write-xyz");
            hist.push(Call::Finish);
            names.push("finish");
            // the first two steps are covered by the search; judge from the call that ends the extra data on
            for k in 3..=hist.len() {
                let run = execute(&hist[..k], &src_bytes);
                st.evals += 1;
                check_last(&run, &hist[..k], &names[..k], srcs_r, &src_bytes, st, (4 << 56) | t << 4 | k as u64);
            }
        });
        ctx.stats.merge(s);
        ctx.bound("header_ids_singly", json!("all 65536 header IDs x {explicit end, implicit end by the next write/finish}"));
    }
    ctx.bound("states_per_level_full", json!(r1.per_level));
    ctx.bound("states_per_level_core", json!(r2.per_level));
    ctx.stats.states = r1.states + r2.states + r5.states + r6.states;
    ctx.stats.transitions = r1.transitions + r2.transitions + r5.transitions + r6.transitions;
    ctx.stats.traces = ctx.stats.transitions;
    ctx.distinct_counted = r1.states + r2.states + r5.states + r6.states;
    ctx.stats.sample(json!({"ops": ["start_extra", "write-valid-record", "end_local_start_central", "write-valid-record", "end_extra", "write-xyz", "finish"]}));

    // second engine: stateright's BFS over the same transition function must find the same number of distinct states
    {
        let d = if thorough { 6 } else { 5 };
        let src_bytes: Vec<Vec<u8>> = srcs.iter().map(|s| s.bytes.clone()).collect();
        let t0 = std::time::Instant::now();
        let (uniq, gen, maxd, disc) = sr::explore(core.clone(), src_bytes, d);
        let ours: u64 = r2.per_level.iter().take(d + 1).sum();
        ctx.bound("stateright_cross_check", json!({"alphabet": "core", "depth": d, "stateright_unique_states": uniq, "stateright_states_generated": gen, "stateright_max_depth": maxd, "primary_engine_states_to_that_depth": ours, "seconds": (t0.elapsed().as_secs_f64() * 10.0).round() / 10.0}));
        crate::diag!("  [C12] stateright cross-check depth {d}: {uniq} unique states (primary engine {ours}), {gen} generated, at {:.1}s", ctx.elapsed());
        if uniq != ours {
            ctx.machinery(format!("engines disagree: stateright finds {uniq} distinct states to depth {d}, the primary search {ours}"));
        }
        if let Some(h) = disc {
            // the primary engine judges the same step; a discovery it did not report would be an engine bug
            let names: Vec<&str> = h.iter().map(|&i| core[i as usize].0).collect();
            if ctx.stats.viols.is_empty() {
                ctx.machinery(format!("stateright reports a step that contradicts the model after {names:?}, the primary engine does not"));
            }
        }
    }
    // determinism: the same search twice with a different thread count must give the same totals
    if thorough {
        std::env::set_var("ZIPMC_THREADS", "5");
        let mut s2 = Stats::default();
        let (r3, _) = search(&core, d_core.min(6), &srcs, &mut s2, cap, 3);
        std::env::remove_var("ZIPMC_THREADS");
        let mut s3 = Stats::default();
        let (r4, _) = search(&core, d_core.min(6), &srcs, &mut s3, cap, 3);
        if r3.states != r4.states || r3.transitions != r4.transitions {
            ctx.machinery(format!("search is not deterministic: {} / {} states, {} / {} transitions", r3.states, r4.states, r3.transitions, r4.transitions));
        }
        ctx.determinism_reruns += 1;
    } else {
        let mut s2 = Stats::default();
        let (r3, _) = search(&core, 4, &srcs, &mut s2, cap, 3);
        let mut s3 = Stats::default();
        let (r4, _) = search(&core, 4, &srcs, &mut s3, cap, 3);
        if r3.states != r4.states || r3.transitions != r4.transitions {
            ctx.machinery(format!("search is not deterministic: {} / {} states", r3.states, r4.states));
        }
        ctx.determinism_reruns += 1;
    }
    ctx.finish()
}

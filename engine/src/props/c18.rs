//! C18 — timestamps convert to and from DOS format without loss or panic.
//! E-PROD over the full 2^32 domain of (date word, time word), the constructor's argument
//! ranges, and every calendar day 1979..2108.

use crate::reference::dostime::{self, Fields};
use crate::util::{guard, panic_site, par_for, Stats};
use crate::Args;
use serde_json::{json, Value};
use zip::DateTime;

fn fields_of(dt: &DateTime) -> Fields {
    Fields { year: dt.year(), month: dt.month(), day: dt.day(), hour: dt.hour(), minute: dt.minute(), second: dt.second() }
}

/// pack/unpack inverse + accessor agreement for one pair
fn check_pair(d: u16, t: u16, st: &mut Stats) {
    let dt = DateTime::from_msdos(d, t);
    let (d2, t2) = (dt.datepart(), dt.timepart());
    if d2 != d || t2 != t {
        st.viol(
            "roundtrip/from_msdos-datepart-timepart",
            format!("from_msdos({d:#06x},{t:#06x}) repacks to ({d2:#06x},{t2:#06x})"),
            json!({"kind":"msdos","date":d,"time":t}),
            ((d as u64) << 16) | t as u64,
        );
    }
    let f = fields_of(&dt);
    let r = dostime::unpack(d, t);
    if f != r {
        st.viol(
            "accessors/fields-differ-from-bitfields",
            format!("from_msdos({d:#06x},{t:#06x}) accessors {f:?}, bit fields {r:?}"),
            json!({"kind":"msdos","date":d,"time":t}),
            ((d as u64) << 16) | t as u64,
        );
    }
}

/// to_time on one pair: never panics; Ok only for a valid calendar stamp and then equal fields
fn check_to_time(d: u16, t: u16, st: &mut Stats) {
    let dt = DateTime::from_msdos(d, t);
    let r = dostime::unpack(d, t);
    let case = json!({"kind":"to_time","date":d,"time":t});
    let order = ((d as u64) << 16) | t as u64;
    let res = guard(|| dt.to_time());
    let valid = dostime::valid_date(r.year, r.month, r.day) && r.hour <= 23 && r.minute <= 59 && r.second <= 59;
    match res {
        Err(p) => st.viol(format!("to_time/panic/{}", panic_site(&p)), format!("to_time() on {r:?} panicked: {p}"), case, order),
        Ok(Ok(odt)) => {
            st.count("to_time_ok", 1);
            if !valid {
                st.viol("to_time/ok-for-impossible-stamp", format!("to_time() returned Ok for {r:?}"), case, order);
            } else {
                let got = (
                    odt.year() as i64,
                    u8::from(odt.month()),
                    odt.day(),
                    odt.hour(),
                    odt.minute(),
                    odt.second(),
                    odt.offset().whole_seconds(),
                    odt.nanosecond(),
                );
                let want = (r.year as i64, r.month, r.day, r.hour, r.minute, r.second, 0, 0);
                if got != want {
                    st.viol("to_time/fields-differ", format!("to_time() of {r:?} gave {got:?}"), case.clone(), order);
                }
                // inverse direction
                match guard(|| DateTime::try_from(odt)) {
                    Err(p) => st.viol(format!("try_from/panic/{}", panic_site(&p)), format!("try_from({odt}) panicked: {p}"), case, order),
                    Ok(Err(_)) => st.viol("try_from/err-on-valid", format!("try_from(to_time({r:?})) is Err"), case, order),
                    Ok(Ok(back)) => {
                        if fields_of(&back) != r {
                            st.viol("try_from/not-inverse", format!("try_from(to_time({r:?})) = {:?}", fields_of(&back)), case, order);
                        }
                    }
                }
            }
        }
        Ok(Err(_)) => {
            st.count("to_time_err", 1);
            // second 60..62 may be refused; otherwise a valid stamp must convert
            if valid {
                st.viol("to_time/err-on-valid", format!("to_time() refused valid stamp {r:?}"), case, order);
            }
        }
    }
}

fn check_ctor(y: u16, mo: u8, d: u8, h: u8, mi: u8, s: u8, st: &mut Stats) {
    st.evals += 1;
    let want_ok = (1980..=2107).contains(&y) && (1..=12).contains(&mo) && (1..=31).contains(&d) && h <= 23 && mi <= 59 && s <= 60;
    let case = json!({"kind":"ctor","args":[y,mo,d,h,mi,s]});
    let order = 1 << 40;
    match guard(|| DateTime::from_date_and_time(y, mo, d, h, mi, s)) {
        Err(p) => st.viol(format!("ctor/panic/{}", panic_site(&p)), format!("from_date_and_time{:?} panicked: {p}", (y, mo, d, h, mi, s)), case, order),
        Ok(Ok(dt)) => {
            st.class("ctor-accept");
            if !want_ok {
                st.viol("ctor/accepts-out-of-range", format!("from_date_and_time{:?} accepted", (y, mo, d, h, mi, s)), case, order);
                return;
            }
            let f = fields_of(&dt);
            if f != (Fields { year: y, month: mo, day: d, hour: h, minute: mi, second: s }) {
                st.viol("ctor/fields-changed", format!("constructed {:?} reads back {f:?}", (y, mo, d, h, mi, s)), case, order);
                return;
            }
            // pack, unpack: same fields with the second rounded down to even (60 -> 60)
            let packed = guard(|| (dt.datepart(), dt.timepart()));
            match packed {
                Err(p) => st.viol(format!("ctor/pack-panic/{}", panic_site(&p)), format!("packing {f:?} panicked: {p}"), case, order),
                Ok((dp, tp)) => {
                    let back = fields_of(&DateTime::from_msdos(dp, tp));
                    let want = Fields { second: s & !1, ..f };
                    if back != want {
                        st.viol("ctor/pack-unpack-lossy", format!("{f:?} packs to ({dp:#06x},{tp:#06x}) which unpacks to {back:?}"), case, order);
                    }
                    st.distinct_hash(((dp as u64) << 16) | tp as u64);
                }
            }
        }
        Ok(Err(())) => {
            st.class("ctor-reject");
            if want_ok {
                st.viol("ctor/rejects-in-range", format!("from_date_and_time{:?} rejected", (y, mo, d, h, mi, s)), case, order);
            }
        }
    }
}

fn check_calendar_day(days: i64, secs: i64, st: &mut Stats) {
    st.evals += 1;
    let ts = days * 86400 + secs;
    let case = json!({"kind":"calendar","unix":ts});
    let odt = match time::OffsetDateTime::from_unix_timestamp(ts) {
        Ok(o) => o,
        Err(_) => return,
    };
    let y = odt.year();
    let want_ok = (1980..=2107).contains(&y);
    match guard(|| DateTime::try_from(odt)) {
        Err(p) => st.viol(format!("try_from/panic/{}", panic_site(&p)), format!("try_from({odt}) panicked: {p}"), case, 1 << 41),
        Ok(Ok(dt)) => {
            st.class("calendar-accept");
            if !want_ok {
                st.viol("try_from/accepts-out-of-range", format!("try_from({odt}) accepted"), case, 1 << 41);
                return;
            }
            match guard(|| dt.to_time()) {
                Err(p) => st.viol(format!("to_time/panic/{}", panic_site(&p)), format!("to_time after try_from({odt}) panicked: {p}"), case, 1 << 41),
                Ok(Ok(back)) => {
                    if back != odt {
                        st.viol("calendar/not-inverse", format!("to_time(try_from({odt})) = {back}"), case, 1 << 41);
                    }
                }
                Ok(Err(e)) => st.viol("calendar/to_time-err", format!("to_time(try_from({odt})) = Err({e})"), case, 1 << 41),
            }
        }
        Ok(Err(_)) => {
            st.class("calendar-reject");
            if want_ok {
                st.viol("try_from/rejects-in-range", format!("try_from({odt}) rejected"), case, 1 << 41);
            }
        }
    }
}

/// try_from on an OffsetDateTime with a non-UTC offset. The statement does not say which wall clock is taken, so
/// either the local or the UTC fields are accepted; what must hold: no panic anywhere, an accepted value lies in
/// the documented ranges, packs without panic, converts back, and the conversions are inverse on it.
fn check_offset_instant(ts: i64, offset_secs: i32, st: &mut Stats) {
    st.evals += 1;
    let case = json!({"kind":"offset","unix":ts,"offset":offset_secs});
    let order = 1 << 42;
    let (Ok(utc), Ok(off)) = (time::OffsetDateTime::from_unix_timestamp(ts), time::UtcOffset::from_whole_seconds(offset_secs)) else { return };
    let odt = utc.to_offset(off);
    let r = guard(|| DateTime::try_from(odt));
    let dt = match r {
        Err(p) => {
            st.viol(format!("try_from/panic/{}", panic_site(&p)), format!("try_from({odt}) panicked: {p}"), case, order);
            return;
        }
        Ok(Err(_)) => {
            st.class("offset-reject");
            // both readings out of range is the only reason to refuse
            if (1980..=2107).contains(&odt.year()) && (1980..=2107).contains(&utc.year()) {
                st.viol("try_from/rejects-in-range", format!("try_from({odt}) rejected"), case, order);
            }
            return;
        }
        Ok(Ok(dt)) => dt,
    };
    st.class("offset-accept");
    let f = fields_of(&dt);
    if !(1980..=2107).contains(&f.year) || !(1..=12).contains(&f.month) || !(1..=31).contains(&f.day) || f.hour > 23 || f.minute > 59 || f.second > 60 {
        st.viol("try_from/out-of-range-fields", format!("try_from({odt}) produced {f:?}, outside the documented ranges"), case, order);
        return;
    }
    let local = (odt.year() as i64, u8::from(odt.month()), odt.day(), odt.hour(), odt.minute(), odt.second());
    let u = (utc.year() as i64, u8::from(utc.month()), utc.day(), utc.hour(), utc.minute(), utc.second());
    let got = (f.year as i64, f.month, f.day, f.hour, f.minute, f.second);
    if got != local && got != u {
        st.viol("try_from/fields-of-neither-wall-clock", format!("try_from({odt}) produced {f:?}"), case.clone(), order);
    }
    match guard(|| (dt.datepart(), dt.timepart())) {
        Err(p) => {
            st.viol(format!("pack/panic/{}", panic_site(&p)), format!("packing try_from({odt}) = {f:?} panicked: {p}"), case, order);
            return;
        }
        Ok((d, t)) => {
            let back = fields_of(&DateTime::from_msdos(d, t));
            if back != (Fields { second: f.second & !1, ..f }) {
                st.viol("offset/pack-unpack-lossy", format!("{f:?} packs to ({d:#06x},{t:#06x}) -> {back:?}"), case.clone(), order);
            }
        }
    }
    match guard(|| dt.to_time()) {
        Err(p) => st.viol(format!("to_time/panic/{}", panic_site(&p)), format!("to_time after try_from({odt}) panicked: {p}"), case, order),
        Ok(Err(e)) => st.viol("offset/to_time-err", format!("to_time(try_from({odt})) = Err({e})"), case, order),
        Ok(Ok(back)) => match guard(|| DateTime::try_from(back)) {
            Ok(Ok(again)) if fields_of(&again) == f => {}
            other => st.viol("offset/not-inverse", format!("try_from(to_time({f:?})) = {:?}", other.map(|r| r.map(|d| fields_of(&d)).ok())), case, order),
        },
    }
}

/// Archive re-write of a block of (date, time) words: a foreign archive carrying the words is read by the crate,
/// and every timestamp is re-written three ways (start_file with the value read, raw copy, append nothing);
/// the words in the produced bytes (independent parser) and as re-read by the crate must be unchanged.
fn check_rewrite(words: &[(u16, u16)], st: &mut Stats) {
    use crate::reference::zipbuild::{build, ESpec, Spec};
    use crate::reference::zipparse::{self, Opts};
    use std::io::{Cursor, Write};
    let order = ((words[0].0 as u64) << 16) | words[0].1 as u64;
    let case = || json!({"kind":"rewrite","words": words.iter().map(|w| json!([w.0, w.1])).collect::<Vec<_>>()});
    // every third entry also carries an Info-ZIP "UT" block, every third an NTFS block, with instants that differ from the
    // DOS words: the words in the header are what the property speaks about
    let ut = {
        let mut v = vec![0x55u8, 0x54, 5, 0, 1];
        v.extend_from_slice(&1_234_567_891u32.to_le_bytes());
        v
    };
    let ntfs = {
        let mut v = vec![0x0au8, 0x00, 32, 0, 0, 0, 0, 0, 1, 0, 24, 0];
        for _ in 0..3 {
            v.extend_from_slice(&131_000_000_000_000_001u64.to_le_bytes());
        }
        v
    };
    let extra_of = |i: usize| match i % 3 {
        1 => ut.clone(),
        2 => ntfs.clone(),
        _ => vec![],
    };
    let spec = Spec {
        // (and the entries come from different hosts: Unix with a mode, Unix without attributes, MS-DOS, NTFS, Darwin - what
        // else the central record says about an entry has no bearing on its timestamp)
        entries: words
            .iter()
            .enumerate()
            .map(|(i, w)| {
                let (made_by, ext_attr) = [((3u16 << 8) | 20, 0o100644u32 << 16), ((3 << 8) | 20, 0), (20, 0x20), (20, 0), ((10 << 8) | 45, 0x20), ((19 << 8) | 30, 0o100600 << 16)][i % 6];
                ESpec { name: format!("t{i}").into_bytes(), content: b"x".to_vec(), date: w.0, time: w.1, local_extra: extra_of(i), central_extra: extra_of(i), made_by, ext_attr, ..Default::default() }
            })
            .collect(),
        ..Default::default()
    };
    let src = build(&spec).0;
    st.evals += words.len() as u64;
    let r = guard(|| -> Result<Vec<(&'static str, Vec<u8>)>, String> {
        let mut ar = zip::ZipArchive::new(Cursor::new(&src[..])).map_err(|e| format!("open: {e}"))?;
        let mut a = zip::ZipWriter::new(Cursor::new(vec![]));
        let mut b = zip::ZipWriter::new(Cursor::new(vec![]));
        for i in 0..ar.len() {
            let lm = {
                let f = ar.by_index(i).map_err(|e| format!("by_index: {e}"))?;
                let lm = f.last_modified();
                if (lm.datepart(), lm.timepart()) != words[i] {
                    return Err(format!("entry {i}: last_modified() reports ({:#06x},{:#06x}) for stored words ({:#06x},{:#06x})", lm.datepart(), lm.timepart(), words[i].0, words[i].1));
                }
                lm
            };
            a.start_file(format!("t{i}"), zip::write::FileOptions::default().compression_method(zip::CompressionMethod::Stored).last_modified_time(lm)).map_err(|e| format!("start_file: {e}"))?;
            a.write_all(b"x").map_err(|e| e.to_string())?;
            let f = ar.by_index_raw(i).map_err(|e| format!("by_index_raw: {e}"))?;
            b.raw_copy_file(f).map_err(|e| format!("raw_copy_file: {e}"))?;
        }
        // the same stamps on password-protected entries (the password is the LAST option set, as a caller chaining the
        // builder calls would), and what the streaming reader reports for the source's local headers
        let mut d = zip::ZipWriter::new(Cursor::new(vec![]));
        for i in 0..ar.len() {
            let lm = ar.by_index_raw(i).map_err(|e| format!("by_index_raw: {e}"))?.last_modified();
            use zip::unstable::write::FileOptionsExt;
            d.start_file(format!("t{i}"), zip::write::FileOptions::default().compression_method(zip::CompressionMethod::Stored).last_modified_time(lm).with_deprecated_encryption(b"pw")).map_err(|e| format!("start_file(+password): {e}"))?;
            d.write_all(b"x").map_err(|e| e.to_string())?;
        }
        let d = d.finish().map_err(|e| format!("finish: {e}"))?.into_inner();
        {
            let mut cur = Cursor::new(&src[..]);
            let mut i = 0usize;
            while let Some(f) = zip::read::read_zipfile_from_stream(&mut cur).map_err(|e| format!("streaming reader: {e}"))? {
                let lm = f.last_modified();
                if i < words.len() && (lm.datepart(), lm.timepart()) != words[i] {
                    return Err(format!("entry {i}: the streaming reader reports ({:#06x},{:#06x}) for stored words ({:#06x},{:#06x})", lm.datepart(), lm.timepart(), words[i].0, words[i].1));
                }
                i += 1;
            }
        }
        let a = a.finish().map_err(|e| format!("finish: {e}"))?.into_inner();
        let b = b.finish().map_err(|e| format!("finish: {e}"))?.into_inner();
        let mut c = zip::ZipWriter::new_append(Cursor::new(src.clone())).map_err(|e| format!("new_append: {e}"))?;
        let c = c.finish().map_err(|e| format!("finish after new_append: {e}"))?.into_inner();
        Ok(vec![("start_file(last_modified_time(read value))", a), ("raw_copy_file", b), ("new_append + finish", c), ("start_file(last_modified_time(read value) + password)", d)])
    });
    match r {
        Err(p) => st.viol(format!("rewrite/panic/{}", panic_site(&p)), format!("re-writing timestamps panicked: {p}"), case(), order),
        Ok(Err(e)) => st.viol("rewrite/failed", format!("re-writing timestamps read from an archive failed: {e}"), case(), order),
        Ok(Ok(outs)) => {
            for (route, bytes) in outs {
                match zipparse::parse(&bytes, &Opts::lenient()) {
                    Ok(p) if p.entries.len() == words.len() => {
                        for (i, e) in p.entries.iter().enumerate() {
                            // (for new_append the old local header stays where it is; for the other routes it is re-written too:
                            // both copies of the field must carry the words)
                            if (e.l_date, e.l_time) != words[i] {
                                st.viol(
                                    format!("rewrite/local-header-changed/{route}"),
                                    format!("timestamp words ({:#06x},{:#06x}) read from an archive: after {route} the entry's LOCAL header carries ({:#06x},{:#06x}) (central record: ({:#06x},{:#06x}))", words[i].0, words[i].1, e.l_date, e.l_time, e.date, e.time),
                                    json!({"kind":"rewrite","words":[[words[i].0, words[i].1]]}),
                                    ((words[i].0 as u64) << 16) | words[i].1 as u64,
                                );
                                break;
                            }
                            if (e.date, e.time) != words[i] {
                                st.viol(
                                    format!("rewrite/changed/{route}"),
                                    format!("timestamp words ({:#06x},{:#06x}) read from an archive were re-written by {route} as ({:#06x},{:#06x})", words[i].0, words[i].1, e.date, e.time),
                                    json!({"kind":"rewrite","words":[[words[i].0, words[i].1]]}),
                                    ((words[i].0 as u64) << 16) | words[i].1 as u64,
                                );
                                break;
                            }
                        }
                    }
                    Ok(p) => st.viol(format!("rewrite/entries/{route}"), format!("{route}: {} entries instead of {}", p.entries.len(), words.len()), case(), order),
                    Err(e) => st.viol(format!("rewrite/unparsable/{route}"), format!("{route}: independent parser rejects the result: {e}"), case(), order),
                }
                // and as the crate re-reads its own output
                if let Ok(Ok(mut ar)) = guard(|| zip::ZipArchive::new(Cursor::new(&bytes[..]))) {
                    for i in 0..ar.len().min(words.len()) {
                        if let Ok(f) = ar.by_index_raw(i) {
                            let lm = f.last_modified();
                            if (lm.datepart(), lm.timepart()) != words[i] {
                                st.viol(
                                    format!("rewrite/reread/{route}"),
                                    format!("timestamp words ({:#06x},{:#06x}) re-written by {route} are re-read as ({:#06x},{:#06x})", words[i].0, words[i].1, lm.datepart(), lm.timepart()),
                                    json!({"kind":"rewrite","words":[[words[i].0, words[i].1]]}),
                                    ((words[i].0 as u64) << 16) | words[i].1 as u64,
                                );
                                break;
                            }
                        }
                    }
                }
                st.count("rewrite_words_checked", words.len() as u64);
            }
        }
    }
}

fn replay(case: &Value, st: &mut Stats) {
    match case["kind"].as_str().unwrap_or("") {
        "msdos" => check_pair(case["date"].as_u64().unwrap() as u16, case["time"].as_u64().unwrap() as u16, st),
        "to_time" => check_to_time(case["date"].as_u64().unwrap() as u16, case["time"].as_u64().unwrap() as u16, st),
        "ctor" => {
            let a: Vec<u64> = case["args"].as_array().unwrap().iter().map(|x| x.as_u64().unwrap()).collect();
            check_ctor(a[0] as u16, a[1] as u8, a[2] as u8, a[3] as u8, a[4] as u8, a[5] as u8, st)
        }
        "rewrite" => {
            let w: Vec<(u16, u16)> = case["words"].as_array().map(|a| a.iter().map(|x| (x[0].as_u64().unwrap_or(0) as u16, x[1].as_u64().unwrap_or(0) as u16)).collect()).unwrap_or_default();
            if !w.is_empty() {
                check_rewrite(&w, st)
            }
        }
        "offset" => check_offset_instant(case["unix"].as_i64().unwrap_or(0), case["offset"].as_i64().unwrap_or(0) as i32, st),
        "calendar" => {
            let ts = case["unix"].as_i64().unwrap();
            check_calendar_day(ts.div_euclid(86400), ts.rem_euclid(86400), st)
        }
        k => crate::diag!("unknown case kind {k}"),
    }
}

pub fn run(args: &Args) -> i32 {
    let mut ctx = crate::new_ctx("C18", args);
    if let Some(path) = &args.replay {
        return crate::props::replay_file(ctx, path, replay);
    }
    let thorough = args.tier.thorough();
    ctx.rule = "E-PROD: every (date word, time word) pair of the 2^32 domain is visited once by a mixed-radix counter \
        (pack/unpack inverse + accessor agreement); to_time()/try_from on the listed sub-domain; constructor: each argument \
        over its whole type range + the 8^6 boundary-neighbour product; every calendar day 1979..2108 x 5 times; \
        archive re-write: word pairs read from a foreign archive and re-written three ways must be unchanged in the bytes. \
        distinct_nontrivial = distinct packed (date,time) words produced by accepted constructor calls (hash set) \
        plus the number of distinct pairs for which a calendar conversion was classified (counter; pairs never repeat)."
        .into();
    ctx.bound("msdos_pairs", json!("all 2^32"));
    ctx.bound("to_time_pairs", json!(if thorough { "all 2^32" } else { "all 2^16 dates x 8 boundary times + 8 boundary dates x all 2^16 times" }));
    ctx.bound("calendar_days", json!("1979-01-01..=2108-12-31 x {00:00:00,00:00:01,12:34:56,23:59:58,23:59:59}"));
    ctx.uncovered("random joint constructor values (sampling) — replaced by the full boundary-neighbour product");

    // 1. the full 2^32 sweep (one item = one date word)
    let bt: [u16; 8] = [0, 1, 0x001d, 0x001e, 0x001f, 0xbf7d, 0xbfbf, 0xffff];
    let bd: [u16; 8] = [0, 0x0021, 0x005d, 0x0060, 0x5821, 0xff9f, 0xffbf, 0xffff];
    let s1 = par_for(65536, 64, |d, st| {
        let d = d as u16;
        for t in 0..=65535u16 {
            check_pair(d, t, st);
        }
        st.evals += 65536;
        if thorough || bd.contains(&d) {
            for t in 0..=65535u16 {
                check_to_time(d, t, st);
            }
            st.count("to_time_pairs", 65536);
        } else {
            for &t in &bt {
                check_to_time(d, t, st);
            }
            st.count("to_time_pairs", bt.len() as u64);
        }
        if d == 0x5821 {
            st.sample(json!({"kind":"msdos","date":d,"time":0x6000, "unpacked": format!("{:?}", dostime::unpack(d, 0x6000))}));
        }
    });
    let ok = s1.extra.get("to_time_ok").copied().unwrap_or(0);
    let er = s1.extra.get("to_time_err").copied().unwrap_or(0);
    ctx.stats.merge(s1);
    *ctx.stats.classes.entry("to_time-ok".into()).or_insert(0) += ok;
    *ctx.stats.classes.entry("to_time-err".into()).or_insert(0) += er;

    // 2. constructor: each argument over its full range, others at valid defaults
    let mut st = Stats::default();
    for y in 0..=65535u16 {
        check_ctor(y, 6, 15, 12, 30, 30, &mut st);
    }
    for v in 0..=255u8 {
        check_ctor(2000, v, 15, 12, 30, 30, &mut st);
        check_ctor(2000, 6, v, 12, 30, 30, &mut st);
        check_ctor(2000, 6, 15, v, 30, 30, &mut st);
        check_ctor(2000, 6, 15, 12, v, 30, &mut st);
        check_ctor(2000, 6, 15, 12, 30, v, &mut st);
    }
    st.sample(json!({"kind":"ctor","args":[2107,12,31,23,59,60]}));
    ctx.stats.merge(st);
    // boundary-neighbour product
    let ys: [u16; 8] = [1979, 1980, 1981, 2044, 2106, 2107, 2108, 65535];
    let mos: [u8; 8] = [0, 1, 2, 6, 11, 12, 13, 255];
    let ds: [u8; 8] = [0, 1, 2, 15, 30, 31, 32, 255];
    let hs: [u8; 8] = [0, 1, 12, 22, 23, 24, 25, 255];
    let mis: [u8; 8] = [0, 1, 30, 58, 59, 60, 61, 255];
    let ss: [u8; 8] = [0, 1, 30, 59, 60, 61, 62, 255];
    let s3 = par_for(8 * 8 * 8, 8, |i, st| {
        let (a, b, c) = ((i / 64) as usize, ((i / 8) % 8) as usize, (i % 8) as usize);
        for &h in &hs {
            for &mi in &mis {
                for &s in &ss {
                    check_ctor(ys[a], mos[b], ds[c], h, mi, s, st);
                }
            }
        }
    });
    ctx.stats.merge(s3);

    // 3. calendar days
    let d0 = dostime::days_from_civil(1979, 1, 1);
    let d1 = dostime::days_from_civil(2108, 12, 31);
    let secs = [0i64, 1, 12 * 3600 + 34 * 60 + 56, 86398, 86399];
    let s4 = par_for((d1 - d0 + 1) as u64, 256, |i, st| {
        for &s in &secs {
            check_calendar_day(d0 + i as i64, s, st);
        }
        if i == 400 {
            st.sample(json!({"kind":"calendar","unix":(d0 + i as i64) * 86400}));
        }
    });
    ctx.stats.merge(s4);
    // non-UTC offsets: every hour of the four days around each end of the range and of 6 ordinary days, x 9 offsets
    let offsets: [i32; 9] = [0, 3600, -3600, 19800, -16200, 50400, -43200, 1, -1];
    let mut hours: Vec<i64> = vec![];
    for (y, m, d) in [(1979i64, 12i64, 30i64), (2107, 12, 30), (2000, 2, 28), (2024, 2, 28), (2100, 2, 27), (1999, 12, 30), (2038, 1, 18), (2106, 2, 6)] {
        let base = dostime::days_from_civil(y, m, d) * 86400;
        for h in 0..96 {
            hours.push(base + h * 3600);
            hours.push(base + h * 3600 + 1799);
        }
    }
    let hours_r = &hours;
    let s5 = par_for(hours.len() as u64, 16, |i, st| {
        for &o in &offsets {
            check_offset_instant(hours_r[i as usize], o, st);
        }
        if i == 7 {
            st.sample(json!({"kind":"offset","unix":hours_r[i as usize],"offset":3600}));
        }
    });
    ctx.stats.merge(s5);
    ctx.bound("non_utc", json!("every hour (+ :29:59) of 4-day windows around 1980-01-01, 2107-12-31 and 6 other dates x offsets {0, +-1h, +5:30, -4:30, +14h, -12h, +-1s}"));

    // 4. archive re-write: every date word x boundary time words, boundary date words x every time word
    //    (thorough: 64 time words x every date word and 64 date words x every time word), 256 words per archive
    let (bts, bds): (Vec<u16>, Vec<u16>) = if thorough {
        ((0..64u32).map(|i| (i * 1040 + i) as u16).chain(bt.iter().copied()).collect(), (0..64u32).map(|i| (i * 1040 + 33) as u16).chain(bd.iter().copied()).collect())
    } else {
        (bt.to_vec(), bd.to_vec())
    };
    let mut words: Vec<(u16, u16)> = vec![];
    for d in 0..=65535u16 {
        for &t in &bts {
            words.push((d, t));
        }
    }
    for &d in &bds {
        for t in 0..=65535u16 {
            words.push((d, t));
        }
    }
    let blocks: Vec<&[(u16, u16)]> = words.chunks(256).collect();
    let blocks_r = &blocks;
    let s6 = par_for(blocks.len() as u64, 4, |i, st| check_rewrite(blocks_r[i as usize], st));
    ctx.stats.merge(s6);
    ctx.bound("archive_rewrite", json!(format!("{} (date,time) word pairs: every date word x {} time words + {} date words x every time word; each read from a foreign archive and re-written by start_file(last_modified_time), raw_copy_file and new_append", words.len(), bts.len(), bds.len())));
    crate::diag!("  [C18] archive re-write done at {:.1}s ({} words)", ctx.elapsed(), words.len());

    let pairs = ctx.stats.extra.get("to_time_pairs").copied().unwrap_or(0);
    ctx.stats.states = (1u64 << 32).max(pairs);
    ctx.stats.transitions = ctx.stats.evals + pairs;
    ctx.stats.traces = ctx.stats.evals + pairs;
    // distinct: accepted-constructor packed words (hash set) + classified calendar pairs (counted, never repeated)
    ctx.stats.count("distinct_ctor_packed_words", ctx.stats.distinct.len() as u64);
    ctx.distinct_counted = pairs;
    ctx.finish()
}

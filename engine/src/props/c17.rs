//! C17 — aligned entries are aligned; extra data lands where requested.
//! E-PROD: every alignment value x preceding archive states x large_file x method; and the
//! product of extra-data record lists x placement variants, plus every header ID singly.

use crate::reference::zipparse::{self, Opts, PEntry};
use crate::refmodel::extra::{verdict, Verdict};
use crate::util::{fnv, hex, panic_site, par_for, Stats};
use crate::zipapi::*;
use crate::Args;
use serde_json::{json, Value};

// ---------------------------------------------------------------------------------------------
// alignment

/// archives that are re-opened with new_append before the entry under test is started
fn append_base(label: &str) -> Option<Vec<u8>> {
    let small = |n: &str| vec![Call::StartFile { name: n.into(), opts: FOpts::m(0) }, Call::Write(b"0123456789".to_vec())];
    match label {
        // the old directory + end record (about 200 bytes) are longer than the new entry's header and padding
        "append:3-small-entries" => {
            let mut c = vec![Call::SetComment(b"old comment".to_vec())];
            c.extend(small("o1"));
            c.extend(small("o2"));
            c.extend(small("o3"));
            c.push(Call::Finish);
            Some(exec(&c, &[]).1)
        }
        "append:1-entry+2000-byte-comment" => {
            let mut c = vec![Call::SetComment(vec![b'k'; 2000])];
            c.extend(small("o1"));
            c.push(Call::Finish);
            Some(exec(&c, &[]).1)
        }
        _ => None,
    }
}

/// run the calls on a fresh writer, or on new_append over the prelude's base archive
fn run_calls(prelude: &str, calls: &[Call]) -> (Vec<Res>, Vec<u8>) {
    match append_base(prelude) {
        None => exec(calls, &[]),
        Some(b) => {
            let (mut res, bytes) = exec_append(&b, calls, &[]);
            let first = res.remove(0);
            if !first.is_ok() {
                // keep the shape: every call "fails" with the new_append error
                return (calls.iter().map(|_| first.clone()).collect(), bytes);
            }
            (res, bytes)
        }
    }
}

/// preceding states: (label, calls before the aligned entry)
fn preludes() -> Vec<(&'static str, Vec<Call>)> {
    let f = |n: usize| vec![Call::StartFile { name: "p".into(), opts: FOpts::m(0) }, Call::Write(vec![7u8; n])];
    vec![
        ("append:3-small-entries", vec![]),
        ("append:1-entry+2000-byte-comment", f(3)),
        // a preceding entry whose own extra data ended in the central-only phase (alignment padding is written that way)
        ("after-aligned-entry-that-padded", vec![Call::StartAligned { name: "pa".into(), opts: FOpts::m(0), align: 64 }, Call::Write(vec![5u8; 10])]),
        (
            "after-central-only-extra-entry",
            vec![Call::StartExtra { name: "pc".into(), opts: FOpts::m(8) }, Call::EndLocalStartCentral, Call::Write(crate::reference::zipbuild::extra_block(0xc0de, b"c")), Call::EndExtra, Call::Write(vec![6u8; 10])],
        ),("empty", vec![]), ("1-byte-entry", f(1)), ("30-byte-entry", f(30)), ("31-byte-entry", f(31)), ("4095-byte-entry", f(4095)), ("65500-byte-entry", f(65_500)), ("200000-byte-entry", f(200_000)), ("deflated-entry+dir", vec![Call::StartFile { name: "q".into(), opts: FOpts::m(8) }, Call::Write(vec![9u8; 500]), Call::AddDir { name: "d".into(), opts: FOpts::m(0) }])]
}

fn check_align(align: u16, prelude: &(&'static str, Vec<Call>), name_len: usize, large: bool, method: u16, st: &mut Stats, order: u64) {
    st.evals += 1;
    // a quarter of the alignments get an entry without any content (nothing to read, but still a place where its data would begin)
    let content = if align % 8 == 1 || align % 8 == 6 { vec![] } else { b"aligned payload bytes 0123456789".to_vec() };
    let name = "n".repeat(name_len.max(1));
    let mut calls = prelude.1.clone();
    let at = calls.len();
    calls.push(Call::StartAligned { name: name.clone(), opts: FOpts { large, ..FOpts::m(method) }, align });
    calls.push(Call::Write(content.clone()));
    calls.push(Call::Finish);
    let case = || json!({"kind": "align", "align": align, "prelude": prelude.0, "name_len": name_len, "large": large, "method": method});
    let (res, bytes) = run_calls(prelude.0, &calls);
    if let Some((c, r)) = calls.iter().zip(&res).find(|(_, r)| r.is_panic()) {
        st.class("PANIC");
        st.viol(format!("align/panic/{}/{}", c.opname(), panic_site(&r.show())), format!("align {align} after {} (name {name_len} bytes, large {large}): {} panicked: {}", prelude.0, c.opname(), r.show()), case(), order);
        return;
    }
    // the same program into a sink that accepts only a few bytes per write call (legal for io::Write): every clause below
    // must hold there too, which is implied by the produced archive being byte-identical
    if !prelude.0.starts_with("append:") && (matches!(prelude.0, "empty" | "30-byte-entry") || align % 64 == 5) {
        for chunk in if prelude.1.iter().any(|c| matches!(c, Call::Write(d) if d.len() > 10_000)) { vec![4096usize] } else { vec![7usize, 4096] } {
            let (res2, bytes2) = exec_chunked(&calls, &[], chunk, 0);
            st.evals += 1;
            if res2 != res || bytes2 != bytes {
                st.class("SHORT-WRITES-CHANGE-ALIGNED-ARCHIVE");
                let what = match res2.iter().zip(&res).position(|(a, b)| a != b) {
                    Some(i) => format!("call {} ({}) gives {} instead of {}", i, calls[i].opname(), res2[i].show(), res[i].show()),
                    None => format!("archive bytes differ ({} vs {} bytes)", bytes2.len(), bytes.len()),
                };
                st.viol("align/short-writes-change-archive", format!("align {align} after {} (name {name_len} bytes, large {large}, method {method}), sink accepting {chunk} bytes per write: {what}", prelude.0), json!({"kind": "align", "align": align, "prelude": prelude.0, "name_len": name_len, "large": large, "method": method, "sink_chunk": chunk}), order);
                return;
            }
        }
    }
    match &res[at] {
        Res::Err(_) => {
            st.class(if align <= 4096 { "refused-small-align" } else { "refused" });
            return;
        }
        Res::Ok(pad) => {
            st.count("aligned_ok", 1);
            if align <= 4096 {
                st.count("aligned_ok_le_4096", 1);
            }
            if !res.iter().all(|r| r.is_ok()) {
                st.viol("align/later-call-failed", format!("align {align}: start_file_aligned succeeded but {:?} failed", res.iter().position(|r| !r.is_ok())), case(), order);
                return;
            }
            let parsed = match zipparse::validate(&bytes, &Opts::strict()) {
                Ok(p) => p,
                Err(e) => {
                    st.viol(format!("align/invalid-archive/{}", e.clause), format!("align {align} after {} (large {large}): {e}", prelude.0), case(), order);
                    return;
                }
            };
            let e = match parsed.entries.iter().find(|e| e.name == name.as_bytes()) {
                Some(e) => e,
                None => {
                    st.viol("align/entry-missing", format!("align {align}: the aligned entry is not in the archive"), case(), order);
                    return;
                }
            };
            let mut ok = true;
            if align > 1 && e.data_pos % align as u64 != 0 {
                ok = false;
                st.viol(
                    "align/data-not-aligned",
                    format!("align {align} after {} (name {name_len} bytes, large {large}, method {method}): data begins at offset {} = {} mod {align}", prelude.0, e.data_pos, e.data_pos % align as u64),
                    case(),
                    order,
                );
            }
            // the padding record, if any, is 0x617a with the stated length
            let tl = PEntry::tlv(&e.l_extra).unwrap_or_default();
            let pads: Vec<&(u16, Vec<u8>)> = tl.iter().filter(|(id, _)| *id != 1).collect();
            let extra_len: u64 = pads.iter().map(|(_, b)| 4 + b.len() as u64).sum();
            // (documented, but not part of the property's statement: counted, not judged)
            if extra_len != *pad {
                st.count("note_returned_padding_differs_from_record_length", 1);
            }
            if pads.iter().any(|(id, b)| *id != 0x617a || b.iter().any(|x| *x != 0)) {
                st.count("note_padding_record_not_0x617a_zero_filled", 1);
            }
            // reader
            match observe(&bytes, None, 1 << 20) {
                Ok(o) => {
                    let g = o.entries.iter().find(|g| g.name == name);
                    match g {
                        Some(g) => {
                            if g.data_start != e.data_pos {
                                ok = false;
                                st.viol("align/reader-data_start", format!("align {align}: data_start() {} but the data is at {}", g.data_start, e.data_pos), case(), order);
                            }
                            if g.content.as_ref().ok() != Some(&content) {
                                ok = false;
                                st.viol("align/content", format!("align {align}: content does not round-trip: {:?}", g.content.as_ref().map(|c| c.len())), case(), order);
                            }
                        }
                        None => {
                            ok = false;
                            st.viol("align/reader-missing", format!("align {align}: reader does not list the entry"), case(), order)
                        }
                    }
                }
                Err(e) => {
                    ok = false;
                    st.viol("align/unreadable", format!("align {align}: {e:?}"), case(), order)
                }
            }
            st.class(if !ok {
                "ALIGN-MISMATCH"
            } else if *pad == 0 {
                "aligned-without-padding"
            } else {
                "aligned-with-padding"
            });
            st.distinct_hash(fnv(&[&align.to_le_bytes()[..], prelude.0.as_bytes(), &[name_len as u8, large as u8, method as u8]].concat()));
        }
        Res::Panic(_) => unreachable!(),
    }
}

// ---------------------------------------------------------------------------------------------
// extra data

fn record(id: u16, size: usize, tail: u8) -> Vec<u8> {
    // tail: 0 none; 1..=3 stray bytes after; 4 = size field claims more than present
    let mut v = vec![];
    v.extend_from_slice(&id.to_le_bytes());
    let claimed = if tail == 4 { size + 3 } else { size };
    v.extend_from_slice(&(claimed as u16).to_le_bytes());
    v.extend(std::iter::repeat(0xabu8).take(size));
    if (1..=3).contains(&tail) {
        v.extend(std::iter::repeat(0xcdu8).take(tail as usize));
    }
    v
}

/// variant: 0 shared, 1 local-only, 2 central-only, 3 different local and central
fn check_extra(local: &[u8], central: &[u8], variant: u8, large: bool, st: &mut Stats, order: u64, what: &str) {
    check_extra_in(local, central, variant, large, st, order, what, "")
}

/// `prelude`: "" for a fresh writer, or the label of an append base (the entry is started after new_append)
fn check_extra_in(local: &[u8], central: &[u8], variant: u8, large: bool, st: &mut Stats, order: u64, what: &str, prelude: &str) {
    st.evals += 1;
    let content = b"extra data entry".to_vec();
    let mut calls = match preludes().into_iter().find(|p| p.0 == prelude && !p.0.starts_with("append:")) {
        Some(p) => p.1,
        None => vec![Call::StartFile { name: "before".into(), opts: FOpts::m(0) }, Call::Write(b"b".to_vec())],
    };
    calls.push(Call::StartExtra { name: "x".into(), opts: FOpts { large, ..FOpts::m(8) } });
    let (want_local, want_central): (Vec<u8>, Vec<u8>) = match variant {
        0 => {
            calls.push(Call::Write(local.to_vec()));
            calls.push(Call::EndExtra);
            (local.to_vec(), local.to_vec())
        }
        1 => {
            calls.push(Call::Write(local.to_vec()));
            calls.push(Call::EndLocalStartCentral);
            calls.push(Call::EndExtra);
            (local.to_vec(), vec![])
        }
        2 => {
            calls.push(Call::EndLocalStartCentral);
            calls.push(Call::Write(central.to_vec()));
            calls.push(Call::EndExtra);
            (vec![], central.to_vec())
        }
        _ => {
            calls.push(Call::Write(local.to_vec()));
            calls.push(Call::EndLocalStartCentral);
            calls.push(Call::Write(central.to_vec()));
            calls.push(Call::EndExtra);
            (local.to_vec(), central.to_vec())
        }
    };
    calls.push(Call::Write(content.clone()));
    calls.push(Call::Finish);
    let case = || json!({"kind": "extra", "local": hex(local), "central": hex(central), "variant": variant, "large": large, "prelude": prelude});
    let (res, bytes) = run_calls(prelude, &calls);
    if let Some((c, r)) = calls.iter().zip(&res).find(|(_, r)| r.is_panic()) {
        st.class("PANIC");
        st.viol(format!("extra/panic/{}/{}", c.opname(), panic_site(&r.show())), format!("{what}: {} panicked: {}", c.opname(), r.show()), case(), order);
        return;
    }
    // verdicts: the local part shares the 16-bit length with the 20-byte ZIP64 block of a large file
    let vl = verdict(&want_local, if large { 20 } else { 0 });
    let mut vc = verdict(&want_central, 0);
    // a large_file entry may need up to 28 bytes of ZIP64 block in its central record: a writer that reserves
    // them and refuses a central part that only fits without is within "a request that cannot be honoured"
    if large && vc == Verdict::Accept && want_central.len() + 28 > 65535 {
        vc = Verdict::Either;
    }
    // for the shared variant the same bytes go to both places
    let must_reject = vl == Verdict::Reject || vc == Verdict::Reject;
    let must_accept = vl == Verdict::Accept && vc == Verdict::Accept;
    if !must_reject && !must_accept {
        st.count("either_verdict_cases", 1);
    }
    let accepted = res.iter().all(|r| r.is_ok());
    let vname = ["shared", "local-only", "central-only", "local+central"][variant as usize];
    if must_reject && accepted {
        st.class("BAD-EXTRA-ACCEPTED");
        st.viol(
            format!("extra/invalid-accepted/{vname}"),
            format!("{what} ({vname}, large {large}): truncated / ZIP64-id / reserved-id / oversized extra data was accepted (local {}, central {})", show_x(&want_local), show_x(&want_central)),
            case(),
            order,
        );
        return;
    }
    if must_accept && !accepted {
        let (c, r) = calls.iter().zip(&res).find(|(_, r)| !r.is_ok()).unwrap();
        st.class("GOOD-EXTRA-REFUSED");
        st.viol(
            format!("extra/valid-refused/{vname}/{}", c.opname()),
            format!("{what} ({vname}, large {large}): well-formed unreserved extra data refused by {}: {} (local {}, central {})", c.opname(), r.show(), show_x(&want_local), show_x(&want_central)),
            case(),
            order,
        );
        return;
    }
    if !accepted {
        // refused: a caller that ignores the error, writes the content and finishes (the call list does exactly that) must
        // not end up with an archive that carries the refused bytes after all
        if must_reject && res.last().map_or(false, |r| r.is_ok()) {
            if let Ok(p) = zipparse::parse(&bytes, &Opts::lenient()) {
                if let Some(e) = p.entries.iter().find(|e| e.name == b"x") {
                    let holds = |hay: &[u8], needle: &[u8]| !needle.is_empty() && hay.windows(needle.len()).any(|w| w == needle);
                    let bad_part: &[u8] = if vl == Verdict::Reject { &want_local } else { &want_central };
                    if holds(&e.extra, bad_part) || holds(&e.l_extra, bad_part) {
                        st.class("REFUSED-EXTRA-STORED");
                        st.viol(
                            format!("extra/refused-data-stored/{vname}"),
                            format!("{what} ({vname}, large {large}): the extra data was refused with an error, the caller carried on and finish() succeeded: the archive's entry carries the refused bytes (local {}, central {})", show_x(&e.l_extra), show_x(&e.extra)),
                            case(),
                            order,
                        );
                        return;
                    }
                }
            }
        }
        st.class("rejected");
        return;
    }
    let parsed = match zipparse::validate(&bytes, &Opts::strict()) {
        Ok(p) => p,
        Err(e) => {
            st.viol(format!("extra/invalid-archive/{}", e.clause), format!("{what} ({vname}, large {large}): {e}"), case(), order);
            return;
        }
    };
    let mut ok = true;
    match parsed.entries.iter().find(|e| e.name == b"x") {
        None => {
            ok = false;
            st.viol("extra/entry-missing", format!("{what}: entry not in the archive"), case(), order)
        }
        Some(e) => {
            if PEntry::extra_without_zip64(&e.l_extra).as_deref() != Some(&want_local[..]) {
                ok = false;
                st.viol(format!("extra/local-not-verbatim/{vname}"), format!("{what} ({vname}, large {large}): local header extra is {}, supplied local part {}", hex(&e.l_extra), show_x(&want_local)), case(), order);
            }
            if PEntry::extra_without_zip64(&e.extra).as_deref() != Some(&want_central[..]) {
                ok = false;
                st.viol(format!("extra/central-not-verbatim/{vname}"), format!("{what} ({vname}, large {large}): central extra is {}, supplied central part {}", hex(&e.extra), show_x(&want_central)), case(), order);
            }
            if zipparse::content(&bytes, e, &Opts::strict()).ok().as_ref() != Some(&content) {
                ok = false;
                st.viol("extra/content", format!("{what}: content does not round-trip"), case(), order);
            }
        }
    }
    match observe(&bytes, None, 1 << 20) {
        Ok(o) => match o.entries.iter().find(|g| g.name == "x") {
            Some(g) => {
                if PEntry::extra_without_zip64(&g.extra).as_deref() != Some(&want_central[..]) || g.content.as_ref().ok() != Some(&content) {
                    ok = false;
                    st.viol(format!("extra/reader/{vname}"), format!("{what} ({vname}): reader returns extra_data() {} (supplied central part {}), content ok {}", hex(&g.extra), show_x(&want_central), g.content.as_ref().ok() == Some(&content)), case(), order);
                }
            }
            None => {
                ok = false;
                st.viol("extra/reader-missing", format!("{what}: reader does not list the entry"), case(), order)
            }
        },
        Err(e) => {
            ok = false;
            st.viol("extra/unreadable", format!("{what}: {e:?}"), case(), order)
        }
    }
    let cheap = local.len() + central.len() < 300;
    if ok && what == "record list" && ((cheap && order % 16 == 0) || order % 128 == 0) {
        // (a) a sink that accepts only a few bytes per write call must end up with the same archive
        if !prelude.starts_with("append:") {
            for chunk in if cheap { vec![1usize, 100] } else { vec![4096usize] } {
                let (res2, bytes2) = exec_chunked(&calls, &[], chunk, 0);
                st.evals += 1;
                if res2 != res || bytes2 != bytes {
                    ok = false;
                    st.viol(format!("extra/short-writes-change-archive/{vname}"), format!("{what} ({vname}, large {large}): into a sink accepting {chunk} bytes per write the {} (local {}, central {})", if res2 != res { "call results differ" } else { "archive bytes differ" }, show_x(&want_local), show_x(&want_central)), case(), order);
                    break;
                }
            }
        }
        // (a') the same calls with every write handed over through Write::write_vectored
        if !prelude.starts_with("append:") {
            let (res2, bytes2) = with_vectored_writes(|| exec(&calls, &[]));
            st.evals += 1;
            if res2 != res || !same_archive_modulo_compression(&bytes2, &bytes) {
                ok = false;
                st.viol(format!("extra/write_vectored-changes-archive/{vname}"), format!("{what} ({vname}, large {large}): with the bytes handed over through write_vectored the {} (local {}, central {})", if res2 != res { "call results differ" } else { "archive bytes differ" }, show_x(&want_local), show_x(&want_central)), case(), order);
            }
        }
        // (b) the archive re-opened for append, an aligned entry added, finished again: the central part is still returned verbatim
        let more = vec![Call::StartAligned { name: "later".into(), opts: FOpts::m(0), align: 32 }, Call::Write(b"added in a later session".to_vec()), Call::Finish];
        let (res3, bytes3) = exec_append(&bytes, &more, &[]);
        st.evals += 1;
        if let Some(i) = res3.iter().position(|r| !r.is_ok()) {
            ok = false;
            st.viol(format!("extra/append-round-failed/{vname}"), format!("{what} ({vname}, large {large}): re-opening the archive for append: step {i} gave {}", res3[i].show()), case(), order);
        } else {
            match observe(&bytes3, None, 1 << 20) {
                Ok(o) => match o.entries.iter().find(|g| g.name == "x") {
                    Some(g) if PEntry::extra_without_zip64(&g.extra).as_deref() == Some(&want_central[..]) && g.content.as_ref().ok() == Some(&content) => {}
                    Some(g) => {
                        ok = false;
                        st.viol(format!("extra/changed-by-append-round/{vname}"), format!("{what} ({vname}, large {large}): after the archive was re-opened for append and finished again the reader returns extra_data() {} (supplied central part {}), content ok {}", hex(&g.extra), show_x(&want_central), g.content.as_ref().ok() == Some(&content)), case(), order);
                    }
                    None => {
                        ok = false;
                        st.viol("extra/lost-by-append-round", format!("{what}: entry missing after an append round"), case(), order)
                    }
                },
                Err(e) => {
                    ok = false;
                    st.viol("extra/unreadable-after-append-round", format!("{what}: {e:?}"), case(), order)
                }
            }
        }
    }
    st.class(if ok { "accepted-verbatim" } else { "EXTRA-MISMATCH" });
    st.distinct_hash(fnv(&[local, central, &[variant, large as u8]].concat()));
}

pub const ENDERS: [&str; 5] = ["finish", "drop", "next start_file, finish", "next start_file, drop", "add_directory, finish"];

/// Extra data whose end the caller never announces: the entry (without content) is closed by finish(), by drop, or by the
/// next entry. The bytes then are the shared kind - the same in the local header and the central record - and are
/// validated like an explicit end: accepted verbatim, or refused (by drop: no archive that carries them).
fn check_extra_implicit(local: &[u8], large: bool, ender: usize, st: &mut Stats, order: u64) {
    st.evals += 1;
    let mut calls = vec![Call::StartFile { name: "before".into(), opts: FOpts::m(0) }, Call::Write(b"b".to_vec()), Call::StartExtra { name: "x".into(), opts: FOpts { large, ..FOpts::m(8) } }, Call::Write(local.to_vec())];
    match ender {
        0 => calls.push(Call::Finish),
        1 => calls.push(Call::Drop),
        2 => calls.extend([Call::StartFile { name: "after".into(), opts: FOpts::m(0) }, Call::Write(b"a".to_vec()), Call::Finish]),
        3 => calls.extend([Call::StartFile { name: "after".into(), opts: FOpts::m(0) }, Call::Write(b"a".to_vec()), Call::Drop]),
        _ => calls.extend([Call::AddDir { name: "after".into(), opts: FOpts::m(0) }, Call::Finish]),
    }
    let case = || json!({"kind": "extra-implicit-end", "local": hex(local), "large": large, "ender": ender});
    let what = format!("extra data never explicitly ended (closed by: {}), large {large}", ENDERS[ender]);
    let (res, bytes) = exec(&calls, &[]);
    if let Some((c, r)) = calls.iter().zip(&res).find(|(_, r)| r.is_panic()) {
        st.class("PANIC");
        st.viol(format!("extra/panic/{}/{}", c.opname(), panic_site(&r.show())), format!("{what}: {} panicked: {}", c.opname(), r.show()), case(), order);
        return;
    }
    let v = verdict(local, if large { 20 } else { 0 });
    let accepted = res.iter().all(|r| r.is_ok());
    let parsed = zipparse::parse(&bytes, &Opts::lenient()).ok();
    let entry = parsed.as_ref().and_then(|p| p.entries.iter().find(|e| e.name == b"x"));
    match v {
        Verdict::Reject => {
            // no call may leave an archive whose entry carries the bytes (a drop cannot report: it must not produce one)
            let holds = |hay: &[u8]| !local.is_empty() && hay.windows(local.len()).any(|w| w == local);
            if let Some(e) = entry {
                if (accepted || matches!(calls.last(), Some(Call::Drop))) && (holds(&e.extra) || holds(&e.l_extra)) {
                    st.class("BAD-EXTRA-ACCEPTED");
                    st.viol(format!("extra/invalid-accepted/implicit-end/{}", ENDERS[ender]), format!("{what}: truncated / ZIP64-id / reserved-id extra data {} ended up in the archive (local {}, central {})", show_x(local), show_x(&e.l_extra), show_x(&e.extra)), case(), order);
                    return;
                }
            }
            st.class("rejected(implicit end)");
        }
        Verdict::Either => st.class("either(implicit end)"),
        Verdict::Accept => {
            if !accepted {
                let (c, r) = calls.iter().zip(&res).find(|(_, r)| !r.is_ok()).unwrap();
                st.class("GOOD-EXTRA-REFUSED");
                st.viol(format!("extra/valid-refused/implicit-end/{}", c.opname()), format!("{what}: well-formed unreserved extra data {} refused by {}: {}", show_x(local), c.opname(), r.show()), case(), order);
                return;
            }
            if let Err(e) = zipparse::validate(&bytes, &Opts::strict()) {
                st.viol(format!("extra/invalid-archive/{}", e.clause), format!("{what}: {e}"), case(), order);
                return;
            }
            match entry {
                None => st.viol("extra/entry-missing", format!("{what}: entry not in the archive"), case(), order),
                Some(e) => {
                    let (l, c) = (PEntry::extra_without_zip64(&e.l_extra), PEntry::extra_without_zip64(&e.extra));
                    if l.as_deref() != Some(local) || c.as_deref() != Some(local) {
                        st.class("EXTRA-MISMATCH");
                        st.viol(format!("extra/not-verbatim/implicit-end/{}", ENDERS[ender]), format!("{what}: supplied {}, local header extra is {}, central extra is {}", show_x(local), hex(&e.l_extra), hex(&e.extra)), case(), order);
                    } else {
                        st.class("accepted-verbatim(implicit end)");
                    }
                }
            }
        }
    }
}

fn show_x(b: &[u8]) -> String {
    if b.len() <= 24 {
        hex(b)
    } else {
        format!("{}…({} bytes)", hex(&b[..12]), b.len())
    }
}

fn replay(case: &Value, st: &mut Stats) {
    if case["kind"] == "extra-implicit-end" {
        check_extra_implicit(&crate::util::unhex(case["local"].as_str().unwrap_or("")), case["large"].as_bool().unwrap_or(false), case["ender"].as_u64().unwrap_or(0) as usize, st, 0);
        return;
    }
    if case["kind"] == "align" {
        let pre = preludes();
        let p = pre.iter().find(|p| p.0 == case["prelude"].as_str().unwrap_or("empty")).unwrap_or(&pre[0]);
        check_align(case["align"].as_u64().unwrap_or(0) as u16, p, case["name_len"].as_u64().unwrap_or(1) as usize, case["large"].as_bool().unwrap_or(false), case["method"].as_u64().unwrap_or(0) as u16, st, 0);
    } else {
        check_extra_in(&crate::util::unhex(case["local"].as_str().unwrap_or("")), &crate::util::unhex(case["central"].as_str().unwrap_or("")), case["variant"].as_u64().unwrap_or(0) as u8, case["large"].as_bool().unwrap_or(false), st, 0, "replay", case["prelude"].as_str().unwrap_or(""));
    }
}

pub fn run(args: &Args) -> i32 {
    let mut ctx = crate::new_ctx("C17", args);
    if let Some(path) = &args.replay {
        return crate::props::replay_file(ctx, path, replay);
    }
    let thorough = args.tier.thorough();
    let aligns: Vec<u16> = if thorough {
        (0..=65535u16).collect()
    } else {
        let mut v: Vec<u16> = (0..=4100u16).collect();
        v.extend((0..16).map(|b| 1u16 << b));
        v.extend([8191, 8193, 16383, 32767, 32769, 65530, 65534, 65535]);
        v.sort();
        v.dedup();
        v
    };
    ctx.rule = format!(
        "E-PROD. Alignment: {} alignment values ({}) x 12 preceding archive states (an aligned entry that needed padding; an entry with central-only extra data; two archives re-opened with new_append whose old directory/comment is longer than the new header; empty; entries of 1/30/31/4095/65 500/200 000 bytes, i.e. data offsets below and above 2^16; deflated entry + directory) x 3 name lengths chosen so that the header ends at 0, 1, -1 modulo the alignment \
         x large_file {{no, yes}} x method {{stored, deflated}}: an Ok result must put the data at a multiple of the alignment (independent parser and ZipFile::data_start) and a strictly valid archive (the padding record's ID and the returned padding length are documented but not stated by the property: counted only); Err is a refusal. \
         Extra data: all lists of <= 3 records over 9 header IDs x sizes {{0, 1, 4}} (+ 65531 singly) x tails {{clean, 1-3 stray bytes, overlong size field}} x placement {{shared, local-only, central-only, different local+central}} x large_file; and EVERY header ID 0..=65535 singly. \
         Oracle: reference rules transcribed from APPNOTE (reject truncated / ID 0x0001 / reserved IDs / oversize; accept the rest; IDs listed only in some revisions: either) and verbatim placement. distinct_nontrivial = distinct accepted cases (hash set).",
        aligns.len(),
        if thorough { "all of 0..=65535" } else { "0..=4100, all powers of two, and boundary values" }
    );
    ctx.assume("reserved-ID list transcribed from APPNOTE 6.3.9 sections 4.5.2/4.6.1 (refmodel::extra); IDs found only in some revisions are accepted either way");
    ctx.uncovered("extra-data lists longer than 3 records; alignment combined with user extra data (not offered by the API)");
    ctx.bound("alignments", json!(aligns.len()));

    let pre = preludes();
    // where would the data of a 1-byte-named entry start after each prelude (dry run)?
    let mut d1: Vec<[u64; 2]> = vec![];
    for p in &pre {
        let mut row = [0u64; 2];
        for (li, large) in [false, true].into_iter().enumerate() {
            let mut calls = p.1.clone();
            calls.push(Call::StartExtra { name: "n".into(), opts: FOpts { large, ..FOpts::m(0) } });
            let (res, _) = run_calls(p.0, &calls);
            row[li] = match res.last() {
                Some(Res::Ok(v)) => *v,
                other => {
                    ctx.machinery(format!("dry run for prelude {} failed: {other:?}", p.0));
                    0
                }
            };
        }
        d1.push(row);
    }
    let al = &aligns;
    let pre_r = &pre;
    let d1_r = &d1;
    let s = par_for(aligns.len() as u64, 16, |i, st| {
        let align = al[i as usize];
        for (pi, p) in pre_r.iter().enumerate() {
            for (li, large) in [false, true].into_iter().enumerate() {
                for method in [0u16, 8] {
                    // name lengths such that the unpadded data offset is 0, 1 and -1 modulo the alignment
                    let a = align.max(1) as u64;
                    for r in [0u64, 1 % a, a - 1] {
                        let base = d1_r[pi][li] - 1;
                        let mut n = (r + a - base % a) % a;
                        if n == 0 {
                            n = a;
                        }
                        if n > 60_000 {
                            continue;
                        }
                        check_align(align, p, n as usize, large, method, st, (i << 8) | r.min(2));
                    }
                }
            }
        }
        if i == 64 {
            st.sample(json!({"kind":"align","align":align,"preludes":pre_r.iter().map(|p| p.0).collect::<Vec<_>>()}));
        }
    });
    let ok_small = s.extra.get("aligned_ok_le_4096").copied().unwrap_or(0);
    ctx.stats.merge(s);
    if ok_small == 0 {
        ctx.machinery("vacuous: no alignment request with align <= 4096 succeeded");
    }
    crate::diag!("  [C17] alignment done at {:.1}s", ctx.elapsed());

    // extra data: record lists
    let ids: [u16; 9] = [0x0000, 0x0001, 0x001f, 0x0020, 0x5455, 0x9901, 0xbeef, 0xcafe, 0xffff];
    let sizes = [0usize, 1, 4];
    let mut recs: Vec<Vec<u8>> = vec![];
    for &id in &ids {
        for &s in &sizes {
            recs.push(record(id, s, 0));
        }
    }
    let nr = recs.len() as u64; // 27
    // lists of length 0..=3 with a tail variant on the last record: encode as (len, indices, tail)
    let mut lists: Vec<Vec<u8>> = vec![vec![]];
    for l in 1..=3u32 {
        for j in 0..nr.pow(l) {
            for tail in 0..=4u8 {
                let mut v = vec![];
                for k in (0..l).rev() {
                    let r = &recs[((j / nr.pow(k)) % nr) as usize];
                    if k == 0 && tail != 0 {
                        // re-make the last record with the tail
                        let id = u16::from_le_bytes([r[0], r[1]]);
                        v.extend(record(id, r.len() - 4, tail));
                    } else {
                        v.extend_from_slice(r);
                    }
                }
                lists.push(v);
            }
        }
    }
    // big records
    for &id in &[0xbeefu16, 0x0001, 0xcafe] {
        lists.push(record(id, 65531, 0));
        lists.push(record(id, 65511, 0));
        lists.push(record(id, 65512, 0));
    }
    // payloads that spell record signatures (an end record, the ZIP64 end record and its locator, a central and a local
    // header), each followed by enough zero bytes to look like the whole record: extra data is opaque to the format
    for sig in [&b"PK\x05\x06"[..], b"PK\x06\x06", b"PK\x06\x07", b"PK\x01\x02", b"PK\x03\x04"] {
        for pad in [0usize, 18, 60] {
            let mut payload = sig.to_vec();
            payload.extend(std::iter::repeat(0u8).take(pad));
            let mut r = vec![0xef, 0xbe];
            r.extend_from_slice(&(payload.len() as u16).to_le_bytes());
            r.extend_from_slice(&payload);
            lists.push(r);
        }
    }
    ctx.bound("extra_lists", json!(lists.len()));
    let lists_r = &lists;
    let central_alt = record(0xc0de, 3, 0);
    let central_alt_r = &central_alt;
    let s = par_for(lists.len() as u64, 16, |i, st| {
        let l = &lists_r[i as usize];
        for large in [false, true] {
            check_extra(l, l, 0, large, st, i, "record list");
            check_extra(l, &[], 1, large, st, i, "record list");
            check_extra(&[], l, 2, large, st, i, "record list");
            check_extra(l, central_alt_r, 3, large, st, i, "record list");
            check_extra(central_alt_r, l, 3, large, st, i, "record list");
        }
        // the same through a writer re-opened on an existing archive, and after entries whose own extra data ended in
        // the central-only phase (every list of <= 2 records, every 5th longer one)
        if l.len() <= 24 || i % 5 == 0 {
            for v in 0..4u8 {
                check_extra_in(l, if v == 3 { central_alt_r } else { l }, v, i % 2 == 0, st, (2 << 40) + i, "record list (appending)", "append:3-small-entries");
                check_extra_in(l, if v == 3 { central_alt_r } else { l }, v, i % 2 == 1, st, (5 << 40) + i, "record list (after an aligned entry)", "after-aligned-entry-that-padded");
                check_extra_in(l, if v == 3 { central_alt_r } else { l }, v, i % 2 == 0, st, (6 << 40) + i, "record list (after a central-only entry)", "after-central-only-extra-entry");
            }
        }
        // the end of the extra data never announced (lists of <= 16 bytes, every 11th longer one)
        if l.len() <= 16 || i % 11 == 0 {
            for ender in 0..ENDERS.len() {
                check_extra_implicit(l, (i as usize + ender) % 2 == 0, ender, st, (7 << 40) + i);
            }
        }
        if i == 500 {
            st.sample(json!({"kind":"extra","list":hex(l)}));
        }
    });
    ctx.stats.merge(s);
    // every header id singly
    let s = par_for(65536, 64, |id, st| {
        let r = record(id as u16, 2, 0);
        check_extra(&r, &r, 0, false, st, (1 << 40) + id, "single header ID");
        check_extra(&[], &r, 2, id % 2 == 0, st, (1 << 40) + id, "single header ID");
        if id % 16 == 1 || id < 64 {
            check_extra_in(&r, &r, 0, false, st, (3 << 40) + id, "single header ID (appending)", "append:1-entry+2000-byte-comment");
        }
    });
    ctx.stats.merge(s);
    ctx.bound("header_ids_singly", json!("all 65536"));
    crate::diag!("  [C17] extra data done at {:.1}s", ctx.elapsed());

    ctx.stats.states = ctx.stats.distinct.len() as u64;
    ctx.stats.transitions = ctx.stats.evals;
    ctx.stats.traces = ctx.stats.evals;
    ctx.finish()
}

//! C11 — I/O failures surface as errors, never as panics or wrong results.
//! E-DEV over faults: for every scenario the failure-free run numbers its I/O calls; a hard
//! error is injected at every call index (transient and sticky), and at every pair of indices
//! for short scenarios. The script always runs to its end (later calls, finish, drop).

use crate::props::c09::{self, RObs};
use crate::reference::zipparse::{self, Opts};
use crate::sio::inst::{plan, Dev, Inst, InstRead, PlanRef};
use crate::util::{panic_site, par_for, Stats};
use crate::zipapi::*;
use crate::Args;
use serde_json::{json, Value};

const PW: &[u8] = b"pw";

// ---------------------------------------------------------------------------------------------
// writer scenarios

#[derive(Clone)]
pub struct WScn {
    pub label: String,
    pub base: Option<Vec<u8>>,
    pub calls: Vec<Call>,
    pub pw: bool,
}

#[derive(Clone, Debug, PartialEq)]
pub struct Logical {
    pub comment: Vec<u8>,
    pub entries: Vec<(String, u16, u64, u32, Option<u32>, u16, u16, Result<Vec<u8>, String>)>,
}

fn logical(bytes: &[u8], pw: bool) -> Result<Logical, String> {
    let o = observe(bytes, if pw { Some(PW) } else { None }, 1 << 22).map_err(|e| format!("{e:?}"))?;
    Ok(Logical {
        comment: o.comment,
        entries: o.entries.into_iter().map(|e| (e.name, e.method, e.size, e.crc, e.mode, e.date, e.time, e.content)).collect(),
    })
}

/// Run a writer scenario under a plan. Returns per-call results (new_append first if any) and the sink.
fn run_w(s: &WScn, src: &[Vec<u8>], p: PlanRef) -> (Vec<Res>, Vec<u8>) {
    let p_shared = p.clone();
    let sink = SharedBuf::new(s.base.clone().unwrap_or_default());
    let mut out = vec![];
    let mut w = match &s.base {
        None => W::new(Inst::over(sink.clone(), p)),
        Some(_) => {
            let inst = Inst::over(sink.clone(), p);
            match crate::util::guard(|| zip::ZipWriter::new_append(inst)) {
                Ok(Ok(zw)) => {
                    out.push(Res::Ok(0));
                    W::from_writer(zw)
                }
                Ok(Err(e)) => {
                    out.push(Res::Err(e.to_string()));
                    return (out, sink.snapshot());
                }
                Err(pn) => {
                    out.push(Res::Panic(pn));
                    return (out, sink.snapshot());
                }
            }
        }
    };
    // scenarios labelled "src-faults:" read the sources of their raw copies through the same instrumented plan as the sink,
    // 7 bytes per read call: the source's I/O calls are numbered, and fail, like the sink's
    let shared = s.label.starts_with("src-faults:");
    if shared {
        SRC_PLAN.with(|sp| *sp.borrow_mut() = Some(p_shared.clone()));
        SRC_CHUNK.with(|c| c.set(7));
    }
    for c in &s.calls {
        out.push(w.call(c, src));
    }
    if shared {
        SRC_PLAN.with(|sp| *sp.borrow_mut() = None);
        SRC_CHUNK.with(|c| c.set(0));
    }
    // explicit, separately caught drop
    out.push(w.drop_now());
    (out, sink.snapshot())
}

pub fn writer_scenarios(seed: u64, max_len: usize) -> Vec<WScn> {
    let comps = crate::props::c02::composites(seed);
    let pick = [
        "file-stored",
        "file-deflated",
        "file-utf8-zstd-2writes",
        "file-bzip2-large",
        "dir",
        "symlink",
        "extra-local-central",
        "extra-implicit-end",
        "aligned-64-deflated",
        "zipcrypto-deflated",
        "rawcopy-deflated-renamed",
        "extra-large",
    ];
    let al: Vec<&(&'static str, Vec<Call>)> = comps.iter().filter(|c| pick.contains(&c.0)).collect();
    let n = al.len();
    let mut v = vec![];
    let mut total = 0;
    for d in 1..=max_len {
        total += n.pow(d as u32);
    }
    for mut j in 0..total {
        let mut d = 1;
        while j >= n.pow(d) {
            j -= n.pow(d);
            d += 1;
        }
        let mut calls = vec![Call::SetComment(b"cm".to_vec())];
        let mut labels = vec![];
        let mut pw = false;
        for k in (0..d).rev() {
            let c = al[(j / n.pow(k)) % n];
            labels.push(c.0);
            pw |= c.0.starts_with("zipcrypto");
            calls.extend(c.1.iter().cloned());
        }
        calls.push(Call::Finish);
        v.push(WScn { label: labels.join("+"), base: None, calls, pw });
    }
    // raw copies whose SOURCE stream takes part in the fault enumeration (every read / seek of the source archive is an I/O call)
    for c in comps.iter().filter(|c| c.0.starts_with("rawcopy")) {
        let mut calls = al[0].1.clone();
        calls.extend(c.1.iter().cloned());
        calls.extend(al[1].1.iter().cloned());
        calls.push(Call::Finish);
        v.push(WScn { label: format!("src-faults:{}+{}+{}", al[0].0, c.0, al[1].0), base: None, calls, pw: false });
    }
    // append: 4 bases x (nothing | each composite)
    let bases: Vec<(&str, Vec<u8>)> = vec![
        ("base-two-files", {
            let mut c = vec![Call::SetComment(b"base".to_vec())];
            c.extend(al[0].1.iter().cloned());
            c.extend(al[1].1.iter().cloned());
            c.push(Call::Finish);
            exec(&c, &[]).1
        }),
        ("base-empty", exec(&[Call::Finish], &[]).1),
        ("base-extra-large", {
            let mut c = comps.iter().find(|c| c.0 == "extra-large").unwrap().1.clone();
            c.push(Call::Finish);
            exec(&c, &[]).1
        }),
        ("base-prefixed", {
            let spec = crate::reference::zipbuild::Spec {
                prefix: vec![0x5a; 50],
                entries: vec![crate::reference::zipbuild::ESpec { name: b"p".to_vec(), method: 8, content: b"prefixed base entry".to_vec(), ..Default::default() }],
                comment: b"pc".to_vec(),
                ..Default::default()
            };
            crate::reference::zipbuild::build(&spec).0
        }),
    ];
    let mut bases = bases;
    bases.push(("base-nested-zip-last", {
        let inner = exec(&[Call::SetComment(b"inner".to_vec()), Call::StartFile { name: "inner.txt".into(), opts: FOpts::m(0) }, Call::Write(b"inner content".to_vec()), Call::Finish], &[]).1;
        exec(&[Call::StartFile { name: "outer.txt".into(), opts: FOpts::m(8) }, Call::Write(b"outer content".to_vec()), Call::StartFile { name: "nested.zip".into(), opts: FOpts::m(0) }, Call::Write(inner), Call::Finish], &[]).1
    }));
    // bases whose old end structures are longer than the new ones will be (forced ZIP64 end records, with and without an
    // extensible data sector; a long archive comment that the round replaces): the writer then has to know how long the
    // stream was, blank the stale records and write the directory again
    {
        use crate::reference::zipbuild::{build, ESpec, Spec};
        let e = |n: &str, m: u16| ESpec { name: n.as_bytes().to_vec(), method: m, content: b"entry of a base with long end records, entry of a base".to_vec(), ..Default::default() };
        bases.push(("base-forced-zip64-end", build(&Spec { entries: vec![e("a", 0), e("b", 8)], force_zip64_eocd: true, comment: b"z64".to_vec(), ..Default::default() }).0));
        bases.push(("base-forced-zip64-end-with-sector", build(&Spec { entries: vec![e("a", 8)], force_zip64_eocd: true, zip64_ext: vec![0x33; 300], ..Default::default() }).0));
        bases.push(("base-long-comment", build(&Spec { entries: vec![e("a", 0)], comment: vec![b'c'; 400], ..Default::default() }).0));
    }
    for (bl, b) in &bases {
        if bl.starts_with("base-long-comment") || bl.starts_with("base-forced-zip64") {
            v.push(WScn { label: format!("append:{bl}+short-comment"), base: Some(b.clone()), calls: vec![Call::SetComment(b"s".to_vec()), Call::Finish], pw: false });
        }
        v.push(WScn { label: format!("append:{bl}+nothing"), base: Some(b.clone()), calls: vec![Call::Finish], pw: false });
        for c in &al {
            let mut calls = c.1.clone();
            calls.push(Call::Finish);
            v.push(WScn { label: format!("append:{bl}+{}", c.0), base: Some(b.clone()), calls, pw: c.0.starts_with("zipcrypto") });
        }
    }
    v
}

fn check_writer(s: &WScn, src: &[Vec<u8>], base: &(Vec<Res>, Logical), devs: &[(u64, Dev)], st: &mut Stats, order: u64) {
    st.evals += 1;
    let p = plan();
    p.borrow_mut().record_kinds = false;
    for (k, d) in devs {
        p.borrow_mut().devs.insert(*k, *d);
    }
    let (res, sink) = run_w(s, src, p.clone());
    let injected = p.borrow().errors_returned;
    let case = || json!({"writer": s.label, "faults": devs.iter().map(|(k, d)| json!({"call": k, "kind": format!("{d:?}")})).collect::<Vec<_>>()});
    let names: Vec<&str> = s.base.iter().map(|_| "new_append").chain(s.calls.iter().map(|c| c.opname())).chain(std::iter::once("drop")).collect();
    if let Some((i, r)) = res.iter().enumerate().find(|(_, r)| r.is_panic()) {
        st.class("PANIC");
        let Res::Panic(pn) = r else { unreachable!() };
        let first_err = res.iter().position(|r| r.is_err());
        st.viol(
            format!("writer/panic/{}/{}", names.get(i).copied().unwrap_or("?"), panic_site(pn)),
            format!(
                "{}: with {:?} {} panicked ({pn}){}",
                s.label,
                devs,
                names.get(i).copied().unwrap_or("?"),
                match first_err {
                    Some(e) if e < i => format!(" after {} had reported the I/O error", names[e]),
                    _ => String::new(),
                }
            ),
            case(),
            order,
        );
        return;
    }
    if injected == 0 {
        st.class("fault-not-reached");
        return;
    }
    let any_err = res.iter().any(|r| r.is_err());
    if any_err {
        st.class("error-reported");
        return;
    }
    // silent: must equal the failure-free outcome
    let got = logical(&sink, s.pw);
    let valid = zipparse::validate(&sink, &Opts { password: if s.pw { Some(PW.to_vec()) } else { None }, allow_prefix: true, allow_trailing: true, cd_contiguous_to_end: false, ..Opts::strict() });
    match got {
        Ok(l) if l == base.1 && valid.is_ok() => st.class("silent-but-identical"),
        other => {
            st.class("SILENT-WRONG-RESULT");
            let what = match (&other, &valid) {
                (Err(e), _) => format!("the archive cannot be read back: {e}"),
                (Ok(_), Err(e)) => format!("the archive is structurally invalid: {e}"),
                (Ok(l), _) => {
                    if l.entries.len() != base.1.entries.len() {
                        format!("{} entries instead of {}", l.entries.len(), base.1.entries.len())
                    } else {
                        let i = l.entries.iter().zip(&base.1.entries).position(|(a, b)| a != b);
                        match i {
                            Some(i) => format!("entry {i} ({}) differs: crc {:#x} size {} content {:?}", l.entries[i].0, l.entries[i].3, l.entries[i].2, l.entries[i].7.as_ref().map(|c| c.len())),
                            None => "archive comment differs".into(),
                        }
                    }
                }
            };
            st.viol(
                format!("writer/silent-wrong-result/{}", devs.iter().map(|d| format!("{:?}", d.1)).collect::<Vec<_>>().join("+")),
                format!("{}: {:?} injected, every call incl. finish returned Ok, but {what}", s.label, devs),
                case(),
                order,
            );
        }
    }
}

// ---------------------------------------------------------------------------------------------
// reader scenarios

pub const ROUTES: [&str; 5] = ["seekable", "stream", "visitor", "stream-release-after-1-byte", "stream-release-unread"];

/// route 0 seekable, 1 stream (entries read to the end), 2 visitor, 3 / 4 stream with every entry released after 1 / 0 bytes
/// (the reader then has to skip the rest itself, inside Drop)
fn run_route(s: &c09::Scn, route: u8, p: PlanRef) -> Result<RObs, String> {
    match route {
        3 | 4 => {
            let pc = p.clone();
            c09::CALL_PROBE.with(|c| *c.borrow_mut() = Some(Box::new(move || pc.borrow().calls)));
            let r = c09::run_stream_partial(InstRead { inner: Inst::new(s.bytes.clone(), p) }, if route == 3 { 1 } else { 0 });
            c09::CALL_PROBE.with(|c| *c.borrow_mut() = None);
            r
        }
        r => run_r(s, r == 1, r == 2, p),
    }
}

fn run_r(s: &c09::Scn, stream: bool, visitor: bool, p: PlanRef) -> Result<RObs, String> {
    let inst = Inst::new(s.bytes.clone(), p);
    if visitor {
        return crate::util::guard(|| {
            struct V(RObs);
            impl zip::unstable::stream::ZipStreamVisitor for V {
                fn visit_file(&mut self, f: &mut zip::read::ZipFile<'_>) -> zip::result::ZipResult<()> {
                    use std::io::Read;
                    let meta = (f.name().to_string(), f.size(), f.compressed_size(), f.crc32(), method_id(f.compression()), f.last_modified().datepart(), f.last_modified().timepart(), f.header_start(), f.central_header_start(), f.data_start(), f.unix_mode());
                    let mut v = vec![];
                    let r = f.read_to_end(&mut v).map(|_| v).map_err(|e| e.to_string());
                    self.0.entries.push(c09::EObs { meta, content: r, post_eof_zero: true, extra: f.extra_data().to_vec(), comment: f.comment().to_string() });
                    Ok(())
                }
                fn visit_additional_metadata(&mut self, m: &zip::unstable::stream::ZipStreamFileMetadata) -> zip::result::ZipResult<()> {
                    self.0.comment.extend_from_slice(m.name().as_bytes());
                    Ok(())
                }
            }
            let mut v = V(RObs { open: Ok(()), comment: vec![], entries: vec![] });
            let r = zip::unstable::stream::ZipStreamReader::new(InstRead { inner: inst }).visit(&mut v);
            if let Err(e) = r {
                v.0.open = Err(e.to_string());
            }
            v.0
        });
    }
    if stream {
        c09::run_stream(InstRead { inner: inst }, 16, false)
    } else {
        c09::run_seekable(inst, s.pw.as_deref(), 16, false)
    }
}

/// Reader scenarios that only make sense under faults: an older, complete end record inside the search window
/// (a stored nested archive as the last entry), a long archive comment (the backward search takes several steps),
/// and data-descriptor entries.
pub fn extra_reader_scenarios(seed: u64) -> Vec<c09::Scn> {
    use crate::reference::zipbuild::{build, Dd, ESpec, Spec};
    let (a, b) = c09::contents(seed, 700);
    let inner = build(&Spec { entries: vec![ESpec { name: b"inner.txt".to_vec(), method: 0, content: b"inner content".to_vec(), ..Default::default() }], comment: b"inner".to_vec(), ..Default::default() }).0;
    let mut v = vec![];
    v.push(c09::Scn {
        label: "nested-stored-zip-last".into(),
        bytes: build(&Spec { entries: vec![ESpec { name: b"first".to_vec(), method: 8, content: a.clone(), ..Default::default() }, ESpec { name: b"bundle/nested.zip".to_vec(), method: 0, content: inner.clone(), ..Default::default() }], ..Default::default() }).0,
        pw: None,
        stream: true,
        aes: false,
        damaged: false,
    });
    v.push(c09::Scn {
        label: "long-comment-3000".into(),
        bytes: build(&Spec { entries: vec![ESpec { name: b"first".to_vec(), method: 0, content: a.clone(), ..Default::default() }, ESpec { name: b"second".to_vec(), method: 8, content: b.clone(), ..Default::default() }], comment: vec![b'c'; 3000], ..Default::default() }).0,
        pw: None,
        stream: false,
        aes: false,
        damaged: false,
    });
    v.push(c09::Scn {
        label: "nested-stored-zip-in-the-middle".into(),
        bytes: build(&Spec {
            entries: vec![
                ESpec { name: b"first".to_vec(), method: 8, content: a.clone(), ..Default::default() },
                ESpec { name: b"bundle/nested.zip".to_vec(), method: 0, content: build(&Spec { entries: vec![ESpec { name: b"x".to_vec(), method: 0, content: b"inner x".to_vec(), ..Default::default() }, ESpec { name: b"y".to_vec(), method: 8, content: b"inner y inner y inner y".to_vec(), ..Default::default() }], ..Default::default() }).0, ..Default::default() },
                ESpec { name: b"after".to_vec(), method: 0, content: b.clone(), ..Default::default() },
            ],
            ..Default::default()
        })
        .0,
        pw: None,
        stream: true,
        aes: false,
        damaged: false,
    });
    // a Stored nested archive WITHOUT entries: its data begins with an end-of-central-directory signature (plain or ZIP64
    // form). A reader left inside it after a failed release must not take that for the regular end of the outer entries.
    for (lab, content) in [
        ("nested-empty-zip-in-the-middle", build(&Spec { comment: b"empty".to_vec(), ..Default::default() }).0),
        ("nested-zip64-end-bytes-in-the-middle", {
            let mut c = b"PK\x06\x06".to_vec();
            c.extend_from_slice(&[44, 0, 0, 0, 0, 0, 0, 0, 45, 0, 45, 0]);
            c.extend_from_slice(&[0u8; 36]);
            c.extend_from_slice(&build(&Spec::default()).0);
            c
        }),
    ] {
        v.push(c09::Scn {
            label: lab.into(),
            bytes: build(&Spec {
                entries: vec![
                    ESpec { name: b"first".to_vec(), method: 8, content: a.clone(), ..Default::default() },
                    ESpec { name: b"bundle/empty.zip".to_vec(), method: 0, content, ..Default::default() },
                    ESpec { name: b"after".to_vec(), method: 0, content: b.clone(), ..Default::default() },
                    ESpec { name: b"last".to_vec(), method: 8, content: a.clone(), ..Default::default() },
                ],
                ..Default::default()
            })
            .0,
            pw: None,
            stream: true,
            aes: false,
            damaged: false,
        });
    }
    v.push(c09::Scn {
        label: "extras-and-comments-on-every-entry".into(),
        bytes: build(&Spec {
            entries: vec![
                ESpec { name: b"first".to_vec(), method: 0, content: a.clone(), central_extra: crate::reference::zipbuild::extra_block(0xbeef, b"first central"), comment: b"first comment".to_vec(), ..Default::default() },
                ESpec { name: b"dir/tagged.bin".to_vec(), method: 8, content: b.clone(), central_extra: crate::reference::zipbuild::extra_block(0xbeef, &[0x1c; 28]), local_extra: crate::reference::zipbuild::extra_block(0xcafe, b"local"), comment: b"last comment".to_vec(), ..Default::default() },
            ],
            comment: b"x".to_vec(),
            ..Default::default()
        })
        .0,
        pw: None,
        stream: true,
        aes: false,
        damaged: false,
    });
    v.push(c09::Scn {
        label: "data-descriptors".into(),
        bytes: build(&Spec { entries: vec![ESpec { name: b"first".to_vec(), method: 8, content: a, dd: Dd::Sig32, ..Default::default() }, ESpec { name: b"second".to_vec(), method: 93, content: b, dd: Dd::NoSig32, ..Default::default() }], comment: b"dd".to_vec(), ..Default::default() }).0,
        pw: None,
        stream: false,
        aes: false,
        damaged: false,
    });
    v
}

/// Light observation of a large archive: what `new` concluded about it (count, comment, first and last record) and the
/// content of the last entry. Err(String) inside = an error was reported.
#[derive(Clone, Debug, PartialEq)]
pub struct Light {
    pub len: usize,
    pub comment: Vec<u8>,
    pub first: (String, u64),
    pub last: (String, u64, Vec<u8>),
}
fn run_light(bytes: &std::sync::Arc<Vec<u8>>, p: PlanRef) -> Result<Result<Light, String>, String> {
    struct Shared(std::sync::Arc<Vec<u8>>);
    impl AsRef<[u8]> for Shared {
        fn as_ref(&self) -> &[u8] {
            &self.0
        }
    }
    let inst = Inst::over(std::io::Cursor::new(Shared(bytes.clone())), p);
    crate::util::guard(|| -> Result<Light, String> {
        use std::io::Read;
        let mut ar = zip::ZipArchive::new(inst).map_err(|e| format!("open: {e}"))?;
        let len = ar.len();
        let comment = ar.comment().to_vec();
        let first = {
            let f = ar.by_index_raw(0).map_err(|e| format!("first: {e}"))?;
            (f.name().to_string(), f.central_header_start())
        };
        let last = {
            let mut f = ar.by_index(len - 1).map_err(|e| format!("last: {e}"))?;
            let mut v = vec![];
            f.read_to_end(&mut v).map_err(|e| format!("read: {e}"))?;
            (f.name().to_string(), f.central_header_start(), v)
        };
        Ok(Light { len, comment, first, last })
    })
}

/// "An error reported by some call". The verdict "this password is wrong" (the inner Err of by_index_decrypt, under an outer
/// Ok) is an ANSWER, not a report of the failure: for a password the failure-free run accepts it is a different result.
fn robs_has_err(o: &RObs) -> bool {
    o.open.is_err() || o.entries.iter().any(|e| matches!(&e.content, Err(m) if m != "open: invalid password"))
}

fn check_reader(s: &c09::Scn, route: u8, base: &RObs, devs: &[(u64, Dev)], st: &mut Stats, order: u64) {
    st.evals += 1;
    let p = plan();
    p.borrow_mut().record_kinds = false;
    for (k, d) in devs {
        p.borrow_mut().devs.insert(*k, *d);
    }
    let rname = ROUTES[route as usize];
    let case = || json!({"reader": s.label, "route": rname, "faults": devs.iter().map(|(k, d)| json!({"call": k, "kind": format!("{d:?}")})).collect::<Vec<_>>()});
    match run_route(s, route, p.clone()) {
        Err(pn) => {
            st.class("PANIC");
            st.viol(format!("reader/panic/{rname}/{}", panic_site(&pn)), format!("{} via {rname}: with {:?} the reader panicked: {pn}", s.label, devs), case(), order);
        }
        Ok(o) => {
            if p.borrow().errors_returned == 0 {
                st.class("fault-not-reached");
            } else if robs_has_err(&o) {
                st.class("error-reported");
            } else if o == *base {
                st.class("silent-but-identical");
            } else {
                st.class("SILENT-WRONG-RESULT");
                // where did the fault land? Calls made while an entry is being released (the skip of its unread rest inside
                // Drop, which has no way to report) are a site of their own
                let spans = c09::RELEASE_SPANS.with(|s| s.borrow().clone());
                let in_release = route >= 3 && devs.iter().all(|(k, _)| spans.iter().any(|(a, b)| k >= a && k < b));
                st.viol(
                    if in_release {
                        // the site is part of the signature: scenario and the I/O call(s) hit, so that the committed known finding
                        // names exactly the histories that fail and any other one is reported
                        format!(
                            "reader/silent-wrong-result/{rname}/fault-while-an-entry-is-released/{}@{}",
                            s.label,
                            devs.iter().map(|(k, _)| k.to_string()).collect::<Vec<_>>().join("+")
                        )
                    } else {
                        format!("reader/silent-wrong-result/{rname}")
                    },
                    format!("{} via {rname}: {:?} injected, no call reported an error, but the observed entries differ from the failure-free run", s.label, devs),
                    case(),
                    order,
                );
            }
        }
    }
}

fn replay(case: &Value, st: &mut Stats, seed: u64) {
    let devs: Vec<(u64, Dev)> = case["faults"]
        .as_array()
        .map(|a| {
            a.iter()
                .map(|f| {
                    let kind = match f["kind"].as_str() {
                        Some("ErrSticky") => Dev::ErrSticky,
                        Some(k) if k.starts_with("Short(") => Dev::Short(k[6..k.len() - 1].parse().unwrap_or(1)),
                        _ => Dev::Err,
                    };
                    (f["call"].as_u64().unwrap_or(0), kind)
                })
                .collect()
        })
        .unwrap_or_default();
    if let Some(label) = case["writer"].as_str() {
        let src = crate::props::c02::sources(seed);
        let scns = writer_scenarios(seed, 3);
        if let Some(s) = scns.iter().find(|s| s.label == label) {
            let b = run_w(s, &src, plan());
            if let Ok(l) = logical(&b.1, s.pw) {
                check_writer(s, &src, &(b.0, l), &devs, st, 0);
            }
        }
    } else if let Some(label) = case["large"].as_str() {
        let n: usize = label.split('-').next().and_then(|x| x.parse().ok()).unwrap_or(65_536);
        let mut calls = vec![Call::SetComment(b"many".to_vec())];
        for i in 0..n {
            calls.push(Call::StartFile { name: format!("n{i}"), opts: FOpts::m(0) });
            if i + 1 == n {
                calls.push(Call::Write(b"the last entry".to_vec()));
            }
        }
        calls.push(Call::Finish);
        let bytes = std::sync::Arc::new(exec(&calls, &[]).1);
        if let Ok(Ok(base)) = run_light(&bytes, plan()) {
            let p = plan();
            for (k, d) in &devs {
                p.borrow_mut().devs.insert(*k, *d);
            }
            st.evals += 1;
            match run_light(&bytes, p.clone()) {
                Err(pn) => st.viol(format!("reader/panic/large/{}", panic_site(&pn)), pn, case.clone(), 0),
                Ok(Ok(l)) if p.borrow().errors_returned > 0 && l != base => st.viol("reader/silent-wrong-result/large", format!("{} entries listed, failure-free {}", l.len, base.len), case.clone(), 0),
                _ => {}
            }
        }
    } else if let Some(label) = case["reader"].as_str() {
        let mut scns = c09::scenarios(seed, 700);
        scns.extend(extra_reader_scenarios(seed));
        let route = ROUTES.iter().position(|r| Some(*r) == case["route"].as_str()).unwrap_or(0) as u8;
        if let Some(s) = scns.iter().find(|s| s.label == label) {
            if let Ok(b) = run_route(s, route, plan()) {
                check_reader(s, route, &b, &devs, st, 0);
            }
        }
    }
}

pub fn run(args: &Args) -> i32 {
    let mut ctx = crate::new_ctx("C11", args);
    ctx.level = "fault_enumeration";
    crate::util::set_run_level("fault_enumeration");
    // one fault execution takes well under a millisecond: a case that runs for seconds is a call that does not return
    crate::util::set_hang_budget_secs(10);
    let seed = args.seed;
    if let Some(path) = &args.replay {
        return crate::props::replay_file(ctx, path, |c, st| replay(c, st, seed));
    }
    let thorough = args.tier.thorough();
    let src = crate::props::c02::sources(seed);
    let wscn = writer_scenarios(seed, 3);
    let mut rscn = c09::scenarios(seed, 700);
    rscn.extend(extra_reader_scenarios(seed));
    ctx.rule = format!(
        "E-DEV over faults. Writer: every sequence of 1..={} composites over a 12-composite alphabet (plain/compressed/large files, directory, symlink, extra data, aligned, ZipCrypto, raw copy) + finish + explicit drop, and append onto 5 bases (two files, empty, large-file extra data, prefixed foreign, nested archive as last entry) + each composite: {} scenarios. \
         Reader: 10 archives (all methods, ZipCrypto, AE-1, AE-2, prefixed ZIP64, a stored nested archive as last entry, a 3000-byte comment, data descriptors) through the seekable reader, the plain ones also through the streaming loop and the visitor; two archives of 65 536 / 65 540 entries (ZIP64 only because of the count) with faults at each of the first 120 I/O calls of the open and every 9973rd later one, light observation (count, comment, first and last record, last content). For each scenario the failure-free run numbers its N I/O calls; a hard error is injected at EVERY call index, transient (that call only) and sticky (that call and all later ones); \
         all PAIRS of transient faults for scenarios with N <= {}. The script always runs to its end. Oracle: no call panics (incl. finish, Drop for ZipWriter, Drop for ZipFile); if no call reported an error, the result equals the failure-free run's. \
         distinct_nontrivial = distinct (scenario, fault set) executions in which the injected fault was actually reached (counted).",
        3,
        wscn.len(),
        if thorough { 150 } else { 60 }
    );
    ctx.assume("faults are injected at the Read/Write/Seek/flush boundary of the user-supplied stream; the stream itself is left consistent (a failed call transfers nothing)");
    ctx.uncovered("short transfers combined with errors; faults inside extract() (real file system)");
    let pair_limit: u64 = if thorough { 150 } else { 60 };

    // writer baselines
    struct WB {
        n: u64,
        base: (Vec<Res>, Logical),
    }
    let mut wb: Vec<Option<WB>> = vec![];
    for s in &wscn {
        let p = plan();
        let (res, sink) = run_w(s, &src, p.clone());
        let n = p.borrow().calls;
        match (res.iter().all(|r| r.is_ok()), logical(&sink, s.pw)) {
            (true, Ok(l)) => wb.push(Some(WB { n, base: (res, l) })),
            (ok, l) => {
                ctx.machinery(format!("writer scenario {} has no clean failure-free run (calls ok: {ok}, readable: {})", s.label, l.is_ok()));
                wb.push(None);
            }
        }
    }
    let mut witems: Vec<(usize, Vec<(u64, Dev)>)> = vec![];
    for (i, b) in wb.iter().enumerate() {
        let Some(b) = b else { continue };
        for k in 0..b.n {
            witems.push((i, vec![(k, Dev::Err)]));
            witems.push((i, vec![(k, Dev::ErrSticky)]));
        }
        if b.n <= pair_limit {
            for k1 in 0..b.n {
                for k2 in k1 + 1..b.n {
                    witems.push((i, vec![(k1, Dev::Err), (k2, Dev::Err)]));
                    // a short transfer (1 byte accepted) at k1 followed by a hard error at k2
                    witems.push((i, vec![(k1, Dev::Short(1)), (k2, Dev::Err)]));
                }
            }
        }
    }
    ctx.bound("writer_scenarios", json!(wscn.len()));
    ctx.bound("writer_io_calls_per_scenario", json!({"min": wb.iter().flatten().map(|b| b.n).min(), "max": wb.iter().flatten().map(|b| b.n).max()}));
    ctx.bound("writer_fault_executions", json!(witems.len()));
    let (wscn_r, wb_r, src_r) = (&wscn, &wb, &src);
    let wdesc = |t: u64| -> Option<Value> {
        let (i, devs) = witems.get(t as usize)?;
        Some(json!({"writer": wscn_r[*i].label, "faults": devs.iter().map(|(k, d)| json!({"call": k, "kind": format!("{d:?}")})).collect::<Vec<_>>()}))
    };
    let s = crate::util::par_for_desc(witems.len() as u64, 16, &wdesc, |t, st| {
        let (i, devs) = &witems[t as usize];
        if let Some(b) = &wb_r[*i] {
            check_writer(&wscn_r[*i], src_r, &b.base, devs, st, (devs.len() as u64) << 48 | t);
        }
        if t == 3000 {
            st.sample(json!({"writer": wscn_r[*i].label, "faults": format!("{devs:?}")}));
        }
    });
    ctx.stats.merge(s);
    crate::diag!("  [C11] writer side done at {:.1}s ({} executions)", ctx.elapsed(), witems.len());

    // reader
    let mut ritems: Vec<(usize, u8, Vec<(u64, Dev)>)> = vec![];
    let mut rbases: Vec<[Option<(u64, RObs)>; 5]> = vec![];
    for (i, s) in rscn.iter().enumerate() {
        let mut b: [Option<(u64, RObs)>; 5] = [None, None, None, None, None];
        for route in 0..5u8 {
            if route > 0 && !s.stream {
                continue;
            }
            let p = plan();
            match run_route(s, route, p.clone()) {
                Ok(o) if !robs_has_err(&o) && o.entries.len() >= 2 => {
                    let n = p.borrow().calls;
                    for k in 0..n {
                        ritems.push((i, route, vec![(k, Dev::Err)]));
                        ritems.push((i, route, vec![(k, Dev::ErrSticky)]));
                    }
                    if n <= pair_limit * 3 {
                        for k1 in 0..n {
                            for k2 in k1 + 1..n {
                                ritems.push((i, route, vec![(k1, Dev::Err), (k2, Dev::Err)]));
                            }
                        }
                    }
                    b[route as usize] = Some((n, o));
                }
                other => ctx.machinery(format!("reader scenario {} route {route} has no clean failure-free run: {:?}", s.label, other.map(|o| o.open))),
            }
        }
        rbases.push(b);
    }
    ctx.bound("reader_fault_executions", json!(ritems.len()));
    ctx.bound("reader_io_calls", json!(rbases.iter().flat_map(|b| b.iter().flatten().map(|x| x.0)).collect::<Vec<_>>()));
    let (rscn_r, rb_r) = (&rscn, &rbases);
    let rdesc = |t: u64| -> Option<Value> {
        let (i, route, devs) = ritems.get(t as usize)?;
        let rname = ROUTES[*route as usize];
        Some(json!({"reader": rscn_r[*i].label, "route": rname, "faults": devs.iter().map(|(k, d)| json!({"call": k, "kind": format!("{d:?}")})).collect::<Vec<_>>()}))
    };
    let s = crate::util::par_for_desc(ritems.len() as u64, 16, &rdesc, |t, st| {
        let (i, route, devs) = &ritems[t as usize];
        if let Some((_, b)) = &rb_r[*i][*route as usize] {
            check_reader(&rscn_r[*i], *route, b, devs, st, (1 << 60) | (devs.len() as u64) << 48 | t);
        }
        if t == 100 {
            st.sample(json!({"reader": rscn_r[*i].label, "route": route, "faults": format!("{devs:?}")}));
        }
    });
    ctx.stats.merge(s);
    crate::diag!("  [C11] reader side done at {:.1}s ({} executions)", ctx.elapsed(), ritems.len());

    // archives that are ZIP64 only because of their entry count (65 536 and 65 540 entries): the classic end record then
    // holds real offsets next to a saturated count. Faults at each of the first 120 I/O calls of the open (end-record search,
    // locator probe, ZIP64 record, first directory records) and at every 9973rd call after that; light observation.
    {
        let mut big: Vec<(String, std::sync::Arc<Vec<u8>>)> = vec![];
        for n in [65_536usize, 65_540] {
            let mut calls = vec![Call::SetComment(b"many".to_vec())];
            for i in 0..n {
                calls.push(Call::StartFile { name: format!("n{i}"), opts: FOpts::m(0) });
                if i + 1 == n {
                    calls.push(Call::Write(b"the last entry".to_vec()));
                }
            }
            calls.push(Call::Finish);
            big.push((format!("{n}-entries"), std::sync::Arc::new(exec(&calls, &[]).1)));
        }
        let mut litems: Vec<(usize, u64, Dev)> = vec![];
        let mut lbase: Vec<Option<Light>> = vec![];
        for (bi, (label, bytes)) in big.iter().enumerate() {
            let p = plan();
            p.borrow_mut().record_kinds = false;
            match run_light(bytes, p.clone()) {
                Ok(Ok(l)) => {
                    let n = p.borrow().calls;
                    for k in (0..n.min(120)).chain((120..n).step_by(9973)) {
                        litems.push((bi, k, Dev::Err));
                        litems.push((bi, k, Dev::ErrSticky));
                    }
                    lbase.push(Some(l));
                }
                other => {
                    ctx.machinery(format!("large archive {label} has no clean failure-free run: {:?}", other.map(|r| r.map(|_| ()))));
                    lbase.push(None);
                }
            }
        }
        ctx.bound("large_archive_fault_executions", json!(litems.len()));
        let (big_r, lbase_r, litems_r) = (&big, &lbase, &litems);
        let ldesc = |t: u64| -> Option<Value> {
            let (bi, k, d) = litems_r.get(t as usize)?;
            Some(json!({"large": big_r[*bi].0, "faults": [{"call": k, "kind": format!("{d:?}")}]}))
        };
        let s = crate::util::par_for_desc(litems.len() as u64, 1, &ldesc, |t, st| {
            let (bi, k, d) = litems_r[t as usize];
            let Some(base) = &lbase_r[bi] else { return };
            st.evals += 1;
            let p = plan();
            p.borrow_mut().record_kinds = false;
            p.borrow_mut().devs.insert(k, d);
            let case = || json!({"large": big_r[bi].0, "faults": [{"call": k, "kind": format!("{d:?}")}]});
            match run_light(&big_r[bi].1, p.clone()) {
                Err(pn) => st.viol(format!("reader/panic/large/{}", panic_site(&pn)), format!("{}: with ({k}, {d:?}) the reader panicked: {pn}", big_r[bi].0), case(), (2 << 60) | t),
                Ok(Err(_)) => st.class("error-reported"),
                Ok(Ok(l)) => {
                    if p.borrow().errors_returned == 0 {
                        st.class("fault-not-reached");
                    } else if l == *base {
                        st.class("silent-but-identical");
                    } else {
                        st.class("SILENT-WRONG-RESULT");
                        st.viol(
                            "reader/silent-wrong-result/large",
                            format!("{}: ({k}, {d:?}) injected, no call reported an error, but the archive now lists {} entries (failure-free: {}), first record at {}, last entry {:?}", big_r[bi].0, l.len, base.len, l.first.1, l.last.0),
                            case(),
                            (2 << 60) | t,
                        );
                    }
                }
            }
        });
        ctx.stats.merge(s);
        crate::diag!("  [C11] large archives done at {:.1}s ({} executions)", ctx.elapsed(), litems.len());
    }

    let reached = ctx.stats.evals - ctx.stats.classes.get("fault-not-reached").copied().unwrap_or(0);
    ctx.distinct_counted = reached;
    ctx.stats.states = reached;
    ctx.stats.transitions = ctx.stats.evals;
    ctx.stats.traces = ctx.stats.evals;
    ctx.bound("deviation_bound_completed", json!("1 on every scenario, 2 on scenarios below the pair limit"));
    ctx.finish()
}

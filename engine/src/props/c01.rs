//! C01 — write then read returns exactly what was written.
//! E-PROD over writer programs (entry lists over class alphabets + full sweeps of permission
//! bits, date words and time words), each finished by finish() and by drop; the program itself
//! is the reference model, the crate's seekable reader is the subject on the read side.

use crate::reference::crc32;
use crate::util::{fnv, panic_site, par_for, Stats};
use crate::zipapi::*;
use crate::Args;
use serde_json::{json, Value};
use std::io::Cursor;

#[derive(Clone, Debug)]
pub struct E {
    /// 0 file, 1 directory, 2 symlink; neighbours of another making (they sit between the entries the statement names, and
    /// what is judged of them is name, content, sizes and CRC): 3 a raw copy of `neighbour_source()`'s entry under this name
    /// (`content` holds that entry's content), 4 a file with a shared extra-data block, 5 a file aligned to 64 bytes
    pub kind: u8,
    pub name: String,
    /// file content, or symlink target bytes (UTF-8)
    pub content: Vec<u8>,
    pub opts: FOpts,
}

impl E {
    pub fn to_json(&self) -> Value {
        json!({"kind": self.kind, "name": name_json(&self.name), "content": bytes_json(&self.content), "opts": self.opts.to_json()})
    }
    pub fn from_json(v: &Value, seed: u64) -> E {
        let regen = move |n: usize| regen_content(n, seed);
        E {
            kind: v["kind"].as_u64().unwrap_or(0) as u8,
            name: name_from_json(&v["name"]),
            content: bytes_from_json(&v["content"], &regen),
            opts: FOpts::from_json(&v["opts"]),
        }
    }
    pub fn calls(&self) -> Vec<Call> {
        match self.kind {
            0 => vec![Call::StartFile { name: self.name.clone(), opts: self.opts.clone() }, Call::Write(self.content.clone())],
            1 => vec![Call::AddDir { name: self.name.clone(), opts: self.opts.clone() }],
            3 => vec![Call::RawCopy { src: 0, idx: 0, rename: Some(self.name.clone()), raw_open: false }],
            4 => vec![
                Call::StartExtra { name: self.name.clone(), opts: self.opts.clone() },
                Call::Write(crate::reference::zipbuild::extra_block(0xbeef, b"c01 neighbour")),
                Call::EndExtra,
                Call::Write(self.content.clone()),
            ],
            5 => vec![Call::StartAligned { name: self.name.clone(), opts: self.opts.clone(), align: 64 }, Call::Write(self.content.clone())],
            _ => vec![Call::AddSymlink {
                name: self.name.clone(),
                target: String::from_utf8_lossy(&self.content).into_owned(),
                opts: self.opts.clone(),
            }],
        }
    }
    pub fn expected_name(&self) -> String {
        if self.kind == 1 {
            dir_name(&self.name)
        } else {
            self.name.clone()
        }
    }
    pub fn expected_content(&self) -> &[u8] {
        if self.kind == 1 {
            &[]
        } else {
            &self.content
        }
    }
    pub fn expected_method(&self) -> u16 {
        match self.kind {
            0 | 4 | 5 => self.opts.method,
            3 => 8,
            _ => 0,
        }
    }
    pub fn kind_name(&self) -> &'static str {
        ["file", "dir", "symlink", "raw-copy", "file+extra", "file-aligned"][(self.kind as usize).min(5)]
    }
}

/// The archive that raw-copy neighbours are taken from (reference builder: one deflated entry), and that entry's content.
pub fn neighbour_source() -> (Vec<u8>, Vec<u8>) {
    use crate::reference::zipbuild::{build, ESpec, Spec};
    let content: Vec<u8> = (0..3000u32).map(|i| b'a' + (i % 7) as u8 + ((i / 500) as u8)).collect();
    (build(&Spec { entries: vec![ESpec { name: b"source/entry.bin".to_vec(), method: 8, content: content.clone(), ..Default::default() }], ..Default::default() }).0, content)
}

pub fn regen_content(n: usize, seed: u64) -> Vec<u8> {
    // (replays of size-boundary cases regenerate the seed-derived payload; the repeating one is found by the same sweep)
    match n {
        70_001 => content_class(4, seed),
        x if x == 3 << 20 => content_class(5, seed),
        300 => content_class(3, seed),
        x => vec![b'q'; x],
    }
}

#[derive(Clone, Debug)]
pub struct Program {
    pub entries: Vec<E>,
    pub comment: Option<Vec<u8>>,
    /// set the comment after the entries instead of before
    pub comment_last: bool,
}
impl Program {
    pub fn to_json(&self) -> Value {
        json!({"entries": self.entries.iter().map(|e| e.to_json()).collect::<Vec<_>>(),
               "comment": self.comment.as_ref().map(|c| bytes_json(c)), "comment_last": self.comment_last})
    }
    pub fn from_json(v: &Value, seed: u64) -> Program {
        let regen = move |n: usize| regen_content(n, seed);
        Program {
            entries: v["entries"].as_array().map(|a| a.iter().map(|e| E::from_json(e, seed)).collect()).unwrap_or_default(),
            comment: if v["comment"].is_null() { None } else { Some(bytes_from_json(&v["comment"], &regen)) },
            comment_last: v["comment_last"].as_bool().unwrap_or(false),
        }
    }
    /// the source archives the program's raw copies read from (none unless an entry of kind 3 is present)
    pub fn sources(&self) -> Vec<Vec<u8>> {
        if self.entries.iter().any(|e| e.kind == 3) {
            vec![neighbour_source().0]
        } else {
            vec![]
        }
    }
    pub fn calls(&self, finish: bool) -> Vec<Call> {
        let mut c = vec![];
        if let (Some(cm), false) = (&self.comment, self.comment_last) {
            c.push(Call::SetComment(cm.clone()));
        }
        for e in &self.entries {
            c.extend(e.calls());
        }
        if let (Some(cm), true) = (&self.comment, self.comment_last) {
            c.push(Call::SetComment(cm.clone()));
        }
        c.push(if finish { Call::Finish } else { Call::Drop });
        c
    }
}

fn mname(m: u16) -> &'static str {
    match m {
        0 => "stored",
        8 => "deflated",
        12 => "bzip2",
        93 => "zstd",
        _ => "other",
    }
}

/// Run one program both ways and compare with the model. Returns the produced bytes when the
/// write side succeeded (for secondary oracles).
pub fn check_program(p: &Program, st: &mut Stats, order: u64, part: &str) -> Option<Vec<u8>> {
    st.evals += 1;
    let case = || json!({"kind": "program", "program": p.to_json()});
    let calls_f = p.calls(true);
    let srcs = p.sources();
    let (res_f, bytes_f) = exec(&calls_f, &srcs);
    for (c, r) in calls_f.iter().zip(&res_f) {
        match r {
            Res::Ok(_) => {}
            Res::Panic(pn) => {
                st.class("write-panic");
                st.viol(format!("write/panic/{}/{}", c.opname(), panic_site(pn)), format!("{} panicked: {pn} [{part}]", c.opname()), case(), order);
                return None;
            }
            Res::Err(e) => {
                st.class("write-err");
                let kinds: Vec<String> = p.entries.iter().map(|e| format!("{}:{}", e.kind, mname(e.opts.method))).collect();
                st.viol(
                    format!("write/valid-call-failed/{}/{}", c.opname(), panic_site(e)),
                    format!("{} returned Err({e}) for a valid program ({}) [{part}]", c.opname(), kinds.join(",")),
                    case(),
                    order,
                );
                return None;
            }
        }
    }
    let calls_d = p.calls(false);
    let (res_d, bytes_d) = exec(&calls_d, &srcs);
    if let Some((c, r)) = calls_d.iter().zip(&res_d).find(|(_, r)| !r.is_ok()) {
        st.class("drop-variant-failed");
        st.viol(
            format!("drop/step-failed/{}/{}", c.opname(), r.class()),
            format!("drop variant: {} gave {} [{part}]", c.opname(), r.show()),
            case(),
            order,
        );
        return None;
    }
    if bytes_f != bytes_d {
        st.class("finish-drop-differ");
        st.viol(
            "finish-vs-drop/bytes-differ",
            format!("finish() produced {} bytes, drop produced {} bytes, contents differ [{part}]", bytes_f.len(), bytes_d.len()),
            case(),
            order,
        );
        return None;
    }
    st.distinct_hash(fnv(&bytes_f));
    // read side
    let obs = match observe(&bytes_f, None, 64 << 20) {
        Ok(o) => o,
        Err(RErr::Panic(pn)) => {
            st.class("read-panic");
            st.viol(format!("read/panic/{}", panic_site(&pn)), format!("reader panicked on writer output: {pn} [{part}]"), case(), order);
            return Some(bytes_f);
        }
        Err(RErr::Open(e)) => {
            st.class("read-open-failed");
            st.viol(
                format!("read/open-failed/{}", panic_site(&e)),
                format!("reader rejects the writer's output: {e} [{part}]"),
                case(),
                order,
            );
            return Some(bytes_f);
        }
    };
    // (a handful of reports per program is enough: a 65 537-entry program read wrongly is wrong 65 537 times, and each report
    // renders the whole program)
    let reported = std::cell::Cell::new(0u32);
    let mut bad = |field: &str, e: Option<&E>, detail: String, st: &mut Stats| {
        reported.set(reported.get() + 1);
        if reported.get() > 6 {
            return;
        }
        let d = match e {
            Some(e) => format!("{}:{}", e.kind_name(), mname(e.expected_method())),
            None => "archive".to_string(),
        };
        st.viol(format!("readback/{field}/{d}"), format!("{detail} [{part}]"), case(), order);
    };
    let want_comment: &[u8] = p.comment.as_deref().unwrap_or(&[]);
    let mut ok = true;
    if obs.comment != want_comment {
        ok = false;
        bad("comment", None, format!("comment read back as {} bytes, written {}", obs.comment.len(), want_comment.len()), st);
    }
    if obs.entries.len() != p.entries.len() {
        ok = false;
        bad("count", None, format!("{} entries read back, {} written", obs.entries.len(), p.entries.len()), st);
    }
    if obs.offset != 0 {
        ok = false;
        bad("offset", None, format!("offset() = {}", obs.offset), st);
    }
    for (e, o) in p.entries.iter().zip(&obs.entries) {
        let content = e.expected_content();
        if o.name != e.expected_name() {
            ok = false;
            bad("name", Some(e), format!("name {:?} read back as {:?}", crate::util::show(e.expected_name().as_bytes()), crate::util::show(o.name.as_bytes())), st);
        }
        // a directory or symlink added with options that name a compressing method: the statement does not say which
        // method such an entry then reports (the crate stores it); only files are judged on the method
        let method_free = e.kind != 0 && e.opts.method != 0;
        if !method_free && o.method != e.expected_method() {
            ok = false;
            bad("method", Some(e), format!("method {} read back as {}", e.expected_method(), o.method), st);
        }
        if e.kind != 3 && (o.date, o.time) != (e.opts.date, e.opts.time) {
            ok = false;
            bad("timestamp", Some(e), format!("DOS stamp ({:#06x},{:#06x}) read back as ({:#06x},{:#06x})", e.opts.date, e.opts.time, o.date, o.time), st);
        }
        let want_mode = expected_mode(if e.kind >= 3 { 0 } else { e.kind }, e.opts.perm);
        if e.kind != 3 && o.mode != Some(want_mode) {
            ok = false;
            bad("unix_mode", Some(e), format!("unix mode {:o} read back as {:?} (octal {})", want_mode, o.mode, o.mode.map(|m| format!("{m:o}")).unwrap_or_default()), st);
        }
        if o.size != content.len() as u64 {
            ok = false;
            bad("size", Some(e), format!("size {} read back as {}", content.len(), o.size), st);
        }
        let want_crc = crc32::crc32(content);
        if o.crc != want_crc {
            ok = false;
            bad("crc32", Some(e), format!("crc {want_crc:#010x} read back as {:#010x}", o.crc), st);
        }
        match &o.raw {
            Ok(r) => {
                if r.len() as u64 != o.csize {
                    ok = false;
                    bad("compressed_size", Some(e), format!("compressed_size() = {} but {} raw bytes", o.csize, r.len()), st);
                }
                if e.expected_method() == 0 && o.method == 0 && r.as_slice() != content {
                    ok = false;
                    bad("raw-stored", Some(e), "stored bytes differ from the content".into(), st);
                }
            }
            Err(er) => {
                ok = false;
                bad("raw-read", Some(e), format!("raw read failed: {er}"), st);
            }
        }
        match &o.content {
            Ok(c) => {
                if c.as_slice() != content {
                    ok = false;
                    bad("content", Some(e), format!("content differs ({} bytes read, {} written)", c.len(), content.len()), st);
                }
            }
            Err(er) => {
                ok = false;
                bad("content-read", Some(e), format!("reading the entry failed: {er}"), st);
            }
        }
    }
    let rich = p.comment.is_some() || !matches!(part, "date-sweep" | "time-sweep" | "perm-sweep") || order % 64 == 0;
    // the same program with every FileOptions setter called twice (another value first) and with every write handed over
    // through write_vectored: byte-identical archives
    if rich && p.entries.len() < 1000 && bytes_f.len() < 100_000 {
        let (r2, b2) = with_setters_twice(|| exec(&calls_f, &srcs));
        if r2 != res_f || b2 != bytes_f {
            ok = false;
            bad("options-set-twice", None, "with every FileOptions setter called twice (the earlier value first) the archive differs".into(), st);
        }
        let (r3, b3) = with_vectored_writes(|| exec(&calls_f, &srcs));
        if r3 != res_f || !same_archive_modulo_compression(&b3, &bytes_f) {
            ok = false;
            bad("write_vectored", None, "with the contents handed over through write_vectored the archive differs (in more than the compressed form)".into(), st);
        }
    }
    // contents handed over through write_vectored into a sink that answers ONE write call with ErrorKind::Interrupted (nothing
    // taken; the caller calls again, as std's write_all_vectored does) - at every write-call index: no byte may be written twice
    // (zstd's upper levels set up a very large match finder on every start_file: those programs are left to the plain runs)
    let cheap_codec = p.entries.iter().all(|e| !(e.opts.method == 93 && e.opts.level.map_or(false, |l| l > 12)));
    if matches!(part, "method-level" | "size-neutral-contents" | "comments") && bytes_f.len() < 3_000 && cheap_codec {
        use crate::sio::inst::{plan, Dev, Kind};
        let p0 = plan();
        let (rb, bb) = with_vectored_writes(|| exec_plan(&calls_f, &srcs, p0.clone()));
        let kinds = p0.borrow().kinds.clone();
        if rb.iter().all(|r| r.is_ok()) {
            for (k, kind) in kinds.iter().enumerate() {
                if *kind != Kind::Write {
                    continue;
                }
                let pk = plan();
                pk.borrow_mut().record_kinds = false;
                pk.borrow_mut().devs.insert(k as u64, Dev::Interrupted);
                let (rk, bk) = with_vectored_writes(|| exec_plan(&calls_f, &srcs, pk));
                st.evals += 1;
                // an Interrupted that a compressor back end hands on as an error is "an error reported": not judged
                if rk.iter().all(|r| r.is_ok()) && !same_archive_modulo_compression(&bk, &bb) {
                    ok = false;
                    bad("write_vectored+interrupted", None, format!("contents handed over through write_vectored, sink write call {k} answered Interrupted once and was retried: every call succeeded but the archive differs from the uninterrupted one"), st);
                    break;
                }
                // the same interruption, the writer completed by drop instead of finish() (plain writes): identical bytes
                if rk.iter().all(|r| r.is_ok()) && p.entries.iter().all(|e| e.opts.level.is_none() || e.opts.method == 0) {
                    let mk = || {
                        let pk = plan();
                        pk.borrow_mut().record_kinds = false;
                        pk.borrow_mut().devs.insert(k as u64, Dev::Interrupted);
                        pk
                    };
                    let (rf, bf) = exec_plan(&calls_f, &srcs, mk());
                    let (rd, bd) = exec_plan(&calls_d, &srcs, mk());
                    st.evals += 2;
                    if rf.iter().all(|r| r.is_ok()) && rd.iter().all(|r| r.is_ok()) && bf != bd {
                        ok = false;
                        bad("finish-vs-drop/interrupted", None, format!("sink write call {k} answered Interrupted once (retried by the caller's write_all): finish() left {} bytes, drop left {} bytes", bf.len(), bd.len()), st);
                        break;
                    }
                }
            }
        }
    }
    // the same bytes through sources that hand out data in pieces (a Read + Seek source may return short reads), and
    // the lookups by name for names written exactly once (duplicates: C03 states which one wins)
    if rich && p.entries.len() < 1000 {
        let mut via: Vec<(String, Result<ObsArchive, RErr>)> = vec![];
        let chunks: &[usize] = if bytes_f.len() <= 1500 { &[1, 7] } else { &[4093] };
        for &c in chunks {
            let plan = crate::sio::inst::plan();
            plan.borrow_mut().chunk = Some(c);
            plan.borrow_mut().record_kinds = false;
            via.push((format!("chunk-{c}"), observe_r(crate::sio::inst::Inst::new(bytes_f.clone(), plan), None, 64 << 20)));
        }
        via.push(("BufReader".into(), observe_r(std::io::BufReader::new(Cursor::new(bytes_f.clone())), None, 64 << 20)));
        if bytes_f.len() > 64 {
            via.push(("BufReader-61".into(), observe_r(std::io::BufReader::with_capacity(61, Cursor::new(bytes_f.clone())), None, 64 << 20)));
        }
        for (label, r) in via {
            match r {
                Ok(o2) => {
                    if o2.comment != obs.comment {
                        ok = false;
                        bad(&format!("via-{label}/comment"), None, format!("read through {label}: comment of {} bytes, {} through a cursor", o2.comment.len(), obs.comment.len()), st);
                    } else if o2.entries != obs.entries || o2.offset != obs.offset {
                        ok = false;
                        let k = o2.entries.iter().zip(&obs.entries).position(|(a, b)| a != b);
                        bad(&format!("via-{label}/entries"), None, format!("read through {label}: entries differ from the cursor read (first differing index {k:?}, {} vs {} entries)", o2.entries.len(), obs.entries.len()), st);
                    }
                }
                Err(e) => {
                    ok = false;
                    bad(&format!("via-{label}/open"), None, format!("read through {label} failed: {e:?}"), st);
                }
            }
        }
    }
    if rich {
        if let Ok(Ok(mut ar)) = crate::util::guard(|| zip::ZipArchive::new(Cursor::new(bytes_f.as_slice()))) {
            let mut count: std::collections::HashMap<String, usize> = Default::default();
            for e in &p.entries {
                *count.entry(e.expected_name()).or_default() += 1;
            }
            let n = p.entries.len();
            for (i, e) in p.entries.iter().enumerate() {
                if n > 1000 && i > 2 && i + 3 < n {
                    continue;
                }
                let name = e.expected_name();
                if count[&name] != 1 {
                    continue;
                }
                let got = crate::util::guard(|| ar.by_name(&name).map(|f| (f.name().to_string(), f.size(), f.crc32())));
                match got {
                    Ok(Ok((gn, gs, gc))) => {
                        if gn != name || gs != e.expected_content().len() as u64 || gc != crc32::crc32(e.expected_content()) {
                            ok = false;
                            bad("by_name/other-entry", Some(e), format!("by_name({:?}) returned the entry named {:?} (size {gs})", crate::util::show(name.as_bytes()), crate::util::show(gn.as_bytes())), st);
                        }
                    }
                    Ok(Err(er)) => {
                        ok = false;
                        bad("by_name/failed", Some(e), format!("by_name({:?}) of a name written once: {er}", crate::util::show(name.as_bytes())), st);
                    }
                    Err(pn) => {
                        ok = false;
                        bad("by_name/panic", Some(e), format!("by_name panicked: {pn}"), st);
                    }
                }
            }
            if n <= 1000 {
                let got: std::collections::BTreeSet<String> = ar.file_names().map(|x| x.to_string()).collect();
                let want: std::collections::BTreeSet<String> = count.keys().cloned().collect();
                if got != want {
                    ok = false;
                    bad("file_names", None, format!("file_names() lists {} names, {} distinct names were written", got.len(), want.len()), st);
                }
            }
        }
    }
    if ok {
        let first = p.entries.first().map(|e| format!("{}:{}", e.kind_name(), mname(e.expected_method()))).unwrap_or("empty".into());
        st.class(&format!("roundtrip-ok/{}-entries/first={first}", p.entries.len()));
    } else {
        st.class("roundtrip-mismatch");
    }
    Some(bytes_f)
}

// ---------------------------------------------------------------------------------------------
// alphabets

pub fn names() -> Vec<String> {
    vec![
        "a".into(),
        "d/b.txt".into(),
        "ü☃🐢".into(),
        "".into(),
        "a\0b".into(),
        "a\\b".into(),
        "n".repeat(255),
        "n".repeat(65535),
        "w\\".into(),
        "s/".into(),
    ]
}
pub fn times() -> Vec<(u16, u16)> {
    // (date, time): 1980-01-01 00:00:00 ; 2107-12-31 23:59:58 ; odd second / second 60 are constructor-level
    // (C18); on the wire: all-zero words, all-one words, a second field of 30 (= 60 s)
    vec![(0x0021, 0x0000), (0xff9f, 0xbf7d), (0x0000, 0x0000), (0xffff, 0xffff), (0x5821, 0x601e)]
}
fn reduced_ml() -> Vec<(u16, Option<i32>)> {
    vec![(0, None), (8, None), (8, Some(0)), (8, Some(9)), (12, None), (12, Some(1)), (93, None), (93, Some(-7))]
}

/// Mixed-radix decode.
fn digits(mut i: u64, radices: &[u64]) -> Vec<usize> {
    let mut out = vec![0; radices.len()];
    for (k, r) in radices.iter().enumerate().rev() {
        out[k] = (i % r) as usize;
        i /= r;
    }
    out
}

pub fn entry_alphabet(seed: u64, size: usize) -> Vec<E> {
    // a fixed, simplest-first list of entries covering every class at least once; `size` picks a prefix
    let nm = names();
    let mut v = vec![];
    let f = |kind: u8, name: &str, class: usize, m: u16, l: Option<i32>, perm: Option<u32>, large: bool, t: (u16, u16)| E {
        kind,
        name: name.to_string(),
        content: if kind == 2 { b"../t/\xc3\xbc".to_vec() } else { content_class(class, seed) },
        opts: FOpts { method: m, level: l, date: t.0, time: t.1, perm, large, password: None },
    };
    let t = times();
    v.push(f(0, "a", 2, 0, None, None, false, t[0]));
    v.push(f(0, "b", 3, 8, None, None, false, t[1]));
    v.push(f(1, "d", 0, 0, None, None, false, t[0]));
    v.push(f(2, "l", 0, 0, None, None, false, t[0]));
    v.push(f(0, "a", 0, 0, None, Some(0o755), false, t[2]));
    v.push(f(0, &nm[2], 1, 12, None, Some(0), true, t[3]));
    v.push(f(0, "", 3, 93, None, None, false, t[4]));
    v.push(f(0, "d/b.txt", 4, 8, Some(9), Some(0o600), true, t[1]));
    v.push(f(1, "d/", 0, 0, None, Some(0o700), true, t[1]));
    v.push(f(2, &nm[2], 0, 0, None, Some(0o644), true, t[3]));
    v.push(f(0, &nm[4], 2, 0, None, None, true, t[0]));
    v.push(f(0, &nm[5], 0, 8, Some(0), None, false, t[0]));
    // beyond 12: more variety for the larger alphabets
    let ml = all_method_levels();
    let mut k = 0usize;
    while v.len() < size {
        let (m, l) = ml[k % ml.len()];
        let name = &nm[[0, 1, 2, 3, 4, 5, 6, 8, 9][k % 9]];
        let class = k % 5;
        let kind = if k % 11 == 10 { 1 } else if k % 13 == 12 { 2 } else { 0 };
        v.push(f(kind, name, class, if kind == 0 { m } else { 0 }, if kind == 0 { l } else { None }, [None, Some(0o777), Some(0o400)][k % 3], k % 4 == 3, t[k % t.len()]));
        k += 1;
    }
    v.truncate(size);
    v
}

fn replay(case: &Value, st: &mut Stats, seed: u64) {
    let p = Program::from_json(&case["program"], seed);
    check_program(&p, st, 0, "replay");
}

/// Enumerate the whole C01 program space, calling `f` on every program. Shared with C02.
pub fn enumerate(thorough: bool, seed: u64, f: &(dyn Fn(&Program, u64, &str, &mut Stats) + Sync)) -> (Stats, serde_json::Map<String, Value>) {
    let mut total_stats = Stats::default();
    let t_start = std::time::Instant::now();
    let mut bounds = serde_json::Map::new();
    let nm = names();
    let tms = times();
    let rml = reduced_ml();
    let perms = [None, Some(0u32), Some(0o777)];
    let n_content = if thorough { 6 } else { 5 };
    let one = |e: E| Program { entries: vec![e], comment: None, comment_last: false };

    // (1) length-1 full product
    let rad = [3u64, n_content as u64, nm.len() as u64, rml.len() as u64, 2, 3, tms.len() as u64];
    let total: u64 = rad.iter().product();
    bounds.insert("len1_product".into(), json!({"kind":3,"content":n_content,"name":nm.len(),"method_level":rml.len(),"large":2,"perm":3,"time":tms.len(),"total":total}));
    let s = par_for(total, 8, |i, st| {
        let d = digits(i, &rad);
        let kind = d[0] as u8;
        // directories have no content, symlink targets come from a 2-element set
        let content = match kind {
            0 => content_class(d[1], seed),
            1 => {
                if d[1] != 0 {
                    return;
                }
                vec![]
            }
            _ => match d[1] {
                0 => b"t".to_vec(),
                1 => "../x/ü".as_bytes().to_vec(),
                _ => return,
            },
        };
        let (m, l) = rml[d[3]];
        // directories and symlinks take the same FileOptions as files (one shared options value for a whole tree is
        // the common way to call the writer): every method/level of the reduced set for them too, on the first
        // name/time/large digits only
        if kind != 0 && d[3] != 0 && (d[4] != 0 || d[6] != 0 || d[2] > 1) {
            return;
        }
        // a directory name gains a '/': 65535 + 1 bytes is outside the format (C02's domain)
        if kind == 1 && nm[d[2]].len() >= 65535 {
            return;
        }
        let e = E {
            kind,
            name: nm[d[2]].clone(),
            content,
            opts: FOpts { method: m, level: l, date: tms[d[6]].0, time: tms[d[6]].1, perm: perms[d[5]], large: d[4] == 1, password: None },
        };
        let p = one(e);
        f(&p, i, "len1-product", st);
        if i == 7 {
            st.sample(p.to_json());
        }
    });
    total_stats.merge(s);
    crate::diag!("  [C01/C02] program space: step {} done at {:.1}s ({} evaluations so far)", line!(), t_start.elapsed().as_secs_f64(), total_stats.evals);

    // (2) all permission values x kinds
    let s = par_for(512 * 3, 16, |i, st| {
        let kind = (i / 512) as u8;
        let perm = (i % 512) as u32;
        let e = E { kind, name: "p".into(), content: b"xy".to_vec(), opts: FOpts { perm: Some(perm), ..FOpts::m(0) } };
        f(&one(e), (1 << 32) + i, "perm-sweep", st);
    });
    total_stats.merge(s);
    crate::diag!("  [C01/C02] program space: step {} done at {:.1}s ({} evaluations so far)", line!(), t_start.elapsed().as_secs_f64(), total_stats.evals);
    bounds.insert("perm_sweep".into(), json!("all 512 values x {file,dir,symlink}"));

    // (3) date/time sweeps
    let fixed_t = [0u16, 0x6000, 0xffff];
    let fixed_d = [0u16, 0x5821, 0xffff];
    let s = par_for(65536, 64, |w, st| {
        let w = w as u16;
        for &t in &fixed_t {
            let e = E { kind: 0, name: "t".into(), content: b"z".to_vec(), opts: FOpts { date: w, time: t, ..FOpts::m(0) } };
            f(&one(e), (2 << 32) + w as u64, "date-sweep", st);
        }
        for &d in &fixed_d {
            let e = E { kind: 0, name: "t".into(), content: b"z".to_vec(), opts: FOpts { date: d, time: w, ..FOpts::m(0) } };
            f(&one(e), (2 << 32) + w as u64, "time-sweep", st);
        }
    });
    total_stats.merge(s);
    crate::diag!("  [C01/C02] program space: step {} done at {:.1}s ({} evaluations so far)", line!(), t_start.elapsed().as_secs_f64(), total_stats.evals);
    bounds.insert("timestamp_sweep".into(), json!("all 2^16 date words x 3 time words + 3 date words x all 2^16 time words"));

    // (4) every documented method/level x content class
    let ml = all_method_levels();
    let s = par_for((ml.len() * n_content) as u64, 1, |i, st| {
        let (m, l) = ml[i as usize / n_content];
        let e = E { kind: 0, name: "m".into(), content: content_class(i as usize % n_content, seed), opts: FOpts { level: l, ..FOpts::m(m) } };
        let p = Program { entries: vec![e], comment: Some(b"c".to_vec()), comment_last: true };
        f(&p, (3 << 32) + i, "method-level", st);
        if i == 40 {
            st.sample(p.to_json());
        }
    });
    total_stats.merge(s);
    crate::diag!("  [C01/C02] program space: step {} done at {:.1}s ({} evaluations so far)", line!(), t_start.elapsed().as_secs_f64(), total_stats.evals);
    bounds.insert("method_level".into(), json!(format!("{} documented (method, level) pairs x {} content classes", ml.len(), n_content)));

    // (4b) content sizes at and around internal buffer boundaries, every method, compressible and not
    let sizes: Vec<usize> = vec![2, 15, 16, 255, 256, 257, 4095, 4096, 4097, 8191, 8192, 16384, 32767, 32768, 32769, 65535, 65536, 65537, 131071, 131072, 131073, 262144, 1048575, 1048577, 1572864];
    let nsz = sizes.len();
    let s = par_for((nsz * 4 * 2) as u64, 1, |i, st| {
        let i = i as usize;
        let n = sizes[i % nsz];
        let m = [0u16, 8, 12, 93][(i / nsz) % 4];
        let random = i / (nsz * 4) == 1;
        let content = if random { crate::util::Rng(seed ^ n as u64).bytes(n) } else { (0..n).map(|k| b"abcdefgh"[k % 8]).collect() };
        let e = E { kind: 0, name: format!("sz{n}"), content, opts: FOpts::m(m) };
        f(&one(e), (8 << 32) + i as u64, "size-boundaries", st);
    });
    total_stats.merge(s);
    crate::diag!("  [C01/C02] program space: step {} done at {:.1}s ({} evaluations so far)", line!(), t_start.elapsed().as_secs_f64(), total_stats.evals);
    bounds.insert("size_boundaries".into(), json!({"sizes": sizes, "methods": 4, "payloads": ["repeating", "seed-derived incompressible"]}));

    // (5) comments at length 0 and 1
    let comments: Vec<Option<Vec<u8>>> = vec![None, Some(vec![]), Some(b"c".to_vec()), Some(vec![b'k'; 65535]), Some("ü☃".as_bytes().to_vec())];
    let base = entry_alphabet(seed, 12);
    let s = par_for((comments.len() * 2 * 13) as u64, 1, |i, st| {
        let c = comments[i as usize % comments.len()].clone();
        let last = (i as usize / comments.len()) % 2 == 1;
        let k = i as usize / (comments.len() * 2);
        let entries = if k == 0 { vec![] } else { vec![base[k - 1].clone()] };
        f(&Program { entries, comment: c, comment_last: last }, (4 << 32) + i, "comments", st);
    });
    total_stats.merge(s);
    crate::diag!("  [C01/C02] program space: step {} done at {:.1}s ({} evaluations so far)", line!(), t_start.elapsed().as_secs_f64(), total_stats.evals);
    bounds.insert("comments".into(), json!("{none, empty, 1 byte, 65535 bytes, non-ASCII} x {set before, set after} x {no entry, each of 12 base entries}"));

    // (6) entry lists of length 2, 3 (4)
    let (a2, a3, a4) = if thorough { (120usize, 30usize, 8usize) } else { (40, 12, 0) };
    bounds.insert("lists".into(), json!({"len2_alphabet": a2, "len3_alphabet": a3, "len4_alphabet": a4, "comment_variants": 2}));
    let alpha2 = entry_alphabet(seed, a2);
    let s = par_for((a2 * a2 * 2) as u64, 4, |i, st| {
        let c = if i % 2 == 0 { None } else { Some(b"two".to_vec()) };
        let j = (i / 2) as usize;
        let p = Program { entries: vec![alpha2[j / a2].clone(), alpha2[j % a2].clone()], comment: c, comment_last: false };
        f(&p, (5 << 32) + i, "len2", st);
        if i == 1234 {
            st.sample(p.to_json());
        }
    });
    total_stats.merge(s);
    crate::diag!("  [C01/C02] program space: step {} done at {:.1}s ({} evaluations so far)", line!(), t_start.elapsed().as_secs_f64(), total_stats.evals);
    let alpha3 = entry_alphabet(seed, a3);
    let s = par_for((a3 * a3 * a3) as u64, 4, |i, st| {
        let j = i as usize;
        let p = Program {
            entries: vec![alpha3[j / (a3 * a3)].clone(), alpha3[(j / a3) % a3].clone(), alpha3[j % a3].clone()],
            comment: Some(b"3".to_vec()),
            comment_last: true,
        };
        f(&p, (6 << 32) + i, "len3", st);
    });
    total_stats.merge(s);
    crate::diag!("  [C01/C02] program space: step {} done at {:.1}s ({} evaluations so far)", line!(), t_start.elapsed().as_secs_f64(), total_stats.evals);
    if a4 > 0 {
        let alpha4 = entry_alphabet(seed, a4);
        let s = par_for((a4 * a4 * a4 * a4) as u64, 4, |i, st| {
            let j = i as usize;
            let p = Program {
                entries: vec![alpha4[j / (a4 * a4 * a4)].clone(), alpha4[(j / (a4 * a4)) % a4].clone(), alpha4[(j / a4) % a4].clone(), alpha4[j % a4].clone()],
                comment: None,
                comment_last: false,
            };
            f(&p, (7 << 32) + i, "len4", st);
        });
        total_stats.merge(s);
        crate::diag!("  [C01/C02] program space: step {} done at {:.1}s ({} evaluations so far)", line!(), t_start.elapsed().as_secs_f64(), total_stats.evals);
    }
    // (10) names that differ only in separator direction, case, a leading / trailing separator, a NUL, a space: every ordered pair
    let shapes: Vec<String> = ["a/b", "a\\b", "A/B", "a/b/", "a\\b\\", "/a/b", "a//b", "./a/b", "a/b\0", "a/b ", "", " ", "a", "a/", "caf\u{e9}", "cafe\u{301}", "\u{feff}a", "a\u{a0}b"]
        .iter()
        .map(|s| s.to_string())
        .collect();
    let nsh = shapes.len();
    let shapes_r = &shapes;
    let s = par_for((nsh * nsh) as u64, 8, |i, st| {
        let i = i as usize;
        let (a, b) = (&shapes_r[i / nsh], &shapes_r[i % nsh]);
        if a == b {
            return;
        }
        let e0 = E { kind: 0, name: a.clone(), content: format!("first:{}", i).into_bytes(), opts: FOpts::m(0) };
        let e1 = E { kind: 0, name: b.clone(), content: content_class(3, seed), opts: FOpts::m(8) };
        f(&Program { entries: vec![e0, e1], comment: None, comment_last: false }, (10 << 32) + i as u64, "name-pairs", st);
    });
    total_stats.merge(s);
    crate::diag!("  [C01/C02] program space: step {} done at {:.1}s ({} evaluations so far)", line!(), t_start.elapsed().as_secs_f64(), total_stats.evals);
    bounds.insert("name_pairs".into(), json!({"names": shapes, "programs": "every ordered pair of distinct names as a two-file archive"}));
    // (11) comments longer than a buffered reader's refill (8 KiB) and around it
    let clens = [8169usize, 8170, 8171, 8192, 8193, 16384, 40000, 65534];
    let s = par_for(clens.len() as u64 * 2, 1, |i, st| {
        let n = clens[i as usize / 2];
        let comment: Vec<u8> = (0..n).map(|k| b"0123456789abcdefghijklmnopqrstuvw"[k % 33]).collect();
        let entries = if i % 2 == 0 { vec![] } else { vec![E { kind: 0, name: "x".into(), content: content_class(2, seed), opts: FOpts::m(0) }] };
        f(&Program { entries, comment: Some(comment), comment_last: i % 2 == 1 }, (11 << 32) + i, "long-comments", st);
    });
    total_stats.merge(s);
    crate::diag!("  [C01/C02] program space: step {} done at {:.1}s ({} evaluations so far)", line!(), t_start.elapsed().as_secs_f64(), total_stats.evals);
    bounds.insert("long_comments".into(), json!({"lengths": clens, "entries": [0, 1]}));
    // (12) contents that look like archive structure: a small finished archive (with its own end record and comment) and bare
    // record signatures as the content of the last / only / middle entry, stored and compressed - contents are unrestricted,
    // only names and comments are not allowed to embed signatures
    let inner = exec(&[Call::SetComment(b"inner comment".to_vec()), Call::StartFile { name: "inner-a".into(), opts: FOpts::m(0) }, Call::Write(b"inner a".to_vec()), Call::StartFile { name: "inner-b".into(), opts: FOpts::m(8) }, Call::Write(b"inner b inner b inner b".to_vec()), Call::Finish], &[]).1;
    let mut sigs = vec![];
    for sig in [[0x50u8, 0x4b, 5, 6], [0x50, 0x4b, 6, 6], [0x50, 0x4b, 6, 7], [0x50, 0x4b, 1, 2], [0x50, 0x4b, 3, 4], [0x50, 0x4b, 7, 8]] {
        let mut v = b"before ".to_vec();
        v.extend_from_slice(&sig);
        v.extend_from_slice(&[0u8; 60]);
        v.extend_from_slice(&sig);
        sigs.push(v);
    }
    let mut odd_contents: Vec<Vec<u8>> = vec![inner.clone(), [inner.clone(), inner.clone()].concat()];
    odd_contents.extend(sigs);
    let oc = &odd_contents;
    let s = par_for((odd_contents.len() * 4 * 3 * 2) as u64, 1, |i, st| {
        let i = i as usize;
        let c = oc[i % oc.len()].clone();
        let m = [0u16, 8, 12, 93][(i / oc.len()) % 4];
        let pos = (i / (oc.len() * 4)) % 3;
        let with_comment = i / (oc.len() * 12) == 1;
        let odd = E { kind: 0, name: "nested.zip".into(), content: c, opts: FOpts::m(m) };
        let plain = |n: &str| E { kind: 0, name: n.into(), content: content_class(3, seed), opts: FOpts::m(8) };
        let entries = match pos {
            0 => vec![odd],
            1 => vec![plain("first"), odd],
            _ => vec![plain("first"), odd, plain("last")],
        };
        f(&Program { entries, comment: if with_comment { Some(b"outer".to_vec()) } else { None }, comment_last: false }, (12 << 32) + i as u64, "structure-like-contents", st);
    });
    total_stats.merge(s);
    crate::diag!("  [C01/C02] program space: step {} done at {:.1}s ({} evaluations so far)", line!(), t_start.elapsed().as_secs_f64(), total_stats.evals);
    bounds.insert("structure_like_contents".into(), json!("{a finished 2-entry archive, two of them, 6 record signatures amid zeros} x 4 methods x {only, last of 2, middle of 3} x {no comment, comment}"));
    // (13) contents whose compressed form is exactly as long as they are (per method): equal sizes are not "stored"
    {
        let neutral = neutral_contents();
        let nr = &neutral;
        let s = par_for((neutral.len() * 3) as u64, 1, |i, st| {
            let (m, c) = &nr[i as usize / 3];
            let odd = E { kind: 0, name: "neutral".into(), content: c.clone(), opts: FOpts::m(*m) };
            let plain = |n: &str| E { kind: 0, name: n.into(), content: content_class(2, seed), opts: FOpts::m(0) };
            let entries = match i % 3 {
                0 => vec![odd],
                1 => vec![plain("first"), odd],
                _ => vec![odd, plain("last")],
            };
            f(&Program { entries, comment: None, comment_last: false }, (13 << 32) + i, "size-neutral-contents", st);
        });
        total_stats.merge(s);
        crate::diag!("  [C01/C02] program space: step {} done at {:.1}s ({} evaluations so far)", line!(), t_start.elapsed().as_secs_f64(), total_stats.evals);
        bounds.insert("size_neutral_contents".into(), json!(neutral.iter().map(|(m, c)| format!("method {m}: {} bytes", c.len())).collect::<Vec<_>>()));
    }
    // (14) neighbours of another making: a raw copy, a file with extra data, an aligned file - before, after and between the
    // entries the statement names; those must read back as written all the same (the writer carries per-entry state from one
    // entry to the next)
    {
        let base = entry_alphabet(seed, 12);
        let (_, src_content) = neighbour_source();
        let nb = |kind: u8, k: usize| E {
            kind,
            name: format!("neighbour-{kind}-{k}"),
            content: if kind == 3 { src_content.clone() } else { content_class(1 + k % 3, seed) },
            opts: FOpts { method: [8u16, 0, 93][k % 3], level: None, date: tms[1].0, time: tms[1].1, perm: Some(0o640), large: k % 2 == 1, password: None },
        };
        let nbase = base.len();
        let per = 2 * nbase + nbase * nbase;
        let s = par_for((3 * per) as u64, 8, |i, st| {
            let kind = 3 + (i as usize / per) as u8;
            let j = i as usize % per;
            let entries = if j < nbase {
                vec![nb(kind, j), base[j].clone()]
            } else if j < 2 * nbase {
                vec![base[j - nbase].clone(), nb(kind, j)]
            } else {
                let q = j - 2 * nbase;
                vec![base[q / nbase].clone(), nb(kind, q), base[q % nbase].clone()]
            };
            f(&Program { entries, comment: if j % 2 == 0 { None } else { Some(b"neighbours".to_vec()) }, comment_last: j % 4 == 1 }, (14 << 32) + i, "neighbours", st);
        });
        total_stats.merge(s);
        crate::diag!("  [C01/C02] program space: step {} done at {:.1}s ({} evaluations so far)", line!(), t_start.elapsed().as_secs_f64(), total_stats.evals);
        bounds.insert("neighbours".into(), json!("{raw copy, file with a shared extra block, file aligned to 64} x {before each, after each, between every ordered pair} of the 12 base entries"));
    }
    // (9) entry counts around the 16-bit limit x comment variants (the end records change shape at 65536 entries)
    let counts = [65_534usize, 65_535, 65_536, 65_537];
    let s = par_for((counts.len() * 3) as u64, 1, |i, st| {
        let n = counts[i as usize / 3];
        let comment = match i % 3 {
            0 => None,
            1 => Some(b"c".to_vec()),
            _ => Some(content_class(3, seed)),
        };
        let mut entries: Vec<E> = (0..n - 1).map(|k| E { kind: 0, name: format!("n{k}"), content: vec![b'a' + (k % 26) as u8], opts: FOpts::m(0) }).collect();
        entries.push(E { kind: 0, name: "last-ü".into(), content: content_class(3, seed), opts: FOpts { perm: Some(0o600), ..FOpts::m(8) } });
        let p = Program { entries, comment, comment_last: i % 2 == 1 };
        f(&p, (9 << 32) + i, "many-entries", st);
    });
    total_stats.merge(s);
    crate::diag!("  [C01/C02] program space: step {} done at {:.1}s ({} evaluations so far)", line!(), t_start.elapsed().as_secs_f64(), total_stats.evals);
    bounds.insert("many_entries".into(), json!("{65534, 65535, 65536, 65537} entries x comment {none, 1 byte, 300 bytes}"));
    (total_stats, bounds)
}

pub fn run(args: &Args) -> i32 {
    let mut ctx = crate::new_ctx("C01", args);
    let seed = args.seed;
    if let Some(path) = &args.replay {
        return crate::props::replay_file(ctx, path, |c, st| replay(c, st, seed));
    }
    let thorough = args.tier.thorough();
    ctx.rule = "E-PROD over writer programs: (1) length-1 full product kind x content x name x method/level x large x perm x time; \
        (2) every 9-bit permission value x 3 kinds; (3) every date word x 3 time words and 3 date words x every time word; \
        (4) every documented method/level pair x every content class, and 25 content sizes at internal buffer boundaries (2..1.5 MiB, each written in ONE write call) x every method x {repeating, incompressible}; (5) comment variants; (10) every ordered pair of 18 look-alike names; (11) comments of 8169..65534 bytes; (12) entry contents that are themselves archives or carry record signatures; (9) 65534..65537 entries x 3 comment variants; (6) all length-2 and length-3 (thorough: 4) \
        entry lists over reduced alphabets. Each program is executed twice (finish / drop) on the real writer and read back with the real \
        seekable reader; the program is the reference model. Every archive is additionally opened through sources that return short reads (1-, 7-, 4093-byte pieces; BufReader of 8192 and 61 bytes) and must be observed identically; by_name of every name written once must return that entry, file_names() the set of names. distinct_nontrivial = distinct archive byte strings produced (hash set)."
        .into();
    ctx.assume("compressor internals (flate2/bzip2/zstd) are trusted; contents come from 5 (thorough 6) classes with seed-derived bytes");
    ctx.uncovered("arbitrary multi-MiB contents beyond the listed classes; joint variation of all axes at length >= 2 (reduced alphabets); sizes and offsets beyond 32 bits are C08's");

    let (s, bounds) = enumerate(thorough, seed, &|p, order, part, st| {
        check_program(p, st, order, part);
    });
    ctx.stats.merge(s);
    for (k, v) in bounds {
        ctx.bound(&k, v);
    }

    // determinism: re-run a slice twice
    let base = entry_alphabet(seed, 12);
    let mut a = Stats::default();
    let mut b = Stats::default();
    for k in 0..12 {
        let p = Program { entries: vec![base[k].clone(), base[(k + 5) % 12].clone()], comment: None, comment_last: false };
        let x = check_program(&p, &mut a, 0, "det");
        let y = check_program(&p, &mut b, 0, "det");
        if x != y {
            ctx.machinery("two executions of the same program produced different bytes");
        }
        ctx.determinism_reruns += 1;
    }
    ctx.stats.states = ctx.stats.distinct.len() as u64;
    ctx.stats.transitions = ctx.stats.evals * 2;
    ctx.stats.traces = ctx.stats.evals;
    ctx.finish()
}

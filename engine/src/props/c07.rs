//! C07 — extract() reproduces the tree and writes nothing outside the target.
//! E-PROD over archives (names from the C06 alphabet up to 3 components, absolute names aimed
//! at a canary directory, deep nesting; files / directories / symlink-typed entries; every
//! permission value) extracted by both extractors into a disposable sandbox on tmpfs.

use crate::reference::paths;
use crate::reference::zipbuild::{build, ESpec, Spec};
use crate::util::{fnv, guard, panic_site, par_for, Stats};
use crate::Args;
use serde_json::{json, Value};
use std::collections::BTreeMap;
use std::os::unix::fs::PermissionsExt;
use std::path::{Path, PathBuf};

#[derive(Clone, Debug)]
pub struct En {
    pub name: String,
    /// 0 file, 1 directory (name must end with '/'), 2 symlink-typed file
    pub kind: u8,
    pub content: Vec<u8>,
    /// None = no attributes recorded
    pub perm: Option<u32>,
}

fn spec_of(entries: &[En]) -> Spec {
    Spec {
        entries: entries
            .iter()
            .map(|e| ESpec {
                name: e.name.as_bytes().to_vec(),
                utf8: true,
                method: if e.content.len() > 3 { 8 } else { 0 },
                content: if e.kind == 1 { vec![] } else { e.content.clone() },
                ext_attr: match (e.kind, e.perm) {
                    (_, None) => 0,
                    (0, Some(p)) => (0o100000 | p) << 16,
                    (1, Some(p)) => (0o040000 | p) << 16 | 0x10,
                    (_, Some(p)) => (0o120000 | p) << 16,
                },
                ..Default::default()
            })
            .collect(),
        ..Default::default()
    }
}

type Snap = BTreeMap<PathBuf, (char, u64, u32, u64)>;

fn snapshot(root: &Path, skip: Option<&Path>) -> Snap {
    let mut out = Snap::new();
    let mut stack = vec![root.to_path_buf()];
    while let Some(d) = stack.pop() {
        let rd = match std::fs::read_dir(&d) {
            Ok(r) => r,
            Err(_) => continue,
        };
        for e in rd.flatten() {
            let p = e.path();
            if Some(p.as_path()) == skip {
                continue;
            }
            let md = match std::fs::symlink_metadata(&p) {
                Ok(m) => m,
                Err(_) => continue,
            };
            let rel = p.strip_prefix(root).unwrap_or(&p).to_path_buf();
            let mode = md.permissions().mode() & 0o7777;
            if md.file_type().is_dir() {
                out.insert(rel, ('d', 0, mode, 0));
                stack.push(p);
            } else if md.file_type().is_symlink() {
                let t = std::fs::read_link(&p).map(|t| fnv(t.to_string_lossy().as_bytes())).unwrap_or(0);
                out.insert(rel, ('l', 0, mode, t));
            } else {
                let c = match std::fs::read(&p) {
                    Ok(c) => c,
                    Err(_) => {
                        // unreadable for an unprivileged run: lend ourselves read permission for the comparison
                        let _ = std::fs::set_permissions(&p, std::fs::Permissions::from_mode(mode | 0o400));
                        let c = std::fs::read(&p).unwrap_or_default();
                        let _ = std::fs::set_permissions(&p, std::fs::Permissions::from_mode(mode));
                        c
                    }
                };
                out.insert(rel, ('f', md.len(), mode, fnv(&c)));
            }
        }
    }
    out
}

/// Is the archive "safe and mutually consistent": the positive clause applies.
fn consistent(entries: &[En]) -> bool {
    let mut files: Vec<Vec<String>> = vec![];
    let mut dirs: Vec<Vec<String>> = vec![];
    for e in entries {
        let body = e.name.strip_suffix('/').unwrap_or(&e.name);
        if (e.kind == 1) != e.name.ends_with('/') {
            return false;
        }
        // host (Unix) semantics: a backslash is an ordinary character of a component. A FILE entry whose name contains one
        // (also as its last character) is a file of exactly that name and must come out with its bytes; directory-typed
        // entries with backslashes stay outside the positive clause (the crate's own is_dir() reads a trailing backslash
        // as a directory marker, the statement does not say)
        if body.is_empty() || e.name.contains('\0') || (e.name.contains('\\') && e.kind == 1) {
            return false;
        }
        let comps: Vec<&str> = body.split('/').collect();
        if comps.iter().any(|c| c.is_empty() || *c == "." || *c == "..") {
            return false;
        }
        let v: Vec<String> = comps.iter().map(|c| c.to_string()).collect();
        if e.kind == 1 {
            dirs.push(v);
        } else {
            files.push(v);
        }
    }
    // no duplicate files, no file that is also (a prefix of) a directory path or of another file's path
    for (i, f) in files.iter().enumerate() {
        for (j, g) in files.iter().enumerate() {
            if i != j && (f == g || (g.len() > f.len() && g[..f.len()] == f[..])) {
                return false;
            }
        }
        for d in &dirs {
            if d.len() >= f.len() && d[..f.len()] == f[..] {
                return false;
            }
        }
    }
    // directory permissions must allow the extractor (and an unprivileged run) to populate them
    entries.iter().all(|e| e.kind != 1 || e.perm.map_or(true, |p| p & 0o700 == 0o700))
}

fn model_tree(entries: &[En]) -> BTreeMap<PathBuf, (char, Option<Vec<u8>>, Option<u32>)> {
    let mut t = BTreeMap::new();
    for e in entries {
        let body = e.name.strip_suffix('/').unwrap_or(&e.name);
        let comps: Vec<&str> = body.split('/').collect();
        for k in 1..comps.len() {
            t.entry(PathBuf::from(comps[..k].join("/"))).or_insert(('d', None, None));
        }
        let p = PathBuf::from(body);
        if e.kind == 1 {
            let ent = t.entry(p).or_insert(('d', None, None));
            if e.perm.is_some() {
                ent.2 = e.perm;
            }
        } else {
            t.insert(p, ('f', Some(e.content.clone()), e.perm));
        }
    }
    t
}

pub struct Sandbox {
    pub root: PathBuf,
}
impl Sandbox {
    fn new(base: &Path, id: u64) -> std::io::Result<(Sandbox, PathBuf)> {
        let root = base.join(format!("case-{id}"));
        let _ = std::fs::remove_dir_all(&root);
        // the target sits 4 levels down so that up to 3 climbing components stay inside the sandbox root
        let target = root.join("l1/l2/l3/target");
        std::fs::create_dir_all(&target)?;
        std::fs::create_dir_all(root.join("canary"))?;
        std::fs::write(root.join("canary/keep"), b"canary file")?;
        std::fs::create_dir_all(root.join("l1/l2/l3/sibling"))?;
        std::fs::write(root.join("l1/l2/l3/sibling/s"), b"sibling")?;
        std::fs::write(root.join("l1/l2/l3/a"), b"same name as an entry")?;
        std::fs::write(root.join("l1/l2/a"), b"same name as an entry")?;
        Ok((Sandbox { root }, target))
    }
}
impl Drop for Sandbox {
    fn drop(&mut self) {
        // restore permissions so that removal works for unprivileged runs too
        let _ = std::fs::remove_dir_all(&self.root);
    }
}

pub fn check_case(entries: &[En], stream: bool, base: &Path, id: u64, st: &mut Stats, order: u64, part: &str) {
    check_case_layout(entries, stream, base, id, st, order, part, 0)
}

pub const LAYOUTS: [&str; 11] = ["plain", "methods stored/deflate/bzip2/zstd by position", "data descriptors", "100 bytes of prepended data", "DOS made-by with DOS attributes", "forced ZIP64 fields and end records", "central directory in reverse order + gaps", "written by the crate's own ZipWriter", "central directory in reverse order, contiguous (streamable)", "central directory rotated by two records (streamable)", "Unix made-by with DOS attribute bits in the low byte as well (read-only + archive on files, directory + read-only on directories): the recorded Unix mode stands"];
/// added to a layout number: the target directory already holds a longer file (mode 0600) at every file path of the archive
pub const PREPOPULATED: u8 = 16;
/// added to a layout number: how the caller spells the target directory it passes to extract() - through a symbolic link to
/// the target's parent, with a `sibling/..` detour, with a trailing `/.`. The directory meant is the same one.
pub const VIA_SYMLINK: u8 = 32;
pub const VIA_DOTDOT: u8 = 64;
pub const VIA_DOT: u8 = 128;

/// How the archive is laid out (index into LAYOUTS); the entries and the expected tree stay the same.
fn bytes_for(entries: &[En], layout: u8) -> Vec<u8> {
    use crate::reference::zipbuild::Dd;
    let mut spec = spec_of(entries);
    let n = spec.entries.len();
    match layout {
        1 => {
            for (i, e) in spec.entries.iter_mut().enumerate() {
                if !e.content.is_empty() {
                    e.method = [8u16, 12, 93, 0][i % 4];
                }
            }
        }
        2 => {
            for (i, e) in spec.entries.iter_mut().enumerate() {
                e.dd = if i % 2 == 0 { Dd::Sig32 } else { Dd::NoSig32 };
            }
        }
        3 => spec.prefix = vec![0x5a; 100],
        4 => {
            for (e, en) in spec.entries.iter_mut().zip(entries) {
                e.made_by = 20;
                e.ext_attr = if en.kind == 1 { 0x10 } else { 0x20 };
            }
        }
        5 => {
            for (i, e) in spec.entries.iter_mut().enumerate() {
                e.zip64_central = [7u8, 1, 4, 3][i % 4];
                e.zip64_local = true;
            }
            spec.force_zip64_eocd = true;
        }
        6 => {
            spec.cd_order = Some((0..n).rev().collect());
            spec.gap_before_cd = 7;
            for e in spec.entries.iter_mut().skip(1) {
                e.gap_before = 3;
            }
        }
        10 => {
            for e in spec.entries.iter_mut() {
                e.ext_attr |= if e.name.ends_with(b"/") { 0x11 } else { 0x21 };
            }
        }
        8 => spec.cd_order = Some((0..n).rev().collect()),
        9 => spec.cd_order = Some((0..n).map(|i| (i + 2) % n.max(1)).collect()),
        7 => {
            use crate::zipapi::*;
            let mut calls = vec![];
            for e in entries {
                let opts = FOpts { perm: e.perm, ..FOpts::m(if e.content.len() > 3 { 8 } else { 0 }) };
                match e.kind {
                    1 => calls.push(Call::AddDir { name: e.name.clone(), opts }),
                    2 => calls.push(Call::AddSymlink { name: e.name.clone(), target: String::from_utf8_lossy(&e.content).into_owned(), opts }),
                    _ => {
                        calls.push(Call::StartFile { name: e.name.clone(), opts });
                        calls.push(Call::Write(e.content.clone()));
                    }
                }
            }
            calls.push(Call::Finish);
            return exec(&calls, &[]).1;
        }
        _ => {}
    }
    build(&spec).0
}

pub fn check_case_layout(entries: &[En], stream: bool, base: &Path, id: u64, st: &mut Stats, order: u64, part: &str, layout: u8) {
    let layout_arg = layout;
    st.evals += 1;
    let ex = if stream { "ZipStreamReader::extract" } else { "ZipArchive::extract" };
    let case = || json!({"entries": entries.iter().map(|e| json!({"name": crate::util::hex(e.name.as_bytes()), "kind": e.kind, "content": crate::util::hex(&e.content), "perm": e.perm})).collect::<Vec<_>>(), "stream": stream, "layout": layout_arg});
    let (sb, target) = match Sandbox::new(base, id) {
        Ok(x) => x,
        Err(e) => {
            st.viol("machinery/sandbox", format!("cannot create sandbox: {e}"), case(), order);
            return;
        }
    };
    // entries aimed at the canary by absolute path get the real location substituted
    let entries: Vec<En> = entries
        .iter()
        .map(|e| En { name: e.name.replace("{CANARY}", &sb.root.join("canary").to_string_lossy()), ..e.clone() })
        .collect();
    let prepopulate = layout & PREPOPULATED != 0;
    let spelled: PathBuf = if layout & VIA_SYMLINK != 0 {
        let _ = std::os::unix::fs::symlink(sb.root.join("l1/l2/l3"), sb.root.join("shortcut"));
        sb.root.join("shortcut/target")
    } else if layout & VIA_DOTDOT != 0 {
        sb.root.join("l1/l2/l3/sibling/../target")
    } else if layout & VIA_DOT != 0 {
        sb.root.join("l1/l2/./l3/target/.")
    } else {
        target.clone()
    };
    let layout = layout & !(PREPOPULATED | VIA_SYMLINK | VIA_DOTDOT | VIA_DOT);
    let bytes = bytes_for(&entries, layout);
    if prepopulate && consistent(&entries) && entries.iter().all(|e| paths::safe(&e.name)) {
        // extraction overwrites: what was there before must not show through
        use std::os::unix::fs::PermissionsExt;
        for (p, (kind, _, _)) in &model_tree(&entries) {
            if *kind == 'f' {
                let full = target.join(p);
                if let Some(parent) = full.parent() {
                    let _ = std::fs::create_dir_all(parent);
                }
                let _ = std::fs::write(&full, vec![b'X'; 100_000]);
                let _ = std::fs::set_permissions(&full, std::fs::Permissions::from_mode(0o600));
            }
        }
    }
    // DOS attributes carry no Unix mode: the tree is compared without permission bits
    let entries: Vec<En> = if layout == 4 { entries.into_iter().map(|e| En { perm: None, ..e }).collect() } else { entries };
    st.distinct_hash(fnv(&bytes) ^ stream as u64);
    let before = snapshot(&sb.root, Some(&target));
    let r = guard(|| {
        if stream {
            zip::unstable::stream::ZipStreamReader::new(std::io::Cursor::new(&bytes[..])).extract(&spelled).map_err(|e| e.to_string())
        } else {
            zip::ZipArchive::new(std::io::Cursor::new(&bytes[..])).map_err(|e| format!("open: {e}")).and_then(|mut a| a.extract(&spelled).map_err(|e| e.to_string()))
        }
    });
    let after = snapshot(&sb.root, Some(&target));
    let names: Vec<&str> = entries.iter().map(|e| e.name.as_str()).collect();
    // (1) confinement
    if before != after {
        let mut diff = vec![];
        for (k, v) in &after {
            if before.get(k) != Some(v) {
                diff.push(format!("{} {:?}", if before.contains_key(k) { "changed" } else { "created" }, k));
            }
        }
        for k in before.keys() {
            if !after.contains_key(k) {
                diff.push(format!("removed {k:?}"));
            }
        }
        st.class("ESCAPED");
        st.viol(format!("confinement/{}", if stream { "stream" } else { "seekable" }), format!("{ex} of names {names:?} touched the file system outside the target: {}", diff.join(", ")), case(), order);
        return;
    }
    let res = match r {
        Err(p) => {
            st.class("PANIC");
            st.viol(format!("panic/{}/{}", if stream { "stream" } else { "seekable" }, panic_site(&p)), format!("{ex} of names {names:?} panicked: {p}"), case(), order);
            return;
        }
        Ok(r) => r,
    };
    // (2) unsafe names must make the call fail
    let any_unsafe = entries.iter().any(|e| !paths::safe(&e.name));
    if any_unsafe {
        if res.is_ok() {
            st.class("UNSAFE-ACCEPTED");
            st.viol(format!("unsafe-name-accepted/{}", if stream { "stream" } else { "seekable" }), format!("{ex} returned Ok although a name in {names:?} is unsafe"), case(), order);
        } else {
            st.class("unsafe-name:error");
        }
        return;
    }
    // (3) positive clause
    if !consistent(&entries) {
        st.class(if res.is_ok() { "inconsistent-names:ok(confined)" } else { "inconsistent-names:error(confined)" });
        return;
    }
    if let Err(e) = &res {
        st.class("CONSISTENT-REFUSED");
        st.viol(format!("consistent-archive-refused/{}/{part}", if stream { "stream" } else { "seekable" }), format!("{ex} of safe, consistent names {names:?} failed: {e}"), case(), order);
        return;
    }
    let got = snapshot(&target, None);
    let want = model_tree(&entries);
    let mut ok = true;
    let mut bad = |what: &str, detail: String, st: &mut Stats| {
        ok = false;
        st.viol(format!("tree/{what}/{}", if stream { "stream" } else { "seekable" }), format!("{ex} of {names:?}: {detail}"), case(), order);
    };
    for (p, (kind, content, perm)) in &want {
        match got.get(p) {
            None => bad("missing", format!("{p:?} was not created"), st),
            Some((gk, _, gmode, ghash)) => {
                if gk != kind {
                    bad("wrong-type", format!("{p:?} is '{gk}', expected '{kind}'"), st);
                }
                if let Some(c) = content {
                    if *ghash != fnv(c) {
                        bad("content", format!("{p:?} does not hold the entry's {} bytes", c.len()), st);
                    }
                }
                if let Some(pm) = perm {
                    if gmode & 0o7777 != pm & 0o7777 {
                        bad("permissions", format!("{p:?} has mode {:o}, recorded {:o}", gmode & 0o7777, pm & 0o7777), st);
                    }
                }
            }
        }
    }
    for p in got.keys() {
        if !want.contains_key(p) {
            bad("extra-object", format!("{p:?} exists but is not in the archive"), st);
        }
    }
    st.class(if ok { "tree-reproduced" } else { "TREE-MISMATCH" });
    drop(sb);
}

/// Archives whose central record and local header name the same entry differently (no writer produces them, an attacker
/// does): the seekable extractor works from the central names, the streaming one creates files from the local headers
/// and applies modes from the central records. Whatever the combination, nothing outside the target may be touched.
pub fn check_split_case(pairs: &[(String, String, u8, u32)], stream: bool, base: &Path, id: u64, st: &mut Stats, order: u64) {
    st.evals += 1;
    let ex = if stream { "ZipStreamReader::extract" } else { "ZipArchive::extract" };
    let case = || json!({"split": pairs.iter().map(|(l, c, k, m)| json!({"local": crate::util::hex(l.as_bytes()), "central": crate::util::hex(c.as_bytes()), "kind": k, "mode": m})).collect::<Vec<_>>(), "stream": stream});
    let (sb, target) = match Sandbox::new(base, id) {
        Ok(x) => x,
        Err(e) => {
            st.viol("machinery/sandbox", format!("cannot create sandbox: {e}"), case(), order);
            return;
        }
    };
    let canary = sb.root.join("canary").to_string_lossy().into_owned();
    let spec = Spec {
        entries: pairs
            .iter()
            .map(|(l, c, kind, mode)| ESpec {
                name: l.replace("{CANARY}", &canary).into_bytes(),
                central_name: Some(c.replace("{CANARY}", &canary).into_bytes()),
                utf8: true,
                method: 0,
                content: if *kind == 1 { vec![] } else { b"split".to_vec() },
                ext_attr: (if *kind == 1 { 0o040000 } else { 0o100000 } | mode) << 16 | if *kind == 1 { 0x10 } else { 0 },
                ..Default::default()
            })
            .collect(),
        ..Default::default()
    };
    let bytes = build(&spec).0;
    st.distinct_hash(fnv(&bytes) ^ stream as u64);
    let before = snapshot(&sb.root, Some(&target));
    let r = guard(|| {
        if stream {
            zip::unstable::stream::ZipStreamReader::new(std::io::Cursor::new(&bytes[..])).extract(&target).map_err(|e| e.to_string())
        } else {
            zip::ZipArchive::new(std::io::Cursor::new(&bytes[..])).map_err(|e| format!("open: {e}")).and_then(|mut a| a.extract(&target).map_err(|e| e.to_string()))
        }
    });
    let after = snapshot(&sb.root, Some(&target));
    let names: Vec<String> = pairs.iter().map(|(l, c, _, _)| format!("local {l:?} / central {c:?}")).collect();
    if before != after {
        let mut diff = vec![];
        for (k, v) in &after {
            if before.get(k) != Some(v) {
                diff.push(format!("{} {:?} (now type {} mode {:o})", if before.contains_key(k) { "changed" } else { "created" }, k, v.0, v.2));
            }
        }
        for k in before.keys() {
            if !after.contains_key(k) {
                diff.push(format!("removed {k:?}"));
            }
        }
        st.class("ESCAPED");
        st.viol(format!("confinement/split-names/{}", if stream { "stream" } else { "seekable" }), format!("{ex} of {names:?} touched the file system outside the target: {}", diff.join(", ")), case(), order);
        return;
    }
    match r {
        Err(p) => {
            st.class("PANIC");
            st.viol(format!("panic/split-names/{}/{}", if stream { "stream" } else { "seekable" }, panic_site(&p)), format!("{ex} of {names:?} panicked: {p}"), case(), order);
        }
        Ok(r) => st.class(if r.is_ok() { "split-names:ok(confined)" } else { "split-names:error(confined)" }),
    }
    drop(sb);
}

/// Archives built entry by entry from full specs (raw name bytes, flag, method, encryption): used for entries the extractor
/// cannot decode but must still judge by their names, and for names that are not flagged UTF-8.
/// `expect`: None = the call must fail (an unsafe name is present); Some(tree) = must succeed with exactly this tree
/// (path -> (is_dir, content)).
pub fn check_spec_case(spec: &Spec, expect: Option<&BTreeMap<PathBuf, (bool, Vec<u8>)>>, stream: bool, base: &Path, id: u64, st: &mut Stats, order: u64, what: &str) {
    st.evals += 1;
    let ex = if stream { "ZipStreamReader::extract" } else { "ZipArchive::extract" };
    let case = || json!({"spec_case": spec.to_json(), "stream": stream, "what": what});
    let (sb, target) = match Sandbox::new(base, id) {
        Ok(x) => x,
        Err(e) => {
            st.viol("machinery/sandbox", format!("cannot create sandbox: {e}"), case(), order);
            return;
        }
    };
    let bytes = build(spec).0;
    st.distinct_hash(fnv(&bytes) ^ stream as u64);
    let before = snapshot(&sb.root, Some(&target));
    let r = guard(|| {
        if stream {
            zip::unstable::stream::ZipStreamReader::new(std::io::Cursor::new(&bytes[..])).extract(&target).map_err(|e| e.to_string())
        } else {
            zip::ZipArchive::new(std::io::Cursor::new(&bytes[..])).map_err(|e| format!("open: {e}")).and_then(|mut a| a.extract(&target).map_err(|e| e.to_string()))
        }
    });
    let after = snapshot(&sb.root, Some(&target));
    if before != after {
        st.class("ESCAPED");
        st.viol(format!("confinement/{what}/{}", if stream { "stream" } else { "seekable" }), format!("{ex} ({what}) touched the file system outside the target"), case(), order);
        return;
    }
    let res = match r {
        Err(p) => {
            st.viol(format!("panic/{what}/{}", panic_site(&p)), format!("{ex} ({what}) panicked: {p}"), case(), order);
            return;
        }
        Ok(r) => r,
    };
    match expect {
        None => {
            if res.is_ok() {
                st.class("UNSAFE-ACCEPTED");
                st.viol(format!("unsafe-name-accepted/{what}/{}", if stream { "stream" } else { "seekable" }), format!("{ex} returned Ok although an entry name is unsafe ({what})"), case(), order);
            } else {
                st.class("unsafe-name:error");
            }
        }
        Some(tree) => {
            if let Err(e) = &res {
                st.viol(format!("consistent-archive-refused/{what}/{}", if stream { "stream" } else { "seekable" }), format!("{ex} ({what}) failed: {e}"), case(), order);
                return;
            }
            let got = snapshot(&target, None);
            let mut ok = got.len() == tree.len();
            for (p, (is_dir, content)) in tree {
                match got.get(p) {
                    Some((k, _, _, h)) if (*k == 'd') == *is_dir && (*is_dir || *h == fnv(content)) => {}
                    _ => ok = false,
                }
            }
            if !ok {
                st.viol(format!("tree/{what}/{}", if stream { "stream" } else { "seekable" }), format!("{ex} ({what}): the target holds {:?}, expected {:?}", got.keys().collect::<Vec<_>>(), tree.keys().collect::<Vec<_>>()), case(), order);
            } else {
                st.class("tree-reproduced");
            }
        }
    }
    drop(sb);
}

fn name_shapes() -> Vec<String> {
    let comps = ["a", "b", ".", "..", ""];
    let mut v = vec![];
    for n in 1..=3usize {
        for j in 0..5usize.pow(n as u32) {
            let cs: Vec<&str> = (0..n).rev().map(|k| comps[(j / 5usize.pow(k as u32)) % 5]).collect();
            let body = cs.join("/");
            for lead in ["", "/"] {
                for trail in ["", "/"] {
                    v.push(format!("{lead}{body}{trail}"));
                }
            }
        }
    }
    v.extend(
        [
            "{CANARY}/pwned",
            "{CANARY}/keep",
            // relative names whose tail spells the canary's absolute location (the substituted text begins with '/'): they
            // are safe - the tree appears UNDER the target - unless a leading part is dropped somewhere on the way
            "./{CANARY}/pwned",
            "./{CANARY}/keep",
            "././{CANARY}/pwned",
            "a/../{CANARY}/pwned",
            "a/{CANARY}/keep",
            "../../../../canary/pwned",
            "../../../../canary/keep",
            "a/../../sibling/s",
            "../sibling/new",
            "../a",
            "a/../../a",
            "..\\sibling\\s",
            "a\\b",
            "a\0b",
            "\0",
            "a/b\0/../../..",
            "C:/x",
            "//x/y",
            "./a",
            "a/./b",
            "ü/☃",
        ]
        .iter()
        .map(|s| s.to_string()),
    );
    v.push(format!("{}f", "d/".repeat(40)));
    v.push(format!("{}", "d/".repeat(40)));
    v.push(format!("{}../x", "../".repeat(2)));
    v.sort();
    v.dedup();
    v
}

fn replay(case: &Value, st: &mut Stats) {
    if !case["spec_case"].is_null() {
        let spec = Spec::from_json(&case["spec_case"]);
        let what = case["what"].as_str().unwrap_or("replay").to_string();
        let base = crate::foreign::scratch_root().join(format!("zipmc-{}-c07r", std::process::id()));
        let _ = std::fs::create_dir_all(&base);
        if what.contains("unsafe-name") {
            check_spec_case(&spec, None, case["stream"].as_bool().unwrap_or(false), &base, 0, st, 0, &what);
        } else {
            // the expected tree of a CP437-named one-entry archive
            let mut tree: BTreeMap<PathBuf, (bool, Vec<u8>)> = BTreeMap::new();
            for e in &spec.entries {
                let dec = crate::reference::cp437::decode(&e.name);
                let comps: Vec<&str> = dec.split('/').collect();
                for i in 1..comps.len() {
                    tree.insert(PathBuf::from(comps[..i].join("/")), (true, vec![]));
                }
                tree.insert(PathBuf::from(&dec), (false, e.content.clone()));
            }
            check_spec_case(&spec, Some(&tree), case["stream"].as_bool().unwrap_or(false), &base, 0, st, 0, &what);
        }
        let _ = std::fs::remove_dir_all(&base);
        return;
    }
    if let Some(sp) = case["split"].as_array() {
        let pairs: Vec<(String, String, u8, u32)> = sp
            .iter()
            .map(|e| {
                let h = |k: &str| String::from_utf8_lossy(&crate::util::unhex(e[k].as_str().unwrap_or(""))).into_owned();
                (h("local"), h("central"), e["kind"].as_u64().unwrap_or(0) as u8, e["mode"].as_u64().unwrap_or(0) as u32)
            })
            .collect();
        let base = crate::foreign::scratch_root().join(format!("zipmc-{}-c07r", std::process::id()));
        let _ = std::fs::create_dir_all(&base);
        check_split_case(&pairs, case["stream"].as_bool().unwrap_or(false), &base, 0, st, 0);
        let _ = std::fs::remove_dir_all(&base);
        return;
    }
    let entries: Vec<En> = case["entries"]
        .as_array()
        .map(|a| {
            a.iter()
                .map(|e| En {
                    name: String::from_utf8_lossy(&crate::util::unhex(e["name"].as_str().unwrap_or(""))).into_owned(),
                    kind: e["kind"].as_u64().unwrap_or(0) as u8,
                    content: crate::util::unhex(e["content"].as_str().unwrap_or("")),
                    perm: e["perm"].as_u64().map(|p| p as u32),
                })
                .collect()
        })
        .unwrap_or_default();
    let base = crate::foreign::scratch_root().join(format!("zipmc-{}-c07r", std::process::id()));
    let _ = std::fs::create_dir_all(&base);
    check_case_layout(&entries, case["stream"].as_bool().unwrap_or(false), &base, 0, st, 0, "replay", case["layout"].as_u64().unwrap_or(0) as u8);
    let _ = std::fs::remove_dir_all(&base);
}

pub fn run(args: &Args) -> i32 {
    let mut ctx = crate::new_ctx("C07", args);
    if let Some(path) = &args.replay {
        return crate::props::replay_file(ctx, path, replay);
    }
    let thorough = args.tier.thorough();
    let base = crate::foreign::scratch_root().join(format!("zipmc-{}-c07", std::process::id()));
    let _ = std::fs::remove_dir_all(&base);
    if let Err(e) = std::fs::create_dir_all(&base) {
        ctx.machinery(format!("cannot create scratch directory {base:?}: {e}"));
        return ctx.finish();
    }
    let shapes = name_shapes();
    ctx.rule = format!(
        "E-PROD with a real file system (tmpfs sandbox per case: canary/, sibling objects and same-named decoys around a target four levels deep). One-entry archives: {} names (every sequence of 1..3 components over {{a, b, ., .., empty}} with/without leading and trailing '/', absolute names aimed at the canary, climbing names, backslash, NUL, drive/UNC-like, 40-level nesting) \
         x {{file, directory-typed, symlink-typed}} x content {{empty, 5 bytes}}; every 12-bit mode 0..=0o7777 on a file, 0o700..=0o777 and all special-bit combinations on a directory; two-entry archives over a {}-name alphabet squared x kind pairs (duplicates, file/directory conflicts, implied parents); three-entry archives over 11 names cubed (incl. names that are string prefixes but not path prefixes of one another); one five-entry tree (70 001-byte, 300-byte, 5-byte and empty files, explicit and implied directories) in all 120 entry orders x 8 archive layouts (plain, every method, data descriptors, prepended data, DOS made-by, forced ZIP64, reversed directory with gaps, written by the crate's own writer). Both ZipArchive::extract and ZipStreamReader::extract. \
         Oracle: (1) a recursive listing (type, size, mode, content hash) of everything in the sandbox outside the target is unchanged; (2) an unsafe name (lexical model) makes the call fail; (3) safe, mutually consistent archives extract successfully to exactly the model tree with byte-identical contents and the recorded permission bits. distinct_nontrivial = distinct (archive, extractor) pairs (hash set).",
        shapes.len(),
        if thorough { 47 } else { 31 }
    );
    ctx.assume("Unix host, tmpfs scratch under /dev/shm (fallback /var/tmp), outside /repo and /verif, removed afterwards; run as any uid (directory modes kept >= 0700 in positive cases)");
    ctx.uncovered("how symlink-typed entries materialise (checked for confinement only); partial output after an error; safe-but-dotted names (confinement only)");

    let base_r = &base;
    let shapes_r = &shapes;
    // one-entry archives
    let n1 = shapes.len() as u64 * 3 * 2 * 2;
    let s = par_for(n1, 8, |t, st| {
        let stream = t % 2 == 1;
        let c = (t / 2) % 2;
        let kind = ((t / 4) % 3) as u8;
        let name = &shapes_r[(t / 12) as usize];
        let e = En { name: name.clone(), kind, content: if c == 0 { vec![] } else { b"12345".to_vec() }, perm: Some([0o644, 0o755, 0o777][kind as usize]) };
        check_case(&[e], stream, base_r, t, st, t, "one-entry");
        if t == 1000 {
            st.sample(json!({"name": name, "kind": kind, "stream": stream}));
        }
    });
    ctx.stats.merge(s);
    // permissions: every 12-bit mode on a file (set-uid/gid/sticky included), rwx and special bits on directories
    let s = par_for(4096 * 2 + 64 * 2 + 8 * 2 + 2, 8, |t, st| {
        let stream = t % 2 == 1;
        let k = t / 2;
        let e = if k < 4096 {
            vec![En { name: "d/file".into(), kind: 0, content: b"perm".to_vec(), perm: Some(k as u32) }]
        } else if k < 4160 {
            vec![En { name: "dir/".into(), kind: 1, content: vec![], perm: Some(0o700 | (k as u32 - 4096)) }, En { name: "dir/inner".into(), kind: 0, content: b"x".to_vec(), perm: Some(0o600) }]
        } else if k < 4168 {
            vec![En { name: "sdir/".into(), kind: 1, content: vec![], perm: Some(0o755 | ((k as u32 - 4160) << 9)) }, En { name: "sdir/inner".into(), kind: 0, content: b"x".to_vec(), perm: Some(0o640) }]
        } else {
            vec![En { name: "noattr".into(), kind: 0, content: b"n".to_vec(), perm: None }, En { name: "noattr-dir/".into(), kind: 1, content: vec![], perm: None }]
        };
        check_case(&e, stream, base_r, (1 << 40) + t, st, (1 << 40) + t, "permissions");
    });
    ctx.stats.merge(s);
    ctx.bound("permission_values", json!("files: all 4096 twelve-bit modes; directories: 0o700..=0o777 and 0o755 with every set-uid/gid/sticky combination"));
    // two-entry archives
    let m = if thorough { 47 } else { 31 };
    let mut red: Vec<String> = ["a", "b", "a/", "a/b", "a/b/", "b/a", "a/a", "../a", "/a", "a/../b", "a/..", "", "/", ".", "a/b/c", "a/b/c/", "b/", "{CANARY}/pwned", "../sibling/s", "a\0", "c", "a//b", "./a", "../../a", "ab/c", "abc/d", "ab.txt", "abc/", "reports\\", "a/2024\\", "w\\x"]
        .iter()
        .map(|s| s.to_string())
        .collect();
    for s in shapes.iter() {
        if red.len() >= m {
            break;
        }
        if !red.contains(s) && s.len() > 3 {
            red.push(s.clone());
        }
    }
    let red_r = &red;
    let mm = red.len() as u64;
    let s = par_for(mm * mm * 2 * 2, 8, |t, st| {
        let stream = t % 2 == 1;
        let sym = (t / 2) % 2 == 1;
        let j = t / 4;
        let mk = |n: &String, second: bool| En { name: n.clone(), kind: if n.ends_with('/') { 1 } else if sym && second { 2 } else { 0 }, content: if second { b"two!!".to_vec() } else { b"one".to_vec() }, perm: Some(if n.ends_with('/') { 0o750 } else { 0o640 }) };
        let e = vec![mk(&red_r[(j / mm) as usize], false), mk(&red_r[(j % mm) as usize], true)];
        check_case(&e, stream, base_r, (2 << 40) + t, st, (2 << 40) + t, "two-entries");
    });
    ctx.stats.merge(s);
    // three-entry archives
    // (names that are string prefixes of one another without being path prefixes: "ab/y" vs "abc/x" vs "ab.txt")
    let r8: Vec<String> = ["a", "a/", "a/b", "b/", "b/c/d", "../x", "c", "a/b/", "ab/y", "abc/x", "ab.txt"].iter().map(|s| s.to_string()).collect();
    let r8_r = &r8;
    let nn = r8.len();
    let s = par_for((nn * nn * nn * 2) as u64, 8, |t, st| {
        let stream = t % 2 == 1;
        let j = (t / 2) as usize;
        let mk = |n: &String, k: usize| En { name: n.clone(), kind: if n.ends_with('/') { 1 } else { 0 }, content: vec![b'0' + k as u8; k + 1], perm: Some(if n.ends_with('/') { 0o711 } else { 0o604 }) };
        let e = vec![mk(&r8_r[j / (nn * nn)], 0), mk(&r8_r[(j / nn) % nn], 1), mk(&r8_r[j % nn], 2)];
        check_case(&e, stream, base_r, (3 << 40) + t, st, (3 << 40) + t, "three-entries");
    });
    ctx.stats.merge(s);
    // the target directory spelled three other ways by the caller (through a symlinked parent, with a `sibling/..` detour, with
    // `.` components): every ordered pair over 12 names, both extractors
    {
        let tn: Vec<String> = ["a", "a/", "a/b", "b/c/d", "c", "../x", "a/../b", "./a", "{CANARY}/pwned", "./{CANARY}/pwned", "d/", "ab.txt"].iter().map(|s| s.to_string()).collect();
        let tn_r = &tn;
        let nt = tn.len() as u64;
        let s = par_for(nt * nt * 3 * 2, 8, |t, st| {
            let stream = t % 2 == 1;
            let via = [VIA_SYMLINK, VIA_DOTDOT, VIA_DOT][((t / 2) % 3) as usize];
            let j = t / 6;
            let mk = |n: &String, k: usize| En { name: n.clone(), kind: if n.ends_with('/') { 1 } else { 0 }, content: vec![b'a' + k as u8; 3 * k + 1], perm: Some(if n.ends_with('/') { 0o755 } else { 0o644 }) };
            let e = vec![mk(&tn_r[(j / nt) as usize], 0), mk(&tn_r[(j % nt) as usize], 1)];
            check_case_layout(&e, stream, base_r, (9 << 40) + t, st, (9 << 40) + t, "target-spelling", via);
        });
        ctx.stats.merge(s);
        ctx.bound("target_spellings", json!({"spellings": ["<root>/shortcut/target with shortcut -> l1/l2/l3 (symbolic link)", "l1/l2/l3/sibling/../target", "l1/l2/./l3/target/."], "names": tn, "archives": "every ordered pair"}));
    }
    // central record and local header disagree on the name: every (local, central) pair over 6 harmless and 9 escaping
    // names x {file, directory} x modes {0o777, 0o000, 0o4755}, alone and behind an ordinary first entry
    {
        let safe = ["a", "keep", "s", "d/f", "canary/keep", "x/"];
        let evil = ["../../../../canary/keep", "{CANARY}/keep", "{CANARY}", "../sibling/s", "../sibling", "../a", "../../a", "a/../../sibling/s", "../../../../canary"];
        let all: Vec<String> = safe.iter().chain(evil.iter()).map(|s| s.to_string()).collect();
        let na = all.len() as u64;
        let all_r = &all;
        let modes = [0o777u32, 0o000, 0o4755];
        let s = par_for(na * na * 3 * 2 * 2, 8, |t, st| {
            let stream = t % 2 == 1;
            let with_first = (t / 2) % 2 == 1;
            let mode = modes[((t / 4) % 3) as usize];
            let j = t / 12;
            let (l, c) = (&all_r[(j / na) as usize], &all_r[(j % na) as usize]);
            if l == c {
                return;
            }
            let kind = if c.ends_with('/') || l.ends_with('/') { 1 } else { 0 };
            let mut pairs = vec![];
            if with_first {
                pairs.push(("first.txt".to_string(), "first.txt".to_string(), 0u8, 0o644u32));
            }
            pairs.push((l.clone(), c.clone(), kind, mode));
            check_split_case(&pairs, stream, base_r, (6 << 40) + t, st, (6 << 40) + t);
        });
        ctx.stats.merge(s);
        ctx.bound("split_names", json!({"names": all, "modes": ["777", "000", "4755"], "pairs": "every ordered pair (local header name, central record name), alone and after an ordinary entry", "oracle": "confinement and no panic"}));
    }
    // entries the extractor cannot decode (no password given; a method it does not implement) under unsafe names: the name
    // decides, the call fails. And names that are not flagged UTF-8 (CP437), with high bytes that happen to be well-formed
    // UTF-8: one tree, the same under both extractors.
    {
        use crate::reference::zipbuild::Enc;
        let mut st = Stats::default();
        let mut k = 0u64;
        for name in ["../escape", "/abs/escape", "a/../../escape"] {
            for kind in 0..2 {
                for stream in [false, true] {
                    let bad = if kind == 0 {
                        ESpec { name: name.as_bytes().to_vec(), utf8: true, method: 0, content: b"secret".to_vec(), enc: Enc::ZipCrypto { pw: b"pw".to_vec(), infozip: false }, ..Default::default() }
                    } else {
                        ESpec { name: name.as_bytes().to_vec(), utf8: true, method: 14, content: vec![], raw_payload: Some(b"\x5d\0\0opaque".to_vec()), ..Default::default() }
                    };
                    let spec = Spec { entries: vec![ESpec { name: b"ok.txt".to_vec(), content: b"ok".to_vec(), ..Default::default() }, bad], ..Default::default() };
                    k += 1;
                    check_spec_case(&spec, None, stream, base_r, (8 << 40) + k, &mut st, (8 << 40) + k, if kind == 0 { "undecodable(encrypted)+unsafe-name" } else { "undecodable(method 14)+unsafe-name" });
                }
            }
        }
        for raw in [&b"caf\xC3\xA9.txt"[..], b"d\xC3\xA9/f\xE2\x82\xAC", b"\x80\x81", b"plain"] {
            for stream in [false, true] {
                let dec = crate::reference::cp437::decode(raw);
                let spec = Spec { entries: vec![ESpec { name: raw.to_vec(), utf8: false, method: 8, content: b"cp437-named entry".to_vec(), ext_attr: 0o100640 << 16, ..Default::default() }], ..Default::default() };
                let mut tree: BTreeMap<PathBuf, (bool, Vec<u8>)> = BTreeMap::new();
                let comps: Vec<&str> = dec.split('/').collect();
                for i in 1..comps.len() {
                    tree.insert(PathBuf::from(comps[..i].join("/")), (true, vec![]));
                }
                tree.insert(PathBuf::from(&dec), (false, b"cp437-named entry".to_vec()));
                k += 1;
                check_spec_case(&spec, Some(&tree), stream, base_r, (8 << 40) + k, &mut st, (8 << 40) + k, "cp437-name");
            }
        }
        ctx.stats.merge(st);
    }
    // one five-entry tree (70 001-byte and empty files, explicit and implied directories) in all 120 entry orders x 8 archive layouts
    let big = crate::zipapi::content_class(4, args.seed);
    // one-entry archives whose content compresses to exactly its own length (per method; spec_of deflates anything longer than 3 bytes)
    {
        let neutral: Vec<Vec<u8>> = crate::zipapi::neutral_contents().into_iter().filter(|(m, _)| *m == 8).map(|(_, c)| c).collect();
        let mut st = Stats::default();
        for (k, c) in neutral.iter().enumerate() {
            for stream in [false, true] {
                let e = vec![En { name: "docs/neutral.txt".into(), kind: 0, content: c.clone(), perm: Some(0o644) }, En { name: "plain.txt".into(), kind: 0, content: b"abc".to_vec(), perm: Some(0o600) }];
                check_case(&e, stream, base_r, (7 << 40) + (k * 2 + stream as usize) as u64, &mut st, (7 << 40) + k as u64, "size-neutral-content");
            }
        }
        ctx.stats.merge(st);
    }
    let tree: Vec<En> = vec![
        En { name: "top.txt".into(), kind: 0, content: b"12345".to_vec(), perm: Some(0o644) },
        En { name: "dir/".into(), kind: 1, content: vec![], perm: Some(0o755) },
        En { name: "dir/big.bin".into(), kind: 0, content: big, perm: Some(0o600) },
        En { name: "dir/sub/deep/empty".into(), kind: 0, content: vec![], perm: Some(0o640) },
        En { name: "other/implied/x".into(), kind: 0, content: crate::zipapi::content_class(3, args.seed), perm: Some(0o444) },
    ];
    let mut perms: Vec<Vec<usize>> = vec![];
    fn permute(cur: &mut Vec<usize>, n: usize, out: &mut Vec<Vec<usize>>) {
        if cur.len() == n {
            out.push(cur.clone());
            return;
        }
        for i in 0..n {
            if !cur.contains(&i) {
                cur.push(i);
                permute(cur, n, out);
                cur.pop();
            }
        }
    }
    permute(&mut vec![], tree.len(), &mut perms);
    let (tree_r, perms_r) = (&tree, &perms);
    let s = par_for(perms.len() as u64 * 11 * 2 * 2, 4, |t, st| {
        let stream = t % 2 == 1;
        let layout = ((t / 2) % 11) as u8;
        let prepop = (t / 22) % 2 == 1;
        // data descriptors, prepended data and a gapped directory are not streamable by construction
        if stream && matches!(layout, 2 | 3 | 6) {
            return;
        }
        let es: Vec<En> = perms_r[(t / 44) as usize].iter().map(|i| tree_r[*i].clone()).collect();
        check_case_layout(&es, stream, base_r, (4 << 40) + t, st, (4 << 40) + t, "layouts", layout | if prepop { PREPOPULATED } else { 0 });
    });
    ctx.stats.merge(s);
    ctx.bound("layouts", json!(LAYOUTS));
    ctx.bound("target_directory", json!(["fresh", "already holding a 100 000-byte file (mode 0600) at every file path of the archive"]));
    let _ = std::fs::remove_dir_all(&base);
    ctx.stats.states = ctx.stats.distinct.len() as u64;
    ctx.stats.transitions = ctx.stats.evals;
    ctx.stats.traces = ctx.stats.evals;
    ctx.finish()
}

use crate::util::{Ctx, Stats};
use crate::Args;
use serde_json::Value;

pub mod c01;
pub mod c02;
pub mod c03;
pub mod c04;
pub mod c05;
pub mod c06;
pub mod c07;
pub mod c08;
pub mod c09;
pub mod c10;
pub mod c11;
pub mod c12;
pub mod c13;
pub mod c14;
pub mod c15;
pub mod c16;
pub mod c17;
pub mod c18;
pub mod c19;
pub mod c20;

pub fn run(prop: &str, args: &Args) -> i32 {
    match prop {
        "C01" => c01::run(args),
        "C02" => c02::run(args),
        "C03" => c03::run(args),
        "C04" => c04::run(args),
        "C05" => c05::run(args),
        "C06" => c06::run(args),
        "C07" => c07::run(args),
        "C08" => c08::run(args),
        "C09" => c09::run(args),
        "C10" => c10::run(args),
        "C11" => c11::run(args),
        "C12" => c12::run(args),
        "C13" => c13::run(args),
        "C14" => c14::run(args),
        "C15" => c15::run(args),
        "C16" => c16::run(args),
        "C17" => c17::run(args),
        "C18" => c18::run(args),
        "C19" => c19::run(args),
        "C20" => c20::run(args),
        _ => {
            crate::diag!("unknown property {prop}");
            2
        }
    }
}

/// Re-execute exactly one recorded case, twice, without any explorer.
pub fn replay_file(ctx: Ctx, path: &str, f: impl Fn(&Value, &mut Stats)) -> i32 {
    let txt = match std::fs::read_to_string(path) {
        Ok(t) => t,
        Err(e) => {
            crate::diag!("machinery: cannot read replay file {path}: {e}");
            return 2;
        }
    };
    let v: Value = match serde_json::from_str(&txt) {
        Ok(v) => v,
        Err(e) => {
            crate::diag!("machinery: replay file is not JSON: {e}");
            return 2;
        }
    };
    let case = if v.get("case").is_some() { v["case"].clone() } else { v.clone() };
    println!("replaying case: {}", serde_json::to_string(&case).unwrap_or_default());
    let mut a = Stats::default();
    f(&case, &mut a);
    let mut b = Stats::default();
    f(&case, &mut b);
    let sa: Vec<&String> = a.viols.iter().map(|v| &v.sig).collect();
    let sb: Vec<&String> = b.viols.iter().map(|v| &v.sig).collect();
    if sa != sb {
        crate::diag!("MACHINERY-ERROR: replay is not deterministic: {sa:?} vs {sb:?}");
        return 2;
    }
    if a.viols.is_empty() {
        println!("replay: the case satisfies property {}", ctx.prop);
        0
    } else {
        for v in &a.viols {
            println!("  violation [{}]: {}", v.sig, v.detail);
        }
        println!("VIOLATION property={} replay={}", ctx.prop, path);
        1
    }
}

pub fn selftest() -> i32 {
    if let Err(e) = crate::reference::crc32::selftest() {
        crate::diag!("selftest: crc32: {e}");
        return 2;
    }
    println!("selftest ok");
    0
}

//! C08 — archives beyond the 16/32-bit limits stay correct (ZIP64).
//! E-PROD over boundary counts, sizes and offsets, realised through a sparse in-memory
//! sink/source so that multi-GiB archives cost time but no memory.

use crate::reference::crc32;
use crate::reference::zipparse::{self, Blob, Opts};
use crate::sio::sparse::SparseFile;
use crate::util::{guard, panic_site, par_for, Stats};
use crate::zipapi::*;
use crate::Args;
use serde_json::{json, Value};
use std::io::{Read, Seek, SeekFrom, Write};

const G4: u64 = 1 << 32;
const CHUNK: usize = 4 << 20;

#[derive(Clone, Debug)]
pub struct Item {
    pub size: u64,
    pub large: bool,
    pub method: u16,
    pub password: bool,
    /// how the entry is started: 0 start_file; 1 start_file_with_extra_data + a local/central record + end_extra_data;
    /// 2 start_file_aligned(4096); 3 start_file_with_extra_data + end_local_start_central + a central-only record + end_extra_data
    pub start: u8,
}
#[derive(Clone, Debug)]
pub struct Case {
    pub label: String,
    pub items: Vec<Item>,
    pub comment: Vec<u8>,
}
impl Case {
    fn json(&self) -> Value {
        json!({"kind": "sizes", "label": self.label, "comment": crate::util::hex(&self.comment),
               "items": self.items.iter().map(|i| json!({"size": i.size, "large": i.large, "method": i.method, "password": i.password, "start": i.start})).collect::<Vec<_>>()})
    }
    fn from(v: &Value) -> Case {
        Case {
            label: v["label"].as_str().unwrap_or("replay").to_string(),
            comment: crate::util::unhex(v["comment"].as_str().unwrap_or("")),
            items: v["items"].as_array().map(|a| a.iter().map(|i| Item { size: i["size"].as_u64().unwrap_or(0), large: i["large"].as_bool().unwrap_or(false), method: i["method"].as_u64().unwrap_or(0) as u16, password: i["password"].as_bool().unwrap_or(false), start: i["start"].as_u64().unwrap_or(0) as u8 }).collect()).unwrap_or_default(),
        }
    }
}

/// Write `n` zero bytes through the writer; returns the number of bytes whose write returned Ok.
fn write_zeros<S: Write + Seek>(w: &mut W<S>, n: u64, zeros: &Call, first_err: &mut Option<String>) -> u64 {
    let mut done = 0u64;
    while done < n {
        let k = (n - done).min(CHUNK as u64);
        let r = if k == CHUNK as u64 { w.call(zeros, &[]) } else { w.call(&Call::Write(vec![0u8; k as usize]), &[]) };
        match r {
            Res::Ok(_) => done += k,
            Res::Err(e) => {
                *first_err = Some(e);
                break;
            }
            Res::Panic(p) => {
                *first_err = Some(format!("PANIC {p}"));
                break;
            }
        }
    }
    done
}

/// Read an entry of a sparse archive to the end, counting bytes and checking they are zero.
fn read_count<R: Read>(r: &mut R) -> Result<(u64, bool), String> {
    let mut buf = vec![0u8; CHUNK];
    let mut n = 0u64;
    let mut zero = true;
    loop {
        match r.read(&mut buf) {
            Ok(0) => return Ok((n, zero)),
            Ok(k) => {
                n += k as u64;
                if zero && buf[..k].iter().any(|b| *b != 0) {
                    zero = false;
                }
            }
            Err(e) => return Err(e.to_string()),
        }
    }
}

pub fn check_sizes(c: &Case, st: &mut Stats, order: u64) {
    st.evals += 1;
    let case = || c.json();
    let zeros = Call::Write(vec![0u8; CHUNK]);
    let mut sf = SparseFile::new();
    let mut accepted: Vec<u64> = vec![];
    let mut any_err: Option<String> = None;
    let mut overflow_expected = false;
    let fin;
    {
        let mut w = W::new(&mut sf);
        if !c.comment.is_empty() {
            w.call(&Call::SetComment(c.comment.clone()), &[]);
        }
        for (i, it) in c.items.iter().enumerate() {
            let opts = FOpts { large: it.large, password: if it.password { Some(b"pw".to_vec()) } else { None }, ..FOpts::m(it.method) };
            let name = format!("e{i}");
            let rec = |id: u16| {
                let mut v = id.to_le_bytes().to_vec();
                v.extend_from_slice(&[3, 0, b'x', b'y', b'z']);
                Call::Write(v)
            };
            let seq: Vec<Call> = match it.start {
                1 => vec![Call::StartExtra { name, opts }, rec(0xbeef), Call::EndExtra],
                2 => vec![Call::StartAligned { name, opts, align: 4096 }],
                3 => vec![Call::StartExtra { name, opts }, Call::EndLocalStartCentral, rec(0xcafe), Call::EndExtra],
                _ => vec![Call::StartFile { name, opts }],
            };
            let mut failed = false;
            for c in &seq {
                let r = w.call(c, &[]);
                if !r.is_ok() {
                    any_err.get_or_insert(r.show());
                    failed = true;
                    break;
                }
            }
            if failed {
                break;
            }
            // stored size (incl. the 12-byte crypto header) or content size beyond 32 bits without large_file must be refused
            let stored = if it.method == 0 { it.size + if it.password { 12 } else { 0 } } else { 0 };
            if !it.large && (it.size > G4 - 1 || stored > G4 - 1) {
                overflow_expected = true;
            }
            let mut e = None;
            let done = write_zeros(&mut w, it.size, &zeros, &mut e);
            accepted.push(done);
            if let Some(e) = e {
                any_err.get_or_insert(e);
                break;
            }
        }
        fin = w.call(&Call::Finish, &[]);
        if let Res::Panic(p) = &fin {
            st.viol(format!("sizes/panic/finish/{}", panic_site(p)), format!("{}: finish panicked: {p}", c.label), case(), order);
            return;
        }
    }
    if let Some(e) = &any_err {
        if e.starts_with("PANIC") {
            st.viol(format!("sizes/panic/{}", panic_site(e)), format!("{}: {e}", c.label), case(), order);
            return;
        }
    }
    if overflow_expected {
        // (a) some call must fail, and no finished archive with wrapped sizes
        if any_err.is_none() && fin.is_ok() {
            st.class("OVERFLOW-ACCEPTED");
            st.viol("sizes/overflow-accepted", format!("{}: more than 4 GiB - 1 went into an entry not declared large and every call incl. finish succeeded", c.label), case(), order);
        } else if fin.is_ok() {
            // finish succeeded after a refused write: the archive must be valid and hold what was accepted
            match zipparse::validate(&sf, &Opts { password: Some(b"pw".to_vec()), ..Opts::strict() }) {
                Ok(p) => {
                    for (e, a) in p.entries.iter().zip(&accepted) {
                        if e.usize_ != *a && e.flags & 1 == 0 {
                            st.viol("sizes/wrapped-after-refusal", format!("{}: finished archive records size {} for an entry that accepted {a} bytes", c.label, e.usize_), case(), order);
                        }
                    }
                    st.class("overflow-refused-then-valid-archive");
                }
                Err(e) => st.viol(format!("sizes/corrupt-after-refusal/{}", e.clause), format!("{}: write was refused, finish succeeded, archive invalid: {e}", c.label), case(), order),
            }
        } else {
            st.class("overflow-refused");
        }
        return;
    }
    if let Some(e) = any_err {
        st.class("VALID-REFUSED");
        st.viol(format!("sizes/valid-write-refused/{}", panic_site(&e)), format!("{}: a representable archive was refused: {e}", c.label), case(), order);
        return;
    }
    if let Res::Err(e) = &fin {
        st.class("VALID-REFUSED");
        st.viol(format!("sizes/finish-refused/{}", panic_site(e)), format!("{}: finish failed: {e}", c.label), case(), order);
        return;
    }
    verify_big(&sf, &c.items.iter().map(|i| (i.size, i.method, i.password)).collect::<Vec<_>>(), &c.comment, &c.label, st, &case, order);
}

/// Independent parser and crate reader must recover every value of a sparse archive of zero-filled entries.
fn verify_big(sf: &SparseFile, items: &[(u64, u16, bool)], comment: &[u8], label: &str, st: &mut Stats, case: &dyn Fn() -> Value, order: u64) {
    let mut ok = true;
    let mut bad = |what: &str, detail: String, st: &mut Stats| {
        ok = false;
        st.viol(format!("sizes/{what}"), format!("{label}: {detail}"), case(), order);
    };
    let parsed = match zipparse::validate(sf, &Opts { password: Some(b"pw".to_vec()), decode_limit: 1 << 20, ..Opts::strict() }) {
        Ok(p) => Some(p),
        Err(e) => {
            bad(&format!("independent-parser/{}", e.clause), format!("strict parser rejects the archive: {e}"), st);
            None
        }
    };
    if let Some(p) = &parsed {
        if p.entries.len() != items.len() {
            bad("independent-count", format!("{} entries, expected {}", p.entries.len(), items.len()), st);
        }
        for (i, (e, (size, m, pw))) in p.entries.iter().zip(items).enumerate() {
            if e.usize_ != *size {
                bad("independent-size", format!("entry {i}: size {} recorded, {size} written", e.usize_), st);
            }
            if *m == 0 && e.csize != size + if *pw { 12 } else { 0 } {
                bad("independent-csize", format!("entry {i}: compressed size {} for a stored entry of {size}", e.csize), st);
            }
            if e.crc != crc32::crc32_zeros(*size) {
                bad("independent-crc", format!("entry {i}: crc {:#x}, crc of {size} zeros is {:#x}", e.crc, crc32::crc32_zeros(*size)), st);
            }
        }
        if p.comment != comment {
            bad("independent-comment", "comment differs".into(), st);
        }
    }
    // crate reader
    let r = guard(|| {
        let mut ar = zip::ZipArchive::new(sf.clone()).map_err(|e| format!("open: {e}"))?;
        if ar.len() != items.len() {
            return Err(format!("{} entries, expected {}", ar.len(), items.len()));
        }
        if ar.comment() != comment {
            return Err("comment differs".into());
        }
        let mut out = vec![];
        for i in 0..ar.len() {
            let mut f = if items[i].2 { ar.by_index_decrypt(i, b"pw").map_err(|e| format!("entry {i}: {e}"))?.map_err(|_| format!("entry {i}: invalid password"))? } else { ar.by_index(i).map_err(|e| format!("entry {i}: {e}"))? };
            let meta = (f.size(), f.compressed_size(), f.crc32(), f.header_start(), f.data_start());
            let (n, zero) = read_count(&mut f).map_err(|e| format!("entry {i}: read: {e}"))?;
            out.push((meta, n, zero));
        }
        Ok(out)
    });
    match r {
        Err(p) => bad(&format!("reader-panic/{}", panic_site(&p)), format!("reader panicked: {p}"), st),
        Ok(Err(e)) => bad(&format!("reader/{}", panic_site(&e)), format!("crate reader: {e}"), st),
        Ok(Ok(v)) => {
            for (i, ((meta, n, zero), (size, _, _))) in v.iter().zip(items).enumerate() {
                if meta.0 != *size || *n != *size || !zero {
                    bad("reader-size", format!("entry {i}: size() {}, {} bytes read (all zero: {zero}), {size} written", meta.0, n), st);
                }
                if meta.2 != crc32::crc32_zeros(*size) {
                    bad("reader-crc", format!("entry {i}: crc32() {:#x}", meta.2), st);
                }
                if let Some(p) = &parsed {
                    if let Some(e) = p.entries.get(i) {
                        if meta.3 != e.local_pos || meta.4 != e.data_pos || meta.1 != e.csize {
                            bad("reader-offsets", format!("entry {i}: header_start {} data_start {} csize {}; independent parser: {} {} {}", meta.3, meta.4, meta.1, e.local_pos, e.data_pos, e.csize), st);
                        }
                    }
                }
            }
        }
    }
    st.class(if ok { "big-archive-recovered" } else { "BIG-MISMATCH" });
}

pub fn check_count(n: usize, comment: &[u8], st: &mut Stats, order: u64) {
    st.evals += 1;
    let case = || json!({"kind": "count", "n": n, "comment": crate::util::hex(comment)});
    let mut sf = SparseFile::new();
    {
        let mut w = W::new(&mut sf);
        if !comment.is_empty() {
            w.call(&Call::SetComment(comment.to_vec()), &[]);
        }
        for i in 0..n {
            // every 1000th entry has a byte of content
            let r = w.call(&Call::StartFile { name: format!("n{i}"), opts: FOpts::m(0) }, &[]);
            if !r.is_ok() {
                st.viol("count/start_file-failed", format!("{n} entries: start_file #{i} gave {}", r.show()), case(), order);
                return;
            }
            if i % 1000 == 999 {
                w.call(&Call::Write(vec![(i % 251) as u8]), &[]);
            }
        }
        let r = w.call(&Call::Finish, &[]);
        if !r.is_ok() {
            st.viol("count/finish-failed", format!("{n} entries: finish gave {}", r.show()), case(), order);
            return;
        }
    }
    let mut ok = true;
    match zipparse::validate(&sf, &Opts::strict()) {
        Ok(p) => {
            if p.entries.len() != n || p.count != n as u64 {
                ok = false;
                st.viol("count/independent-count", format!("{n} entries written, independent parser sees {}", p.entries.len()), case(), order);
            }
            if (n > 65535) != p.zip64_eocd_pos.is_some() && n > 65535 {
                ok = false;
                st.viol("count/zip64-records-missing", format!("{n} entries without ZIP64 end records"), case(), order);
            }
            if p.comment != comment {
                ok = false;
                st.viol("count/comment", "comment differs".to_string(), case(), order);
            }
            for (i, e) in p.entries.iter().enumerate() {
                if e.name != format!("n{i}").as_bytes() {
                    ok = false;
                    st.viol("count/independent-names", format!("entry {i} is named {:?}", String::from_utf8_lossy(&e.name)), case(), order);
                    break;
                }
            }
        }
        Err(e) => {
            ok = false;
            st.viol(format!("count/independent-parser/{}", e.clause), format!("{n} entries: {e}"), case(), order)
        }
    }
    let r = guard(|| {
        let mut ar = zip::ZipArchive::new(sf.clone()).map_err(|e| e.to_string())?;
        if ar.len() != n {
            return Err(format!("len() = {}", ar.len()));
        }
        if ar.comment() != comment {
            return Err("comment differs".into());
        }
        for i in (0..n).step_by(997).chain(n.saturating_sub(3)..n) {
            let mut f = ar.by_index(i).map_err(|e| format!("by_index({i}): {e}"))?;
            if f.name() != format!("n{i}") {
                return Err(format!("entry {i} is named {:?}", f.name()));
            }
            let mut v = vec![];
            f.read_to_end(&mut v).map_err(|e| e.to_string())?;
            let want: Vec<u8> = if i % 1000 == 999 { vec![(i % 251) as u8] } else { vec![] };
            if v != want {
                return Err(format!("entry {i} content {v:?}"));
            }
        }
        if n > 0 {
            let last = format!("n{}", n - 1);
            ar.by_name(&last).map_err(|e| format!("by_name({last}): {e}"))?;
        }
        Ok(())
    });
    match r {
        Ok(Ok(())) => {}
        Ok(Err(e)) => {
            ok = false;
            st.viol("count/reader", format!("{n} entries: crate reader: {e}"), case(), order)
        }
        Err(p) => {
            ok = false;
            st.viol(format!("count/reader-panic/{}", panic_site(&p)), p, case(), order)
        }
    }
    // the same archive through the streaming reader's visitor: every entry once, then every directory record's metadata, a
    // clean end (the ZIP64 end records sit behind the last directory record when the count needs them). An archive without
    // entries is outside what C10 states about the streaming reader (it begins with an end record, which that reader
    // reports as an invalid local header): not judged here either.
    if n > 0 {
        struct V {
            files: usize,
            metas: usize,
            bad: Option<String>,
        }
        impl zip::unstable::stream::ZipStreamVisitor for V {
            fn visit_file(&mut self, f: &mut zip::read::ZipFile<'_>) -> zip::result::ZipResult<()> {
                if self.bad.is_none() && f.name() != format!("n{}", self.files) {
                    self.bad = Some(format!("streamed entry {} is named {:?}", self.files, f.name()));
                }
                let mut v = vec![];
                if let Err(e) = f.read_to_end(&mut v) {
                    self.bad.get_or_insert(format!("streamed entry {}: {e}", self.files));
                }
                let want: Vec<u8> = if self.files % 1000 == 999 { vec![(self.files % 251) as u8] } else { vec![] };
                if v != want {
                    self.bad.get_or_insert(format!("streamed entry {} content {v:?}", self.files));
                }
                self.files += 1;
                Ok(())
            }
            fn visit_additional_metadata(&mut self, m: &zip::unstable::stream::ZipStreamFileMetadata) -> zip::result::ZipResult<()> {
                if self.bad.is_none() && m.name() != format!("n{}", self.metas) {
                    self.bad = Some(format!("directory record {} is named {:?}", self.metas, m.name()));
                }
                self.metas += 1;
                Ok(())
            }
        }
        let mut v = V { files: 0, metas: 0, bad: None };
        sf.seek(SeekFrom::Start(0)).ok();
        let r = guard(|| zip::unstable::stream::ZipStreamReader::new(&mut sf).visit(&mut v).map_err(|e| e.to_string()));
        let verdict = match r {
            Err(p) => Some(format!("panicked: {p}")),
            Ok(Err(e)) => Some(format!("visit() failed after {} entries and {} directory records: {e}", v.files, v.metas)),
            Ok(Ok(())) => v.bad.clone().or(if v.files != n || v.metas != n { Some(format!("{} entries and {} directory records visited", v.files, v.metas)) } else { None }),
        };
        if let Some(e) = verdict {
            ok = false;
            st.viol("count/stream-visitor", format!("{n} entries: ZipStreamReader::visit: {e}"), case(), order);
        }
    }
    // the archive re-opened for append, one entry added, finished: the count moves on by one (across 65535 / 65536 too)
    if ok && n >= 65534 {
        let r = guard(|| -> Result<(), String> {
            sf.seek(SeekFrom::Start(0)).map_err(|e| e.to_string())?;
            {
                let mut zw = zip::ZipWriter::new_append(&mut sf).map_err(|e| format!("new_append: {e}"))?;
                zw.start_file("appended", FOpts::m(0).to_zip()).map_err(|e| format!("start_file: {e}"))?;
                zw.write_all(b"appended").map_err(|e| e.to_string())?;
                zw.finish().map_err(|e| format!("finish: {e}"))?;
            }
            let mut ar = zip::ZipArchive::new(sf.clone()).map_err(|e| format!("re-open: {e}"))?;
            if ar.len() != n + 1 || ar.comment() != comment {
                return Err(format!("{} entries after the append round", ar.len()));
            }
            for (i, name) in [(0usize, "n0".to_string()), (n - 1, format!("n{}", n - 1)), (n, "appended".to_string())] {
                let f = ar.by_index(i).map_err(|e| format!("by_index({i}): {e}"))?;
                if f.name() != name {
                    return Err(format!("entry {i} is named {:?}", f.name()));
                }
            }
            let p = zipparse::validate(&sf, &Opts::lenient()).map_err(|e| format!("independent parser: {e}"))?;
            if p.entries.len() != n + 1 || p.count != n as u64 + 1 {
                return Err(format!("independent parser sees {} entries", p.entries.len()));
            }
            Ok(())
        });
        match r {
            Ok(Ok(())) => st.class("count+1-after-append"),
            Ok(Err(e)) => {
                ok = false;
                st.viol("count/append-round", format!("{n} entries, re-opened with new_append, one entry added: {e}"), case(), order)
            }
            Err(p) => {
                ok = false;
                st.viol(format!("count/append-panic/{}", panic_site(&p)), p, case(), order)
            }
        }
    }
    st.class(if ok { "count-recovered" } else { "COUNT-MISMATCH" });
}

// ---------------------------------------------------------------------------------------------
// foreign sparse archives with true > 4 GiB values

fn put(sf: &mut SparseFile, b: &[u8]) {
    sf.write_all(b).unwrap();
}
fn le16(v: u16) -> [u8; 2] {
    v.to_le_bytes()
}
fn le32(v: u32) -> [u8; 4] {
    v.to_le_bytes()
}
fn le64(v: u64) -> [u8; 8] {
    v.to_le_bytes()
}

/// One stored, zero-filled entry of `size` bytes whose local header sits at `offset`;
/// `force`: put every field into the central ZIP64 block even if it would fit.
pub fn foreign_big(offset: u64, size: u64, force: bool) -> SparseFile {
    foreign_big_m(offset, size, size, 0, force)
}

/// The general form: `csize` zero bytes stored as the entry's data under `method`, claiming `usize_` uncompressed bytes
/// (for method 0 the two are equal; for other methods the payload is opaque - raw copies never decode it).
pub fn foreign_big_m(offset: u64, csize: u64, usize_: u64, method: u16, force: bool) -> SparseFile {
    let mut sf = SparseFile::new();
    sf.seek(SeekFrom::Start(offset)).unwrap();
    let crc = crc32::crc32_zeros(usize_);
    let c64 = csize >= G4 - 1 || force;
    let u64_ = usize_ >= G4 - 1 || force;
    let size64 = c64 || u64_;
    let off64 = offset >= G4 - 1 || force;
    // local header (a local ZIP64 block always carries both sizes)
    put(&mut sf, &le32(0x04034b50));
    put(&mut sf, &le16(45));
    put(&mut sf, &le16(0));
    put(&mut sf, &le16(method));
    put(&mut sf, &le16(0x6000));
    put(&mut sf, &le16(0x5821));
    put(&mut sf, &le32(crc));
    put(&mut sf, &le32(if size64 { 0xffff_ffff } else { csize as u32 }));
    put(&mut sf, &le32(if size64 { 0xffff_ffff } else { usize_ as u32 }));
    put(&mut sf, &le16(3));
    put(&mut sf, &le16(if size64 { 20 } else { 0 }));
    put(&mut sf, b"big");
    if size64 {
        put(&mut sf, &le16(1));
        put(&mut sf, &le16(16));
        put(&mut sf, &le64(usize_));
        put(&mut sf, &le64(csize));
    }
    let data = sf.stream_position().unwrap();
    sf.seek(SeekFrom::Start(data + csize)).unwrap();
    // central
    let cd = sf.stream_position().unwrap();
    let mut z = vec![];
    if u64_ {
        z.extend_from_slice(&le64(usize_));
    }
    if c64 {
        z.extend_from_slice(&le64(csize));
    }
    if off64 {
        z.extend_from_slice(&le64(offset));
    }
    put(&mut sf, &le32(0x02014b50));
    put(&mut sf, &le16((3 << 8) | 45));
    put(&mut sf, &le16(45));
    put(&mut sf, &le16(0));
    put(&mut sf, &le16(method));
    put(&mut sf, &le16(0x6000));
    put(&mut sf, &le16(0x5821));
    put(&mut sf, &le32(crc));
    put(&mut sf, &le32(if c64 { 0xffff_ffff } else { csize as u32 }));
    put(&mut sf, &le32(if u64_ { 0xffff_ffff } else { usize_ as u32 }));
    put(&mut sf, &le16(3));
    put(&mut sf, &le16(if z.is_empty() { 0 } else { 4 + z.len() as u16 }));
    put(&mut sf, &le16(0));
    put(&mut sf, &le16(0));
    put(&mut sf, &le16(0));
    put(&mut sf, &le32(0o100644 << 16));
    put(&mut sf, &le32(if off64 { 0xffff_ffff } else { offset as u32 }));
    put(&mut sf, b"big");
    if !z.is_empty() {
        put(&mut sf, &le16(1));
        put(&mut sf, &le16(z.len() as u16));
        put(&mut sf, &z);
    }
    let cd_end = sf.stream_position().unwrap();
    // ZIP64 end records (the directory offset does not fit, or forced)
    put(&mut sf, &le32(0x06064b50));
    put(&mut sf, &le64(44));
    put(&mut sf, &le16(45));
    put(&mut sf, &le16(45));
    put(&mut sf, &le32(0));
    put(&mut sf, &le32(0));
    put(&mut sf, &le64(1));
    put(&mut sf, &le64(1));
    put(&mut sf, &le64(cd_end - cd));
    put(&mut sf, &le64(cd));
    put(&mut sf, &le32(0x07064b50));
    put(&mut sf, &le32(0));
    put(&mut sf, &le64(cd_end));
    put(&mut sf, &le32(1));
    put(&mut sf, &le32(0x06054b50));
    put(&mut sf, &le16(0));
    put(&mut sf, &le16(0));
    put(&mut sf, &le16(if force { 0xffff } else { 1 }));
    put(&mut sf, &le16(if force { 0xffff } else { 1 }));
    put(&mut sf, &le32(if force { 0xffff_ffff } else { (cd_end - cd) as u32 }));
    put(&mut sf, &le32(if cd >= G4 - 1 || force { 0xffff_ffff } else { cd as u32 }));
    put(&mut sf, &le16(0));
    sf.seek(SeekFrom::Start(0)).unwrap();
    sf
}

/// A foreign archive behind `prefix` bytes of other data whose only entry has its header `offset` bytes into the archive
/// (offset >= 4 GiB: the ZIP64 block carries it), re-opened with new_append and finished again (nothing added / one small
/// entry added): every old value, the header offset included, must still be recovered exactly.
fn check_prefixed_big_append(prefix: u64, offset: u64, add: bool, st: &mut Stats, order: u64) {
    st.evals += 1;
    let case = || json!({"kind": "prefixed-append", "prefix": prefix, "offset": offset, "add": add});
    let label = format!("archive behind {prefix} prepended bytes, entry header {offset} bytes into it, re-opened for append ({})", if add { "one entry added" } else { "nothing added" });
    // build at absolute positions, then shift: the builder records absolute offsets, so build it as if there were no prefix
    // and copy the sparse pages behind the prefix
    let inner = foreign_big_m(offset, 9, 9, 0, false);
    let mut sf = SparseFile::new();
    sf.seek(SeekFrom::Start(0)).unwrap();
    put(&mut sf, &vec![0x5a; prefix as usize]);
    // copy the non-zero tail regions of `inner`: local header + data at `offset`, and the directory/end records behind it
    let total = inner.blen();
    let mut pos = offset;
    while pos < total {
        let n = ((total - pos) as usize).min(1 << 16);
        let mut chunk = vec![0u8; n];
        let _ = inner.read_at(pos, &mut chunk);
        sf.seek(SeekFrom::Start(prefix + pos)).unwrap();
        put(&mut sf, &chunk);
        pos += n as u64;
    }
    sf.seek(SeekFrom::Start(0)).unwrap();
    // sanity: the crate reads the prefixed archive before the append round
    let before = guard(|| {
        let mut ar = zip::ZipArchive::new(sf.clone()).map_err(|e| format!("open: {e}"))?;
        let off = ar.offset();
        let f = ar.by_index(0).map_err(|e| format!("by_index: {e}"))?;
        Ok::<_, String>((off, f.header_start(), f.size()))
    });
    match &before {
        Ok(Ok((o, h, s))) if (*o, *h, *s) == (prefix, prefix + offset, 9) => {}
        other => {
            st.viol("prefixed-append/base-unreadable", format!("{label}: before the append round the reader gives {other:?}"), case(), order);
            return;
        }
    }
    let r = guard(|| {
        let mut zw = zip::ZipWriter::new_append(&mut sf).map_err(|e| format!("new_append: {e}"))?;
        if add {
            zw.start_file("added", FOpts::m(0).to_zip()).map_err(|e| format!("start_file: {e}"))?;
            zw.write_all(b"added").map_err(|e| e.to_string())?;
        }
        zw.finish().map(|_| ()).map_err(|e| format!("finish: {e}"))
    });
    match r {
        Err(p) => {
            st.viol(format!("prefixed-append/panic/{}", panic_site(&p)), format!("{label}: {p}"), case(), order);
            return;
        }
        Ok(Err(e)) => {
            st.viol("prefixed-append/refused", format!("{label}: {e}"), case(), order);
            return;
        }
        Ok(Ok(())) => {}
    }
    let after = guard(|| {
        sf.seek(SeekFrom::Start(0)).map_err(|e| e.to_string())?;
        let mut ar = zip::ZipArchive::new(sf.clone()).map_err(|e| format!("open: {e}"))?;
        let n = ar.len();
        let mut f = ar.by_index(0).map_err(|e| format!("old entry cannot be opened: {e}"))?;
        let (h, s) = (f.header_start(), f.size());
        let mut v = vec![];
        f.read_to_end(&mut v).map_err(|e| format!("old entry cannot be read: {e}"))?;
        Ok::<_, String>((n, h, s, v))
    });
    match after {
        Ok(Ok((n, h, s, v))) => {
            if n != 1 + add as usize || h != prefix + offset || s != 9 || v != vec![0u8; 9] {
                st.viol("prefixed-append/old-entry-changed", format!("{label}: afterwards {n} entries, old entry header_start {h} (was {}), size {s}, content {:?}", prefix + offset, v), case(), order);
            } else {
                st.class("prefixed-big-append-ok");
            }
        }
        Ok(Err(e)) => st.viol("prefixed-append/unreadable", format!("{label}: {e}"), case(), order),
        Err(p) => st.viol(format!("prefixed-append/panic/{}", panic_site(&p)), format!("{label}: {p}"), case(), order),
    }
}

/// An archive written by the crate whose central directory starts `below` bytes under the 4 GiB mark and whose comment has
/// `old_comment` bytes, re-opened with new_append, the comment replaced by a 5-byte one, finished: the end structures shrink,
/// the directory is written again further up and may cross the mark - whatever it takes (ZIP64 end records or not), the
/// result must be read back exactly.
fn check_append_across_4g(below: u64, old_comment: usize, add: bool, st: &mut Stats, order: u64) {
    st.evals += 1;
    let case = || json!({"kind": "append-across-4g", "below": below, "old_comment": old_comment, "add": add});
    let label = format!("directory {below} bytes below 4 GiB, comment of {old_comment} bytes replaced by 5 bytes through an append round ({})", if add { "one entry added" } else { "nothing added" });
    let size = G4 - below - 52;
    let mut sf = SparseFile::new();
    let zeros = Call::Write(vec![0u8; CHUNK]);
    {
        let mut w = W::new(&mut sf);
        w.call(&Call::SetComment(vec![b'o'; old_comment]), &[]);
        let r = w.call(&Call::StartFile { name: "e0".into(), opts: FOpts { large: true, ..FOpts::m(0) } }, &[]);
        let mut e = None;
        let done = write_zeros(&mut w, size, &zeros, &mut e);
        let fin = w.call(&Call::Finish, &[]);
        if !r.is_ok() || done != size || !fin.is_ok() {
            st.viol("append-across-4g/base", format!("{label}: the base archive could not be written: {:?} {:?}", e, fin.show()), case(), order);
            return;
        }
    }
    let r = guard(|| {
        sf.seek(SeekFrom::Start(0)).map_err(|e| e.to_string())?;
        let mut zw = zip::ZipWriter::new_append(&mut sf).map_err(|e| format!("new_append: {e}"))?;
        zw.set_comment("short");
        if add {
            zw.start_file("added", FOpts::m(0).to_zip()).map_err(|e| format!("start_file: {e}"))?;
            zw.write_all(b"added").map_err(|e| e.to_string())?;
        }
        zw.finish().map(|_| ()).map_err(|e| format!("finish: {e}"))
    });
    match r {
        Err(p) => {
            st.viol(format!("append-across-4g/panic/{}", panic_site(&p)), format!("{label}: {p}"), case(), order);
            return;
        }
        Ok(Err(e)) => {
            st.viol("append-across-4g/refused", format!("{label}: {e}"), case(), order);
            return;
        }
        Ok(Ok(())) => {}
    }
    let mut items = vec![(size, 0u16, false)];
    if add {
        items.push((5, 0, false));
    }
    // crate reader: count, sizes, comment; independent parser (lenient about the zero-filled gap the rewrite leaves)
    let rr = guard(|| {
        let mut ar = zip::ZipArchive::new(sf.clone()).map_err(|e| format!("open: {e}"))?;
        let n = ar.len();
        let c = ar.comment().to_vec();
        let (s0, h0) = {
            let f = ar.by_index_raw(0).map_err(|e| format!("old entry: {e}"))?;
            (f.size(), f.header_start())
        };
        let last = if add {
            let mut f = ar.by_index(n - 1).map_err(|e| format!("added entry: {e}"))?;
            let mut v = vec![];
            f.read_to_end(&mut v).map_err(|e| format!("added entry: {e}"))?;
            Some(v)
        } else {
            None
        };
        Ok::<_, String>((n, c, s0, h0, last))
    });
    match rr {
        Ok(Ok((n, c, s0, h0, last))) => {
            if n != items.len() || c != b"short" || s0 != size || h0 != 0 || (add && last.as_deref() != Some(&b"added"[..])) {
                st.viol("append-across-4g/reader", format!("{label}: afterwards the reader sees {n} entries, comment {:?}, old entry size {s0} at {h0}, added entry {:?}", crate::util::show(&c), last.map(|v| v.len())), case(), order);
                return;
            }
        }
        Ok(Err(e)) => {
            st.viol("append-across-4g/unreadable", format!("{label}: {e}"), case(), order);
            return;
        }
        Err(p) => {
            st.viol(format!("append-across-4g/panic/{}", panic_site(&p)), format!("{label}: {p}"), case(), order);
            return;
        }
    }
    match zipparse::parse(&sf, &Opts { decode_limit: 1 << 20, ..Opts::lenient() }) {
        Ok(p) if p.entries.len() == items.len() && p.comment == b"short" && p.entries[0].usize_ == size => st.class("append-across-4g-ok"),
        Ok(p) => st.viol("append-across-4g/independent-parser", format!("{label}: the independent parser sees {} entries, comment {:?}", p.entries.len(), crate::util::show(&p.comment)), case(), order),
        Err(e) => st.viol(format!("append-across-4g/independent-parser/{}", e.clause), format!("{label}: the independent parser rejects the result: {e}"), case(), order),
    }
}

fn check_foreign(offset: u64, size: u64, force: bool, st: &mut Stats, order: u64) {
    st.evals += 1;
    let sf = foreign_big(offset, size, force);
    let case = || json!({"kind": "foreign", "offset": offset, "size": size, "force": force});
    let label = format!("foreign sparse archive: header at {offset}, size {size}, all fields in ZIP64 block: {force}");
    // the independent parser must accept its own kind of archive (machinery sanity)
    if let Err(e) = zipparse::validate(&sf, &Opts { decode_limit: 1 << 20, ..Opts::lenient() }) {
        st.viol("machinery/foreign-builder", format!("{label}: independent parser rejects the sparse builder's output: {e}"), case(), order);
        return;
    }
    let r = guard(|| {
        let mut ar = zip::ZipArchive::new(sf.clone()).map_err(|e| format!("open: {e}"))?;
        if ar.len() != 1 {
            return Err(format!("len() = {}", ar.len()));
        }
        let mut f = ar.by_index(0).map_err(|e| format!("by_index: {e}"))?;
        if f.size() != size || f.compressed_size() != size || f.header_start() != offset || f.crc32() != crc32::crc32_zeros(size) || f.name() != "big" {
            return Err(format!("size {} csize {} header_start {} crc {:#x}", f.size(), f.compressed_size(), f.header_start(), f.crc32()));
        }
        let (n, zero) = read_count(&mut f).map_err(|e| format!("read: {e}"))?;
        if n != size || !zero {
            return Err(format!("{n} bytes read"));
        }
        Ok(())
    });
    match r {
        Ok(Ok(())) => st.class("foreign-zip64-recovered"),
        Ok(Err(e)) => {
            st.class("FOREIGN-MISMATCH");
            st.viol("foreign/values-not-recovered", format!("{label}: {e}"), case(), order)
        }
        Err(p) => st.viol(format!("foreign/panic/{}", panic_site(&p)), format!("{label}: {p}"), case(), order),
    }
}

/// Raw copy of a ZIP64-sized entry between sparse archives.
fn check_big_raw_copy(size: u64, st: &mut Stats, order: u64) {
    st.evals += 1;
    let case = || json!({"kind": "rawcopy", "size": size});
    let src = foreign_big(0, size, false);
    let mut dst = SparseFile::new();
    let r = guard(|| {
        let mut zw = zip::ZipWriter::new(&mut dst);
        zw.start_file("before", FOpts::m(0).to_zip()).map_err(|e| e.to_string())?;
        zw.write_all(b"\0").map_err(|e| e.to_string())?;
        let mut ar = zip::ZipArchive::new(src.clone()).map_err(|e| e.to_string())?;
        let f = ar.by_index(0).map_err(|e| e.to_string())?;
        zw.raw_copy_file(f).map_err(|e| format!("raw_copy_file: {e}"))?;
        zw.finish().map(|_| ()).map_err(|e| format!("finish: {e}"))
    });
    match r {
        Err(p) => st.viol(format!("rawcopy/panic/{}", panic_site(&p)), p, case(), order),
        Ok(Err(e)) => st.viol("rawcopy/failed", format!("raw copy of a {size}-byte entry failed: {e}"), case(), order),
        Ok(Ok(())) => verify_big(&dst, &[(1, 0, false), (size, 0, false)], &[], &format!("raw copy of a {size}-byte stored entry"), st, &case, order),
    }
}

/// A small hand-built source archive whose only entry (deflated, `payload` as stored bytes) claims an
/// uncompressed size beyond 32 bits through its ZIP64 fields. Raw copy never decodes, so the claim travels.
pub fn claimed_size_source(claim: u64) -> Vec<u8> {
    let payload: [u8; 9] = [0x63, 0x60, 0x18, 0x05, 0xa3, 0x60, 0x14, 0x0c, 0x00];
    let mut v: Vec<u8> = vec![];
    let c = payload.len() as u32;
    // local header with a ZIP64 block carrying both sizes
    v.extend_from_slice(&le32(0x04034b50));
    v.extend_from_slice(&le16(45));
    v.extend_from_slice(&le16(0));
    v.extend_from_slice(&le16(8));
    v.extend_from_slice(&le16(0x6000));
    v.extend_from_slice(&le16(0x5821));
    v.extend_from_slice(&le32(0x1234abcd));
    v.extend_from_slice(&le32(0xffff_ffff));
    v.extend_from_slice(&le32(0xffff_ffff));
    v.extend_from_slice(&le16(5));
    v.extend_from_slice(&le16(20));
    v.extend_from_slice(b"claim");
    v.extend_from_slice(&le16(1));
    v.extend_from_slice(&le16(16));
    v.extend_from_slice(&le64(claim));
    v.extend_from_slice(&le64(c as u64));
    v.extend_from_slice(&payload);
    let cd = v.len() as u32;
    v.extend_from_slice(&le32(0x02014b50));
    v.extend_from_slice(&le16((3 << 8) | 45));
    v.extend_from_slice(&le16(45));
    v.extend_from_slice(&le16(0));
    v.extend_from_slice(&le16(8));
    v.extend_from_slice(&le16(0x6000));
    v.extend_from_slice(&le16(0x5821));
    v.extend_from_slice(&le32(0x1234abcd));
    v.extend_from_slice(&le32(c));
    v.extend_from_slice(&le32(0xffff_ffff));
    v.extend_from_slice(&le16(5));
    v.extend_from_slice(&le16(12));
    v.extend_from_slice(&le16(0));
    v.extend_from_slice(&le16(0));
    v.extend_from_slice(&le16(0));
    v.extend_from_slice(&le32(0o100644 << 16));
    v.extend_from_slice(&le32(0));
    v.extend_from_slice(b"claim");
    v.extend_from_slice(&le16(1));
    v.extend_from_slice(&le16(8));
    v.extend_from_slice(&le64(claim));
    let cd_size = v.len() as u32 - cd;
    v.extend_from_slice(&le32(0x06054b50));
    v.extend_from_slice(&le16(0));
    v.extend_from_slice(&le16(0));
    v.extend_from_slice(&le16(1));
    v.extend_from_slice(&le16(1));
    v.extend_from_slice(&le32(cd_size));
    v.extend_from_slice(&le32(cd));
    v.extend_from_slice(&le16(0));
    v
}

/// Raw copy of an entry whose size (but not its compressed size) needs ZIP64: the copy's local header and
/// central record must both carry the claimed size.
fn check_claimed_raw_copy(claim: u64, raw_open: bool, st: &mut Stats, order: u64) {
    st.evals += 1;
    let case = || json!({"kind": "claimed-rawcopy", "claim": claim, "raw_open": raw_open});
    let src = claimed_size_source(claim);
    let calls = vec![
        Call::StartFile { name: "before".into(), opts: FOpts::m(8) },
        Call::Write(b"before".to_vec()),
        Call::RawCopy { src: 0, idx: 0, rename: None, raw_open },
        Call::StartFile { name: "after".into(), opts: FOpts::m(0) },
        Call::Write(b"after".to_vec()),
        Call::Finish,
    ];
    let (res, bytes) = exec(&calls, &[src]);
    if let Some((c, r)) = calls.iter().zip(&res).find(|(_, r)| !r.is_ok()) {
        st.viol(format!("claimed-rawcopy/{}/{}", if r.is_panic() { "panic" } else { "call-failed" }, c.opname()), format!("raw copy of an entry claiming {claim} bytes: {} gave {}", c.opname(), r.show()), case(), order);
        return;
    }
    match zipparse::parse(&bytes, &Opts { local_agrees: true, ..Opts::lenient() }) {
        Err(e) => st.viol(format!("claimed-rawcopy/unparsable/{}", e.clause), format!("copy of an entry claiming {claim} bytes: {e}"), case(), order),
        Ok(p) => {
            let e = &p.entries[1];
            if e.usize_ != claim || e.l_usize != claim || e.csize != 9 || e.l_csize != 9 {
                st.class("CLAIM-LOST");
                st.viol(
                    "claimed-rawcopy/size-not-carried",
                    format!("raw copy of an entry of {claim} bytes (9 compressed): the copy records size {} / compressed {} centrally and size {} / compressed {} in its local header", e.usize_, e.csize, e.l_usize, e.l_csize),
                    case(),
                    order,
                );
            } else {
                st.class("claimed-size-carried");
            }
            match observe(&bytes, None, 1 << 16) {
                Ok(o) if o.entries.len() == 3 && o.entries[1].size == claim && o.entries[0].content.as_ref().ok().map(|c| &c[..]) == Some(b"before") && o.entries[2].content.as_ref().ok().map(|c| &c[..]) == Some(b"after") => {}
                other => st.viol("claimed-rawcopy/reader", format!("crate reader on the copy: {:?}", other.map(|o| o.entries.iter().map(|e| (e.name.clone(), e.size)).collect::<Vec<_>>())), case(), order),
            }
        }
    }
}

fn replay(case: &Value, st: &mut Stats) {
    if case["kind"] == "append-across-4g" {
        check_append_across_4g(case["below"].as_u64().unwrap_or(30_000), case["old_comment"].as_u64().unwrap_or(60_000) as usize, case["add"].as_bool().unwrap_or(false), st, 0);
        return;
    }
    if case["kind"] == "prefixed-append" {
        check_prefixed_big_append(case["prefix"].as_u64().unwrap_or(0), case["offset"].as_u64().unwrap_or(0), case["add"].as_bool().unwrap_or(false), st, 0);
        return;
    }
    match case["kind"].as_str().unwrap_or("") {
        "claimed-rawcopy" => check_claimed_raw_copy(case["claim"].as_u64().unwrap_or(0), case["raw_open"].as_bool().unwrap_or(false), st, 0),
        "calls" => {
            let regen = |n: usize| vec![b'q'; n];
            let calls = calls_from_json(&case["calls"], &regen);
            crate::props::c02::run_calls(&calls, None, &crate::props::c02::sources(1), true, None, st, 0, "large_file-flag", None);
        }
        "sizes" => check_sizes(&Case::from(case), st, 0),
        "count" => check_count(case["n"].as_u64().unwrap_or(0) as usize, &crate::util::unhex(case["comment"].as_str().unwrap_or("")), st, 0),
        "foreign" => check_foreign(case["offset"].as_u64().unwrap_or(0), case["size"].as_u64().unwrap_or(0), case["force"].as_bool().unwrap_or(false), st, 0),
        "rawcopy" => check_big_raw_copy(case["size"].as_u64().unwrap_or(0), st, 0),
        _ => {}
    }
}

pub fn run(args: &Args) -> i32 {
    let mut ctx = crate::new_ctx("C08", args);
    if let Some(path) = &args.replay {
        return crate::props::replay_file(ctx, path, replay);
    }
    let thorough = args.tier.thorough();
    // one item moves up to 13 GiB through the real write and read paths (minutes on a busy machine): the default
    // two-minute watchdog would mistake that for a call that does not return
    crate::util::set_hang_budget_secs(if thorough { 3600 } else { 900 });
    let it = |size: u64, large: bool| Item { size, large, method: 0, password: false, start: 0 };
    let mut cases: Vec<Case> = vec![];
    let sizes: Vec<u64> = if thorough { vec![G4 - 2, G4 - 1, G4, G4 + 1, 5 << 30] } else { vec![G4 - 2, G4 - 1, G4] };
    for &s in &sizes {
        for large in [false, true] {
            cases.push(Case { label: format!("first entry of {s} bytes, large_file {large}"), items: vec![it(s, large)], comment: vec![] });
            if thorough || s == G4 - 1 {
                cases.push(Case { label: format!("entry of {s} bytes (large_file {large}) followed by a small one, with comment"), items: vec![it(s, large), it(5, false)], comment: b"c".to_vec() });
            }
        }
    }
    // header offset at and around 2^32: pad entry sized so that the next local header lands exactly there
    // (local header of "e0" = 30 + 2 name + 20 ZIP64 block = 52 bytes)
    let offs: Vec<u64> = if thorough { vec![G4 - 2, G4 - 1, G4, G4 + 1] } else { vec![G4 - 1, G4] };
    for &o in &offs {
        let pad = o - 52;
        cases.push(Case { label: format!("small entry whose header offset is {o}"), items: vec![it(pad, true), it(7, false)], comment: vec![] });
        // the same with the small entry declared large_file (its sizes fit 32 bits, its offset does not), compressed so that
        // the two sizes differ, and followed by an ordinary entry
        cases.push(Case {
            label: format!("small deflated large_file entry whose header offset is {o}, then a plain one"),
            items: vec![it(pad, true), Item { size: 300, large: true, method: 8, password: false, start: 0 }, it(9, false)],
            comment: b"lf".to_vec(),
        });
    }
    // exactly 2^32-1 bytes behind the 4 GiB mark (size field saturated while only the offset needs ZIP64)
    cases.push(Case { label: "entry of 2^32-1 bytes (not large) at an offset beyond 4 GiB".into(), items: vec![it(G4 + 100, true), it(G4 - 1, false)], comment: vec![] });
    if thorough {
        cases.push(Case { label: "entry of 2^32-1 bytes (large) at an offset beyond 4 GiB, then a small one".into(), items: vec![it(G4 + 100, true), it(G4 - 1, true), it(3, false)], comment: b"cc".to_vec() });
        cases.push(Case { label: "two entries of 2^32 bytes".into(), items: vec![it(G4, true), it(G4, true)], comment: vec![] });
        // compressed-size-only overflow: stored + ZipCrypto adds 12 bytes (buffers the entry in memory: 4 GiB resident)
        for s in [G4 - 13, G4 - 12] {
            for large in [false, true] {
                cases.push(Case { label: format!("ZipCrypto stored entry of {s} bytes (+12), large_file {large}"), items: vec![Item { size: s, large, method: 0, password: true, start: 0 }], comment: vec![] });
            }
        }
        cases.push(Case { label: "deflated entry of 5 GiB of zeros".into(), items: vec![Item { size: 5 << 30, large: true, method: 8, password: false, start: 0 }], comment: vec![] });
    }
    // no entry needs ZIP64 for itself, the central directory does (it starts beyond 4 GiB)
    cases.push(Case { label: "two entries of 2.2 GiB each (not large): only the directory offset needs ZIP64".into(), items: vec![it(2_362_232_012, false), it(2_362_232_012, false)], comment: b"d".to_vec() });
    // entries beyond 4 GiB that are started through the extra-data and alignment calls (the large-file promise must survive them)
    for (st_, what) in [(1u8, "start_file_with_extra_data"), (2, "start_file_aligned"), (3, "start_file_with_extra_data (central-only record)")] {
        if thorough || st_ != 3 {
            cases.push(Case { label: format!("large_file entry of 2^32+1 bytes started with {what}, then a small one"), items: vec![Item { size: G4 + 1, large: true, method: 0, password: false, start: st_ }, it(5, false)], comment: vec![] });
        }
        if thorough {
            cases.push(Case { label: format!("entry of 2^32 bytes NOT declared large started with {what}"), items: vec![Item { size: G4, large: false, method: 0, password: false, start: st_ }], comment: vec![] });
        }
    }
    // uncompressed-size-only overflow: the compressed size stays tiny
    cases.push(Case { label: "deflated entry of 2^32 zeros, not large".into(), items: vec![Item { size: G4, large: false, method: 8, password: false, start: 0 }], comment: vec![] });
    if thorough {
        cases.push(Case { label: "zstd entry of 2^32+1 zeros, not large".into(), items: vec![Item { size: G4 + 1, large: false, method: 93, password: false, start: 0 }], comment: vec![] });
        cases.push(Case { label: "deflated entry of 2^32-1 zeros, not large".into(), items: vec![Item { size: G4 - 1, large: false, method: 8, password: false, start: 0 }], comment: vec![] });
    }
    let counts: Vec<usize> = vec![0, 1, 65534, 65535, 65536, 65537, 70000];
    ctx.rule = format!(
        "E-PROD over boundary values through a sparse in-memory sink/source (64 KiB pages; zero pages are holes). Entry counts {:?} x comment {{none, 'c'}}. Size/offset cases ({}): stored zero-filled entries of {:?} bytes x large_file {{no,yes}} (first, and followed by a small entry with an archive comment); \
         small entries (plain, and deflated with large_file set) whose local header offset is exactly {:?}; an entry of exactly 2^32-1 bytes behind the 4 GiB mark{}. Oracle: without large_file, more than 2^32-1 bytes must be refused by some call and never end in a finished archive with other sizes; otherwise finish succeeds and both the strict independent parser (on the sparse blob) and the crate reader \
         recover count, every size, CRC (of zeros, computed by CRC combination), every offset, and the full content length. Foreign: 512 small builder-made archives with ZIP64 values forced in every subset of {{size, compressed size, offset}} (sizes differing, block before/after other blocks, with/without local ZIP64 block and 64-bit data descriptor); sparse hand-built archives with true > 4 GiB size and/or header offset, with minimal and with all-fields ZIP64 blocks (6 layouts); raw copy of a 2^32+1-byte entry between sparse archives; raw copies of a compressed entry whose size (2^32-1 .. 2^40) but not compressed size needs ZIP64; 157 programs with the large_file flag on small entries (plain, extra data in every placement, aligned) judged by the strict parser and both readers. distinct_nontrivial = number of distinct cases (each is unique).",
        counts,
        cases.len(),
        sizes,
        offs,
        if thorough { "; two 4 GiB entries; ZipCrypto +12-byte compressed-size overflow; 5 GiB of zeros deflated" } else { "" }
    );
    ctx.assume("zero-filled payloads only (the sparse sink stores non-zero pages); CRC of n zero bytes computed by the reference's CRC combination");
    ctx.uncovered("central directory size >= 4 GiB (needs ~15 GB of resident names); non-zero multi-GiB payloads");
    ctx.bound("size_cases", json!(cases.iter().map(|c| c.label.clone()).collect::<Vec<_>>()));
    ctx.bound("counts", json!(counts));

    // heaviest first so that the pool stays busy
    let mut order_idx: Vec<usize> = (0..cases.len()).collect();
    order_idx.sort_by_key(|&i| std::cmp::Reverse(cases[i].items.iter().map(|x| x.size).sum::<u64>()));
    let foreign: Vec<(u64, u64, bool)> = vec![(0, G4 + 1, false), (0, G4 + 1, true), (G4 + 7, 9, false), (G4 + 7, 9, true), (G4 + 7, G4 + 1, false), (G4 - 1, G4 - 1, false)];
    let n_sizes = cases.len() as u64;
    let n_counts = (counts.len() * 2) as u64;
    let n_foreign = foreign.len() as u64;
    let (cases_r, order_r, counts_r, foreign_r) = (&cases, &order_idx, &counts, &foreign);
    let s = par_for(n_sizes + n_counts + n_foreign + 1, 1, |t, st| {
        if t < n_sizes {
            let c = &cases_r[order_r[t as usize]];
            check_sizes(c, st, t);
            if t == 0 {
                st.sample(c.json());
            }
        } else if t < n_sizes + n_counts {
            let k = (t - n_sizes) as usize;
            check_count(counts_r[k / 2], if k % 2 == 0 { b"" } else { b"c" }, st, t);
        } else if t < n_sizes + n_counts + n_foreign {
            let (o, s2, f) = foreign_r[(t - n_sizes - n_counts) as usize];
            check_foreign(o, s2, f, st, t);
        } else {
            check_big_raw_copy(G4 + 1, st, t);
        }
    });
    ctx.stats.merge(s);
    // prepended data + a header offset beyond 4 GiB + an append round (the three have to agree on what an offset is relative to)
    {
        let cases: Vec<(u64, u64, bool)> = vec![(7, G4 + 5, false), (7, G4 + 5, true), (1000, G4 - 1, false), (0, G4 + 5, false)];
        let cr = &cases;
        let s = par_for(cases.len() as u64, 1, |t, st| {
            let (p, o, a) = cr[t as usize];
            check_prefixed_big_append(p, o, a, st, (12 << 40) + t);
        });
        ctx.stats.merge(s);
        ctx.bound("prefixed_big_append", json!(cases.iter().map(|c| format!("prefix {} / header offset {} / {}", c.0, c.1, if c.2 { "one entry added" } else { "nothing added" })).collect::<Vec<_>>()));
    }
    // an append round that moves the central directory across the 4 GiB mark (the end structures shrink, the directory is
    // written a second time further up)
    {
        let cases: Vec<(u64, usize, bool)> = if thorough { vec![(30_000, 60_000, false), (30_000, 60_000, true), (100, 60_000, false), (59_000, 60_000, false), (70_000, 60_000, false)] } else { vec![(30_000, 60_000, false), (30_000, 60_000, true)] };
        let cr = &cases;
        let s = par_for(cases.len() as u64, 1, |t, st| {
            let (b, c, a) = cr[t as usize];
            check_append_across_4g(b, c, a, st, (13 << 40) + t);
        });
        ctx.stats.merge(s);
        ctx.bound("append_across_4g", json!(cases.iter().map(|c| format!("directory {} below 4 GiB / old comment {} / {}", c.0, c.1, if c.2 { "one entry added" } else { "nothing added" })).collect::<Vec<_>>()));
    }
    // foreign small archives with ZIP64 values forced in every subset of {uncompressed size, compressed size, offset},
    // sizes differing (compressed payloads), block before/after other extra blocks, with and without a local ZIP64 block
    {
        use crate::props::c03;
        use crate::reference::zipbuild::{build, extra_block, Dd, ESpec, Spec};
        let mut specs: Vec<Spec> = vec![];
        for m in [0u16, 8, 12, 93] {
            // subsets 8..15: additionally the disk start number in the block (fourth field; APPNOTE 4.5.3)
            for subset in 0..16u8 {
                for after in [false, true] {
                    for local in [false, true] {
                        for dd in [Dd::None, Dd::Sig64] {
                            let content: Vec<u8> = b"zip64 fields forced on a small file ".repeat(8);
                            let e = ESpec {
                                name: b"z".to_vec(),
                                method: m,
                                content,
                                zip64_central: subset,
                                zip64_after: after,
                                zip64_local: local,
                                dd,
                                central_extra: extra_block(0x7777, b"other"),
                                ..Default::default()
                            };
                            let second = ESpec { name: b"second".to_vec(), method: 8, content: b"second entry".to_vec(), zip64_central: (subset & 7) ^ 7, ..Default::default() };
                            specs.push(Spec { entries: vec![e.clone()], force_zip64_eocd: subset % 2 == 0, ..Default::default() });
                            // prepended data of lengths around the block sizes a scanning reader may use
                            let plen = [17usize, 4093, 4094, 4095, 4096, 8190, 8191, 65535][(specs.len() / 2) % 8];
                            specs.push(Spec { entries: vec![e.clone(), second.clone()], prefix: vec![0x5a; plen], ..Default::default() });
                            if subset & 7 == 7 && !after {
                                // ... and in front of forced ZIP64 end records
                                specs.push(Spec { entries: vec![e.clone(), second.clone()], prefix: vec![0x5a; plen], force_zip64_eocd: true, comment: b"z".to_vec(), ..Default::default() });
                                // ... whose ZIP64 end record carries an extensible data sector (APPNOTE 4.3.14: record size 44 + n)
                                for n in [1usize, 12, 33] {
                                    specs.push(Spec { entries: vec![e.clone(), second.clone()], prefix: vec![0x5a; if local { plen } else { 0 }], force_zip64_eocd: true, zip64_ext: vec![0x44; n], comment: if dd == Dd::None { vec![] } else { b"zc".to_vec() }, ..Default::default() });
                                }
                            }
                        }
                    }
                }
            }
        }
        ctx.bound("foreign_zip64_subsets_on_small_files", json!(specs.len()));
        let specs_r = &specs;
        let s = par_for(specs.len() as u64, 8, |i, st| {
            let spec = &specs_r[i as usize];
            let (bytes, lay) = build(spec);
            c03::check_archive(spec, &bytes, &lay, st, (7 << 40) + i, "zip64-subsets");
        });
        ctx.stats.merge(s);
    }
    // the large_file flag on small entries (the 20-byte local ZIP64 block must be accounted for everywhere), incl. extra data and alignment
    {
        let src = crate::props::c02::sources(args.seed);
        let x = |calls: Vec<Call>| calls;
        let lf = |m: u16| FOpts { large: true, ..FOpts::m(m) };
        let rec = crate::reference::zipbuild::extra_block(0xbeef, b"large-file extra");
        let mut progs: Vec<Vec<Call>> = vec![];
        for m in [0u16, 8, 12, 93] {
            for content in [vec![], b"small".to_vec(), content_class(3, args.seed)] {
                progs.push(x(vec![Call::StartFile { name: "lf".into(), opts: lf(m) }, Call::Write(content.clone()), Call::Finish]));
                progs.push(x(vec![Call::StartExtra { name: "lfx".into(), opts: lf(m) }, Call::Write(rec.clone()), Call::EndExtra, Call::Write(content.clone()), Call::StartFile { name: "next".into(), opts: FOpts::m(8) }, Call::Write(b"next".to_vec()), Call::Finish]));
                progs.push(x(vec![Call::StartExtra { name: "lfe".into(), opts: lf(m) }, Call::EndExtra, Call::Write(content.clone()), Call::Finish]));
                progs.push(x(vec![Call::StartExtra { name: "lfc".into(), opts: lf(m) }, Call::Write(rec.clone()), Call::EndLocalStartCentral, Call::Write(rec.clone()), Call::EndExtra, Call::Write(content.clone()), Call::Finish]));
                for align in [2u16, 4, 64, 4096] {
                    progs.push(x(vec![Call::StartFile { name: "p".into(), opts: FOpts::m(0) }, Call::Write(b"p".to_vec()), Call::StartAligned { name: "lfa".into(), opts: lf(m), align }, Call::Write(content.clone()), Call::StartFile { name: "next".into(), opts: lf(0) }, Call::Write(b"n".to_vec()), Call::Finish]));
                }
            }
        }
        progs.push(vec![Call::AddDir { name: "lfd".into(), opts: lf(0) }, Call::AddSymlink { name: "lfl".into(), target: "lfd".into(), opts: lf(0) }, Call::Finish]);
        ctx.bound("large_file_flag_on_small_entries", json!(progs.len()));
        let (progs_r, src_r) = (&progs, &src);
        let s = par_for(progs.len() as u64, 4, |i, st| {
            crate::props::c02::run_calls(&progs_r[i as usize], None, src_r, true, None, st, (8 << 40) + i, "large_file-flag", None);
            // and the content must come back through both readers
            let (res, bytes) = exec(&progs_r[i as usize], src_r);
            if res.iter().all(|r| r.is_ok()) {
                let ok_seek = observe(&bytes, None, 1 << 20).map(|o| o.entries.iter().all(|e| e.content.is_ok())).unwrap_or(false);
                let mut cur = std::io::Cursor::new(&bytes[..]);
                let mut ok_stream = true;
                loop {
                    match zip::read::read_zipfile_from_stream(&mut cur) {
                        Ok(Some(mut f)) => {
                            let mut v = vec![];
                            if f.read_to_end(&mut v).is_err() {
                                ok_stream = false;
                            }
                        }
                        Ok(None) => break,
                        Err(_) => {
                            ok_stream = false;
                            break;
                        }
                    }
                }
                if !ok_seek || !ok_stream {
                    st.viol("large_file-flag/unreadable", format!("large_file entry program {i}: seekable reader ok: {ok_seek}, streaming reader ok: {ok_stream}"), json!({"kind": "calls", "calls": calls_json(&progs_r[i as usize])}), (8 << 40) + i);
                }
            }
        });
        ctx.stats.merge(s);
        // raw copies of entries whose size, but not compressed size, needs ZIP64
        let mut st = Stats::default();
        for claim in [G4 - 1, G4, G4 + 1, 1 << 40] {
            for raw_open in [false, true] {
                check_claimed_raw_copy(claim, raw_open, &mut st, (9 << 40) + claim);
            }
        }
        ctx.stats.merge(st);
    }
    ctx.stats.sample(json!({"kind": "count", "n": 65536}));
    ctx.distinct_counted = ctx.stats.evals;
    ctx.stats.states = ctx.stats.evals;
    ctx.stats.transitions = ctx.stats.evals;
    ctx.stats.traces = ctx.stats.evals;
    ctx.finish()
}

//! C04 — a read that completes successfully returned uncorrupted data.
//! E-PROD over damage: every byte value at every offset of every entry's data region and CRC
//! field of small seed archives, payload truncations and swaps, through the seekable and the
//! streaming reader with every caller buffer size in a small set and interposed empty reads.

use crate::reference::crc32;
use crate::reference::zipbuild::{build, Dd, ESpec, Enc, Spec};
use crate::reference::zipparse::{self, Opts};
use crate::util::{guard, hex, panic_site, par_for, Stats};
use crate::zipapi::*;
use crate::Args;
use serde_json::{json, Value};
use std::io::{Cursor, Read};

const PW: &[u8] = b"pw";

#[derive(Clone)]
pub struct Seed {
    pub label: String,
    pub bytes: Vec<u8>,
    pub password: Option<Vec<u8>>,
    pub streamable: bool,
    /// false for seeds the seekable reader refuses to open entries of (judged through the streaming reader only)
    pub seekable: bool,
    pub aes: bool,
    /// (data_pos, csize, central crc field pos, local crc field pos, ae2)
    pub regions: Vec<(u64, u64, u64, u64, bool)>,
    /// what each entry of the undamaged seed decodes to (independent decoder); judges AE-2 entries, whose
    /// authentication code takes the place of the CRC
    pub plain: Vec<Option<Vec<u8>>>,
}

fn seed_from_bytes(label: &str, bytes: Vec<u8>, password: Option<&[u8]>, streamable: bool, ae2: &[bool]) -> Seed {
    let p = zipparse::parse(&bytes, &Opts::lenient()).expect("seed archive does not parse");
    let regions = p.entries.iter().enumerate().map(|(i, e)| (e.data_pos, e.csize, e.central_pos + 16, e.local_pos + 14, ae2.get(i).copied().unwrap_or(false))).collect();
    let opts = Opts { password: password.map(|p| p.to_vec()), ..Opts::lenient() };
    let plain = p.entries.iter().map(|e| zipparse::content(&bytes, e, &opts).ok()).collect();
    Seed { label: label.to_string(), bytes, password: password.map(|p| p.to_vec()), streamable, seekable: true, aes: !ae2.is_empty(), regions, plain }
}

fn payloads(seed: u64) -> (Vec<u8>, Vec<u8>) {
    let mut r = crate::util::Rng(seed ^ 0x04);
    let a = r.bytes(24);
    let mut b = b"abcabcabc compressible compressible ".to_vec();
    b.extend(r.bytes(8));
    b.extend_from_slice(b"0000000000000000");
    (a, b)
}

pub fn seeds(seed: u64, quick: bool) -> Vec<Seed> {
    let (a, b) = payloads(seed);
    let mut out = vec![];
    // ASCII text (read_to_string can complete on it, also after most single-bit damage)
    for (m, name) in [(0u16, "stored"), (8, "deflated")] {
        let calls = vec![
            Call::StartFile { name: "t1".into(), opts: FOpts::m(m) },
            Call::Write(b"plain ascii text, line one\n".to_vec()),
            Call::StartFile { name: "t2".into(), opts: FOpts::m(m) },
            Call::Write(b"second entry: plain ascii text as well\n".to_vec()),
            Call::Finish,
        ];
        let (r, bytes) = exec(&calls, &[]);
        assert!(r.iter().all(|x| x.is_ok()));
        out.push(seed_from_bytes(&format!("writer-{name}-text"), bytes, None, true, &[]));
    }
    for (m, name) in [(0u16, "stored"), (8, "deflated"), (12, "bzip2"), (93, "zstd")] {
        let calls = vec![
            Call::StartFile { name: "a".into(), opts: FOpts::m(m) },
            Call::Write(a.clone()),
            Call::StartFile { name: "b".into(), opts: FOpts::m(m) },
            Call::Write(b.clone()),
            Call::Finish,
        ];
        let (r, bytes) = exec(&calls, &[]);
        assert!(r.iter().all(|x| x.is_ok()));
        out.push(seed_from_bytes(&format!("writer-{name}"), bytes, None, true, &[]));
        if quick && m == 12 {
            continue;
        }
        // builder-made with data descriptors (not streamable)
        let spec = Spec {
            entries: vec![
                ESpec { name: b"a".to_vec(), method: m, content: a.clone(), dd: Dd::Sig32, ..Default::default() },
                ESpec { name: b"b".to_vec(), method: m, content: b.clone(), dd: Dd::NoSig32, ..Default::default() },
            ],
            ..Default::default()
        };
        out.push(seed_from_bytes(&format!("builder-dd-{name}"), build(&spec).0, None, false, &[]));
    }
    // entries without content: empty stored and deflated files, a directory (their declared CRC is 0)
    {
        let calls = vec![
            Call::StartFile { name: "empty-stored".into(), opts: FOpts::m(0) },
            Call::StartFile { name: "empty-deflated".into(), opts: FOpts::m(8) },
            Call::AddDir { name: "dir".into(), opts: FOpts::m(0) },
            Call::StartFile { name: "after".into(), opts: FOpts::m(0) },
            Call::Write(a.clone()),
            Call::Finish,
        ];
        let (r, bytes) = exec(&calls, &[]);
        assert!(r.iter().all(|x| x.is_ok()));
        out.push(seed_from_bytes("writer-empties", bytes, None, true, &[]));
    }
    // ZipCrypto written by the crate
    let enc = |m: u16| FOpts { password: Some(PW.to_vec()), ..FOpts::m(m) };
    let calls = vec![Call::StartFile { name: "a".into(), opts: enc(0) }, Call::Write(a.clone()), Call::StartFile { name: "b".into(), opts: enc(8) }, Call::Write(b.clone()), Call::Finish];
    let (r, bytes) = exec(&calls, &[]);
    assert!(r.iter().all(|x| x.is_ok()));
    out.push(seed_from_bytes("writer-zipcrypto", bytes, Some(PW), false, &[]));
    // AES
    for (ver, label) in [(1u16, "builder-ae1"), (2, "builder-ae2")] {
        let spec = Spec {
            entries: vec![
                ESpec { name: b"a".to_vec(), method: 0, content: a.clone(), enc: Enc::Aes { version: ver, strength: 1, pw: PW.to_vec(), salt_seed: 3 }, ..Default::default() },
                ESpec { name: b"b".to_vec(), method: 8, content: b.clone(), enc: Enc::Aes { version: ver, strength: 3, pw: PW.to_vec(), salt_seed: 9 }, ..Default::default() },
            ],
            ..Default::default()
        };
        let mut sd = seed_from_bytes(label, build(&spec).0, Some(PW), false, &[ver == 2, ver == 2]);
        // (the structural validator does not decrypt AES: the builder knows what it encrypted)
        sd.plain = vec![Some(a.clone()), Some(b.clone())];
        out.push(sd);
    }
    // deflate streams that can end before the payload does: entry a is two blocks (the first not final, so one bit
    // ends the stream early), entry b carries 6 spare bytes behind its final block. Plain (both readers), AE-1, AE-2.
    let two_blocks = {
        use std::io::Write;
        let mut e = flate2::write::DeflateEncoder::new(Vec::new(), flate2::Compression::new(6));
        e.write_all(&a[..a.len() / 2]).unwrap();
        e.flush().unwrap();
        e.write_all(&a[a.len() / 2..]).unwrap();
        e.finish().unwrap()
    };
    let mut trailing = crate::reference::codec::compress(8, &b);
    trailing.extend_from_slice(&[0x55, 0xaa, 0x00, 0xff, 0x01, 0x02]);
    for (ver, label) in [(0u16, "builder-early-end"), (1, "builder-ae1-early-end"), (2, "builder-ae2-early-end")] {
        let enc = |seed: u8| if ver == 0 { Enc::None } else { Enc::Aes { version: ver, strength: 1, pw: PW.to_vec(), salt_seed: seed } };
        let spec = Spec {
            entries: vec![
                ESpec { name: b"a".to_vec(), method: 8, content: a.clone(), raw_payload: Some(two_blocks.clone()), enc: enc(5), ..Default::default() },
                ESpec { name: b"b".to_vec(), method: 8, content: b.clone(), raw_payload: Some(trailing.clone()), enc: enc(6), ..Default::default() },
            ],
            ..Default::default()
        };
        let pw = if ver == 0 { None } else { Some(PW) };
        let mut sd = seed_from_bytes(label, build(&spec).0, pw, ver == 0, &if ver == 0 { vec![] } else { vec![ver == 2, ver == 2] });
        sd.plain = vec![Some(a.clone()), Some(b.clone())];
        out.push(sd);
    }
    // entries that are NOT encrypted but carry a WinZip AES extra block (AE-2): the streaming reader reads them as the
    // plain entries they are, and their CRC is all that protects them (the seekable reader refuses them)
    {
        let aesx = |m: u16| crate::reference::zipbuild::extra_block(0x9901, &[2, 0, b'A', b'E', 3, m as u8, (m >> 8) as u8]);
        let spec = Spec {
            entries: vec![
                ESpec { name: b"a".to_vec(), method: 0, content: a.clone(), local_extra: aesx(0), central_extra: aesx(0), ..Default::default() },
                ESpec { name: b"b".to_vec(), method: 8, content: b.clone(), local_extra: aesx(8), central_extra: aesx(8), ..Default::default() },
            ],
            ..Default::default()
        };
        let mut sd = seed_from_bytes("builder-plain-with-aes-extra", build(&spec).0, None, true, &[]);
        sd.seekable = false;
        out.push(sd);
    }
    for sd in &out {
        for (i, r) in sd.regions.iter().enumerate() {
            assert!(!r.4 || sd.plain.get(i).map_or(false, |p| p.is_some()), "AE-2 seed entry without known content");
        }
    }
    out
}

#[derive(Debug, PartialEq)]
enum Out {
    NotOpened,
    ReadErr,
    Clean { ok: bool },
    Panic(String),
}

/// Read a reader to EOF with the caller pattern; Some(bytes) only if every read returned Ok.
/// caller patterns beyond plain read loops: the other ways std::io::Read offers to take everything (a reader may override
/// any of them, and each override must keep the checksum promise)
pub const P_READ_TO_STRING: usize = usize::MAX;
pub const P_PREFIX_THEN_READ_TO_END: usize = usize::MAX - 1;
pub const P_BYTES: usize = usize::MAX - 2;
pub const P_IO_COPY: usize = usize::MAX - 3;
pub const P_READ_VECTORED: usize = usize::MAX - 4;
pub fn pattern_name(b: usize) -> String {
    match b {
        0 => "read_to_end".into(),
        P_READ_TO_STRING => "read_to_string".into(),
        P_PREFIX_THEN_READ_TO_END => "read_exact(1) then read_to_end into the same vector".into(),
        P_BYTES => "bytes()".into(),
        P_IO_COPY => "io::copy".into(),
        P_READ_VECTORED => "read_vectored into slices of 3 and 5 bytes".into(),
        n => n.to_string(),
    }
}

fn read_pattern<R: Read>(r: &mut R, bufsize: usize, zero_reads: bool, limit: usize) -> Option<Vec<u8>> {
    match bufsize {
        P_READ_TO_STRING => {
            let mut s = String::new();
            return match r.read_to_string(&mut s) {
                Ok(_) if s.len() <= limit => Some(s.into_bytes()),
                _ => None,
            };
        }
        P_PREFIX_THEN_READ_TO_END => {
            let mut v = vec![0u8; 1];
            match r.read(&mut v) {
                Ok(0) => return Some(vec![]),
                Ok(_) => {}
                Err(_) => return None,
            }
            return match r.read_to_end(&mut v) {
                Ok(_) if v.len() <= limit => Some(v),
                _ => None,
            };
        }
        P_BYTES => {
            let mut v = vec![];
            for b in r.bytes() {
                match b {
                    Ok(b) => v.push(b),
                    Err(_) => return None,
                }
                if v.len() > limit {
                    return None;
                }
            }
            return Some(v);
        }
        P_READ_VECTORED => {
            let mut v = vec![];
            let (mut a, mut b) = ([0u8; 3], [0u8; 5]);
            loop {
                match r.read_vectored(&mut [std::io::IoSliceMut::new(&mut a), std::io::IoSliceMut::new(&mut b)]) {
                    Ok(0) => return Some(v),
                    Ok(n) if n > 8 => return None,
                    Ok(n) => {
                        v.extend_from_slice(&a[..n.min(3)]);
                        if n > 3 {
                            v.extend_from_slice(&b[..n - 3]);
                        }
                    }
                    Err(e) if e.kind() == std::io::ErrorKind::Interrupted => {}
                    Err(_) => return None,
                }
                if v.len() > limit {
                    return None;
                }
            }
        }
        P_IO_COPY => {
            let mut v = vec![];
            return match std::io::copy(&mut r.take(limit as u64 + 1), &mut v) {
                Ok(_) if v.len() <= limit => Some(v),
                _ => None,
            };
        }
        _ => {}
    }
    let mut out = vec![];
    let mut buf = vec![0u8; bufsize.max(1)];
    let mut n_calls = 0u32;
    loop {
        if zero_reads && n_calls % 2 == 0 {
            match r.read(&mut []) {
                Ok(0) => {}
                Ok(_) => return None,
                Err(e) if e.kind() == std::io::ErrorKind::Interrupted => {}
                Err(_) => return None,
            }
        }
        n_calls += 1;
        if bufsize == 0 {
            // read_to_end
            return match r.take(limit as u64 + 1).read_to_end(&mut out) {
                Ok(_) if out.len() <= limit => Some(out),
                _ => None,
            };
        }
        match r.read(&mut buf) {
            Ok(0) => return Some(out),
            Ok(n) => {
                out.extend_from_slice(&buf[..n]);
                if out.len() > limit {
                    return None;
                }
            }
            // the retryable non-error of the Read contract: callers (and std's own loops) simply call again
            Err(e) if e.kind() == std::io::ErrorKind::Interrupted => {}
            Err(_) => return None,
        }
    }
}

/// One pass over every entry of `bytes` by one route; the oracle is applied to each entry.
/// Returns per-entry outcomes.
fn pass(bytes: &[u8], password: Option<&[u8]>, stream: bool, bufsize: usize, zero: bool, ae2: &[bool]) -> Vec<Out> {
    pass_with(bytes, password, stream, bufsize, zero, ae2, &[])
}

/// `plain`: the undamaged content per entry. An AE-2 entry has no CRC to compare with; its authentication code
/// must have rejected any change, so a clean EOF is only acceptable with exactly the original bytes.
fn pass_with(bytes: &[u8], password: Option<&[u8]>, stream: bool, bufsize: usize, zero: bool, ae2: &[bool], plain: &[Option<Vec<u8>>]) -> Vec<Out> {
    pass_reader(Cursor::new(bytes), password, stream, bufsize, zero, ae2, plain)
}

#[allow(clippy::too_many_arguments)]
fn pass_reader<R: Read + std::io::Seek>(reader: R, password: Option<&[u8]>, stream: bool, bufsize: usize, zero: bool, ae2: &[bool], plain: &[Option<Vec<u8>>]) -> Vec<Out> {
    let mut outs = vec![];
    if stream {
        let mut cur = reader;
        let mut i = 0;
        loop {
            let r = guard(|| match zip::read::read_zipfile_from_stream(&mut cur) {
                Ok(Some(mut f)) => {
                    let declared = f.crc32();
                    match read_pattern(&mut f, bufsize, zero, 1 << 20) {
                        Some(data) => Some(Out::Clean { ok: crc32::crc32(&data) == declared }),
                        None => Some(Out::ReadErr),
                    }
                }
                Ok(None) => None,
                Err(_) => Some(Out::NotOpened),
            });
            match r {
                Ok(Some(Out::NotOpened)) => {
                    outs.push(Out::NotOpened);
                    break;
                }
                Ok(Some(o)) => outs.push(o),
                Ok(None) => break,
                Err(p) => {
                    outs.push(Out::Panic(p));
                    break;
                }
            }
            i += 1;
            if i > 8 {
                break;
            }
        }
        return outs;
    }
    let mut ar = match guard(move || zip::ZipArchive::new(reader)) {
        Ok(Ok(a)) => a,
        Ok(Err(_)) => return vec![Out::NotOpened],
        Err(p) => return vec![Out::Panic(p)],
    };
    for i in 0..ar.len().min(8) {
        let r = guard(|| {
            let opened = match password {
                Some(pw) => match ar.by_index_decrypt(i, pw) {
                    Ok(Ok(f)) => Some(f),
                    _ => None,
                },
                None => ar.by_index(i).ok(),
            };
            match opened {
                None => Out::NotOpened,
                Some(mut f) => {
                    let declared = f.crc32();
                    match read_pattern(&mut f, bufsize, zero, 1 << 20) {
                        Some(data) => Out::Clean {
                            ok: if ae2.get(i).copied().unwrap_or(false) {
                                match plain.get(i) {
                                    Some(Some(p)) => *p == data,
                                    _ => true,
                                }
                            } else {
                                crc32::crc32(&data) == declared
                            },
                        },
                        None => Out::ReadErr,
                    }
                }
            }
        });
        outs.push(match r {
            Ok(o) => o,
            Err(p) => Out::Panic(p),
        });
    }
    outs
}

fn judge(seed: &Seed, bytes: &[u8], what: &str, case: &dyn Fn() -> Value, bufs: &[usize], st: &mut Stats, order: u64) {
    let ae2: Vec<bool> = seed.regions.iter().map(|r| r.4).collect();
    for stream in [false, true] {
        if stream && !seed.streamable || !stream && !seed.seekable {
            continue;
        }
        for &b in bufs {
            for zero in [false, true] {
                if zero && b >= P_READ_VECTORED {
                    continue;
                }
                st.evals += 1;
                // the content comparison for AE-2 entries applies to damage of the entry's data (salt, verifier, ciphertext,
                // authentication code): that is what the authentication code covers. A lying size field makes the reader
                // run into the physical end of the stream, which the statement does not speak about for AE-2.
                let plain: &[Option<Vec<u8>>] = if what.starts_with("data") || what.starts_with("byte") && what.contains("(data)") { &seed.plain } else { &[] };
                let outs = pass_with(bytes, seed.password.as_deref(), stream, b, zero, &ae2, plain);
                for (i, o) in outs.iter().enumerate() {
                    match o {
                        Out::NotOpened => st.class("not-opened"),
                        Out::ReadErr => st.class("read-error"),
                        Out::Clean { ok: true } => st.class("clean-eof-crc-matches"),
                        Out::Panic(p) => {
                            st.class("panic(C05's domain)");
                            st.count(&format!("panic/{}", panic_site(p)), 1);
                        }
                        Out::Clean { ok: false } => {
                            st.class("CLEAN-EOF-WRONG-CRC");
                            let route = if stream { "stream" } else { "seekable" };
                            st.viol(
                                format!("completed-read-of-corrupt-data/{}/{route}/{what}", seed.label),
                                format!(
                                    "seed {} with {what}: entry {i} read to a clean EOF through the {route} reader (buffer {}, empty reads {zero}) but {}",
                                    seed.label,
                                    pattern_name(b),
                                    if ae2.get(i).copied().unwrap_or(false) { "the returned bytes differ from the entry's content although nothing reported the failed authentication (AE-2)" } else { "the CRC of the returned bytes differs from the declared one" }
                                ),
                                case(),
                                order,
                            );
                        }
                    }
                }
            }
        }
    }
}

/// quick tier: seeds whose decoders are expensive to set up get the 8 single-bit flips per byte instead of all 255 values
fn bitflips_only(s: &Seed, thorough: bool) -> bool {
    !thorough && s.aes
}

fn replay(case: &Value, st: &mut Stats, seed: u64) {
    let all = seeds(seed, false);
    let label = case["seed"].as_str().unwrap_or("");
    let Some(s) = all.iter().find(|s| s.label == label) else {
        crate::diag!("unknown seed {label}");
        return;
    };
    if case["what"] == "interrupted-read" {
        use crate::sio::inst::{plan, Dev, Inst};
        let p = plan();
        p.borrow_mut().chunk = Some(case["chunk"].as_u64().unwrap_or(1) as usize);
        p.borrow_mut().devs.insert(case["interrupted_call"].as_u64().unwrap_or(0), Dev::Interrupted);
        let ae2: Vec<bool> = s.regions.iter().map(|r| r.4).collect();
        let outs = pass_reader(Inst::new(s.bytes.clone(), p), s.password.as_deref(), case["route"] == "stream", case["buffer"].as_u64().unwrap_or(4096) as usize, false, &ae2, &s.plain);
        println!("  per-entry outcomes: {outs:?}");
        if outs.iter().any(|o| *o == (Out::Clean { ok: false })) {
            st.viol("completed-read-of-other-bytes/replay", "an entry read to a clean EOF with bytes whose CRC differs from the declared one", case.clone(), 0);
        }
        return;
    }
    let bytes = crate::util::unhex(case["archive"].as_str().unwrap_or(""));
    let c = case.clone();
    judge(s, &bytes, case["what"].as_str().unwrap_or("replay"), &move || c.clone(), &[1, 2, 7, 4096, 0], st, 0);
}

pub fn run(args: &Args) -> i32 {
    let mut ctx = crate::new_ctx("C04", args);
    let seed = args.seed;
    if let Some(path) = &args.replay {
        return crate::props::replay_file(ctx, path, |c, st| replay(c, st, seed));
    }
    let thorough = args.tier.thorough();
    let all = seeds(seed, false);
    let bufs: Vec<usize> = vec![1, 2, 7, 4096, 0, P_READ_TO_STRING, P_PREFIX_THEN_READ_TO_END, P_BYTES, P_IO_COPY, P_READ_VECTORED];
    ctx.rule = "E-PROD over damage to seed archives (two entries of 24 and ~60 bytes each, plus one seed of empty stored/deflated files and a directory; writer-made stored/deflate/bzip2/zstd and ZipCrypto, builder-made with data descriptors, AE-1, AE-2, and plain/AE-1/AE-2 deflate entries whose stream can end before the payload does (two blocks; spare bytes behind the final block)): \
        every one of the 255 other byte values at every offset of every entry's data region and of its CRC and size fields (central, and local for the streaming route) — in the quick tier the AES seeds get the 8 single-bit flips per byte instead; \
        every payload truncation length; payloads of the two entries swapped; each damaged archive is read entry by entry through the seekable and (where supported) the streaming reader with caller \
        buffers {1, 2, 7, 4096, read_to_end} with and without interposed empty reads, and through read_to_string, read_exact(1)+read_to_end into one vector, bytes(), io::copy and read_vectored (two seeds hold ASCII text so that read_to_string can succeed). Oracle: a read sequence that ends in a clean EOF returned bytes whose CRC-32 equals the declared one; for AE-2 entries (no CRC; covered by their authentication code) a clean EOF must have returned exactly the original bytes. \
        distinct_nontrivial = distinct damaged archives (counted by the enumerator; positions x values never repeat)."
        .into();
    ctx.assume("the harness CRC-32 is correct (self-tested against known vectors at start-up)");
    ctx.uncovered("random multi-byte damage (sampling); seeds larger than ~300 bytes");
    ctx.bound("seeds", json!(all.iter().map(|s| s.label.clone()).collect::<Vec<_>>()));
    ctx.bound("caller_buffers", json!(bufs.iter().map(|b| pattern_name(*b)).collect::<Vec<_>>()));

    // work items: (seed index, absolute position)
    let mut items: Vec<(usize, u64, &'static str)> = vec![];
    for (si, s) in all.iter().enumerate() {
        for r in &s.regions {
            for p in r.0..r.0 + r.1 {
                items.push((si, p, "data"));
            }
            for p in r.2..r.2 + 4 {
                items.push((si, p, "central-crc"));
            }
            if s.streamable {
                for p in r.3..r.3 + 4 {
                    items.push((si, p, "local-crc"));
                }
            }
            // declared sizes (central: crc+4 csize, crc+8 usize; local likewise): a lying size must not turn into a clean read of other bytes
            for p in r.2 + 4..r.2 + 12 {
                items.push((si, p, "central-size"));
            }
            if s.streamable {
                for p in r.3 + 4..r.3 + 12 {
                    items.push((si, p, "local-size"));
                }
            }
        }
    }
    ctx.bound("damage_positions", json!(items.len()));
    let mut distinct = 0u64;
    for (si, _, _) in &items {
        distinct += if bitflips_only(&all[*si], thorough) { 8 } else { 255 };
    }
    let bufs_ref = &bufs;
    let all_ref = &all;
    let s = par_for(items.len() as u64, 1, |t, st| {
        let (si, pos, region) = items[t as usize];
        let sd = &all_ref[si];
        let values: Vec<u8> = if bitflips_only(sd, thorough) { (0..8).map(|b| sd.bytes[pos as usize] ^ (1 << b)).collect() } else { (0..=255u8).filter(|v| *v != sd.bytes[pos as usize]).collect() };
        let mut bytes = sd.bytes.clone();
        let t0 = std::time::Instant::now();
        for v in values {
            bytes[pos as usize] = v;
            let b2 = &bytes;
            let case = move || json!({"seed": sd.label, "what": format!("byte {pos} ({region}) set to {v:#04x}"), "archive": hex(b2)});
            judge(sd, &bytes, &format!("{region}-byte-change"), &case, bufs_ref, st, t << 8 | v as u64);
        }
        st.count(&format!("cpu_ms/{}", sd.label), t0.elapsed().as_millis() as u64);
        if t == 5 {
            st.sample(json!({"seed": sd.label, "damage": format!("byte {pos} ({region}) <- all other values")}));
        }
    });
    ctx.stats.merge(s);
    crate::diag!("  [C04] byte changes done at {:.1}s", ctx.elapsed());

    // truncations and swaps via the builder
    let (a, b) = payloads(seed);
    let mut st = Stats::default();
    for m in [0u16, 8, 12, 93] {
        let ca = crate::reference::codec::compress(m, &a);
        let cb = crate::reference::codec::compress(m, &b);
        let mk = |pa: Vec<u8>, pb: Vec<u8>| Spec {
            entries: vec![
                ESpec { name: b"a".to_vec(), method: m, content: a.clone(), raw_payload: Some(pa), ..Default::default() },
                ESpec { name: b"b".to_vec(), method: m, content: b.clone(), raw_payload: Some(pb), ..Default::default() },
            ],
            ..Default::default()
        };
        let base = seed_from_bytes(&format!("builder-m{m}"), build(&mk(ca.clone(), cb.clone())).0, None, true, &[]);
        for k in 1..=ca.len() {
            let bytes = build(&mk(ca[..ca.len() - k].to_vec(), cb.clone())).0;
            let b2 = bytes.clone();
            let lab = base.label.clone();
            judge(&base, &bytes, "payload-truncated", &move || json!({"seed": lab, "what": format!("first payload truncated by {k}"), "archive": hex(&b2)}), &bufs, &mut st, (1 << 40) + k as u64);
            distinct += 1;
        }
        for k in 1..=cb.len() {
            let bytes = build(&mk(ca.clone(), cb[..cb.len() - k].to_vec())).0;
            let b2 = bytes.clone();
            let lab = base.label.clone();
            judge(&base, &bytes, "payload-truncated", &move || json!({"seed": lab, "what": format!("second payload truncated by {k}"), "archive": hex(&b2)}), &bufs, &mut st, (1 << 40) + 1000 + k as u64);
            distinct += 1;
        }
        let bytes = build(&mk(cb.clone(), ca.clone())).0;
        let b2 = bytes.clone();
        let lab = base.label.clone();
        judge(&base, &bytes, "payloads-swapped", &move || json!({"seed": lab, "what": "payloads swapped", "archive": hex(&b2)}), &bufs, &mut st, 2 << 40);
        distinct += 1;
    }
    st.sample(json!({"seed": "builder-m8", "damage": "first payload truncated by 1..len; payloads swapped"}));
    ctx.stats.merge(st);

    // the same oracle under an uncooperative underlying stream: every read transfers at most c bytes, and one read call
    // (every index, exhaustively) answers ErrorKind::Interrupted first; callers retry as std's own loops do. A read that
    // then completes must still have returned bytes with the declared CRC (nothing may be dropped or repeated).
    {
        use crate::sio::inst::{plan, Dev, Inst};
        let mut jobs: Vec<(usize, bool, usize, u64)> = vec![];
        for (si, sd) in all.iter().enumerate() {
            for stream in [false, true] {
                if stream && !sd.streamable || !stream && !sd.seekable {
                    continue;
                }
                for chunk in [1usize, 5, 4096] {
                    let p = plan();
                    p.borrow_mut().record_kinds = false;
                    p.borrow_mut().chunk = Some(chunk);
                    let ae2: Vec<bool> = sd.regions.iter().map(|r| r.4).collect();
                    let _ = pass_reader(Inst::new(sd.bytes.clone(), p.clone()), sd.password.as_deref(), stream, 4096, false, &ae2, &sd.plain);
                    let n = p.borrow().calls;
                    for k in 0..n {
                        jobs.push((si, stream, chunk, k));
                    }
                }
            }
        }
        ctx.bound("interrupted_reads", json!({"underlying_chunk": [1, 5, 4096], "interrupted_at": "every underlying I/O call index (exhaustive per seed and route)", "caller_buffers": [4096, 3], "executions": jobs.len() * 2}));
        let jobs_r = &jobs;
        let s = par_for(jobs.len() as u64 * 2, 64, |t, st| {
            let (si, stream, chunk, k) = jobs_r[(t / 2) as usize];
            let bufsize = if t % 2 == 0 { 4096 } else { 3 };
            let sd = &all_ref[si];
            let p = plan();
            p.borrow_mut().record_kinds = false;
            p.borrow_mut().chunk = Some(chunk);
            p.borrow_mut().devs.insert(k, Dev::Interrupted);
            let ae2: Vec<bool> = sd.regions.iter().map(|r| r.4).collect();
            st.evals += 1;
            let outs = pass_reader(Inst::new(sd.bytes.clone(), p), sd.password.as_deref(), stream, bufsize, false, &ae2, &sd.plain);
            for (i, o) in outs.iter().enumerate() {
                match o {
                    Out::Clean { ok: false } => {
                        let route = if stream { "stream" } else { "seekable" };
                        st.class("CLEAN-EOF-WRONG-CRC");
                        st.viol(
                            format!("completed-read-of-other-bytes/{}/{route}/interrupted-read", sd.label),
                            format!("undamaged seed {}: underlying reads of at most {chunk} bytes, I/O call {k} answers Interrupted once and is retried: entry {i} reads to a clean EOF through the {route} reader (buffer {bufsize}) but the CRC of the returned bytes differs from the declared one", sd.label),
                            json!({"seed": sd.label, "what": "interrupted-read", "route": route, "chunk": chunk, "interrupted_call": k, "buffer": bufsize}),
                            (3 << 40) + t,
                        );
                    }
                    Out::Clean { ok: true } => st.class("interrupted:clean-eof-crc-matches"),
                    Out::ReadErr => st.class("interrupted:read-error"),
                    Out::NotOpened => st.class("interrupted:not-opened"),
                    Out::Panic(_) => st.class("panic(C05's domain)"),
                }
            }
        });
        ctx.stats.merge(s);
        crate::diag!("  [C04] interrupted reads done at {:.1}s", ctx.elapsed());
    }

    // undamaged seeds must read cleanly (non-vacuity of the clean path)
    let mut st = Stats::default();
    for s in &all {
        let ae2: Vec<bool> = s.regions.iter().map(|r| r.4).collect();
        for stream in [false, true] {
            if stream && !s.streamable || !stream && !s.seekable {
                continue;
            }
            let outs = pass_with(&s.bytes, s.password.as_deref(), stream, 7, false, &ae2, &s.plain);
            if outs.len() != s.regions.len() || outs.iter().any(|o| *o != (Out::Clean { ok: true })) {
                ctx.machinery(format!("undamaged seed {} does not read cleanly: {outs:?}", s.label));
            }
            st.count("undamaged_passes", 1);
        }
    }
    ctx.stats.merge(st);
    ctx.distinct_counted = distinct;
    ctx.stats.states = distinct;
    ctx.stats.transitions = ctx.stats.evals;
    ctx.stats.traces = ctx.stats.evals;
    ctx.finish()
}

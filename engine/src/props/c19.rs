//! C19 — names and comments decode by the flagged encoding; raw bytes are kept.
//! E-PROD: every byte / every 2-byte (thorough: 3-byte UTF-8-mode) string as name and as file
//! comment in both modes via the independent builder; writer side: all strings of <= 2
//! characters over a 40-character alphabet and every Unicode scalar value as a name.

use crate::reference::cp437;
use crate::reference::zipbuild::{build, ESpec, Spec};
use crate::reference::zipparse::{self, Opts};
use crate::util::{fnv, guard, hex, panic_site, par_for, show, unhex, Stats};
use crate::zipapi::*;
use crate::Args;
use serde_json::{json, Value};
use std::io::Cursor;

fn expected(raw: &[u8], utf8: bool) -> String {
    if utf8 {
        String::from_utf8_lossy(raw).into_owned()
    } else {
        cp437::decode(raw)
    }
}

/// One archive whose entries carry `items[i]` as name (if `as_name`) or as file comment.
fn check_foreign(items: &[Vec<u8>], utf8: bool, as_name: bool, st: &mut Stats, order0: u64) {
    check_foreign_x(items, utf8, as_name, 0, st, order0)
}

/// `alt`: 1 = every entry also carries the Info-ZIP "Unicode Path" (0x7075) and "Unicode Comment" (0x6375) blocks with a
/// matching CRC and some other UTF-8 text, in its local and central extra area; 2 = the same blocks with a CRC that
/// does not match. The statement leaves no room for them: name() and comment() decode the header bytes by the flag.
fn check_foreign_x(items: &[Vec<u8>], utf8: bool, as_name: bool, alt: u8, st: &mut Stats, order0: u64) {
    let alt_blocks = |name: &[u8], comment: &[u8]| -> Vec<u8> {
        // alt 5..7: extra areas that do not end on a block boundary, as other tools leave them (padding bytes behind the last
        // block, a block header cut short, a block announcing more bytes than are left): such entries are accepted, and their
        // name and comment are decoded like anyone else's
        match alt {
            5 => return [crate::reference::zipbuild::extra_block(0x7777, b"ok"), vec![0, 0]].concat(),
            6 => return vec![0x77, 0x77, 0x02],
            7 => return [crate::reference::zipbuild::extra_block(0x7777, b"ok"), vec![0x88, 0x88, 0x40, 0x00, b'x']].concat(),
            _ => {}
        }
        if alt == 0 || alt >= 3 {
            return vec![];
        }
        let blk = |id: u16, of: &[u8], text: &str| {
            let crc = crate::reference::crc32::crc32(of) ^ if alt == 2 { 0x5a5a_5a5a } else { 0 };
            let mut body = vec![1u8];
            body.extend_from_slice(&crc.to_le_bytes());
            body.extend_from_slice(text.as_bytes());
            crate::reference::zipbuild::extra_block(id, &body)
        };
        [blk(0x7075, name, "unicode/p\u{e4}th-\u{2603}.txt"), blk(0x6375, comment, "unicode c\u{f6}mment")].concat()
    };
    let mode = if utf8 { "utf8" } else { "cp437" };
    let what = if as_name { "name" } else { "comment" };
    let spec = Spec {
        entries: items
            .iter()
            .enumerate()
            .map(|(i, it)| {
                let name = if as_name { it.clone() } else { format!("e{i}").into_bytes() };
                let comment = if as_name { vec![] } else { it.clone() };
                let x = alt_blocks(&name, &comment);
                // alt 3 / 4: the entry is marked as a directory through its attributes only (DOS directory bit, made by DOS /
                // made by Unix with a directory mode) - whatever the attributes say, name() decodes the stored bytes
                let (made_by, ext_attr) = match alt {
                    3 => (20u16, 0x10u32),
                    4 => ((3u16 << 8) | 20, (0o040755u32 << 16) | 0x10),
                    _ => ((3u16 << 8) | 20, 0o100644u32 << 16),
                };
                ESpec { name, comment, utf8, local_extra: x.clone(), central_extra: x, made_by, ext_attr, ..Default::default() }
            })
            .collect(),
        comment: items.first().cloned().unwrap_or_default(),
        ..Default::default()
    };
    let (bytes, _) = build(&spec);
    let mut ar = match guard(|| zip::ZipArchive::new(Cursor::new(&bytes[..]))) {
        Ok(Ok(a)) => a,
        Ok(Err(e)) => {
            st.viol(format!("open-failed/{mode}/{what}"), format!("ZipArchive::new fails on a well-formed archive: {e}"), json!({"kind":"foreign","items":[hex(&items[0])],"utf8":utf8,"as_name":as_name,"alt":alt}), order0);
            return;
        }
        Err(p) => {
            st.viol(format!("panic/open/{}", panic_site(&p)), p, json!({"kind":"foreign","items":[hex(&items[0])],"utf8":utf8,"as_name":as_name,"alt":alt}), order0);
            return;
        }
    };
    if ar.comment() != &spec.comment[..] {
        st.viol("archive-comment/raw-bytes-changed", format!("comment() = {}, stored {}", show(ar.comment()), show(&spec.comment)), json!({"kind":"foreign","items":[hex(&items[0])],"utf8":utf8,"as_name":as_name,"alt":alt}), order0);
    }
    // the streaming reader decodes local-header names with its own code; the visitor's metadata objects carry
    // central-directory names and comments
    // (a stream may hand out fewer bytes than asked for: every 8th batch also goes through one that transfers at most 2 bytes
    // per read call, so that every name arrives in pieces)
    struct Pieces<'a>(Cursor<&'a [u8]>, usize);
    impl<'a> std::io::Read for Pieces<'a> {
        fn read(&mut self, buf: &mut [u8]) -> std::io::Result<usize> {
            let n = buf.len().min(self.1);
            self.0.read(&mut buf[..n])
        }
    }
    for piece in [usize::MAX, 2] {
        if piece == 2 && (order0 / items.len().max(1) as u64) % 8 != 0 {
            continue;
        }
        let mut cur = Pieces(Cursor::new(&bytes[..]), piece);
        let mut i = 0usize;
        loop {
            let r = guard(|| match zip::read::read_zipfile_from_stream(&mut cur) {
                Ok(Some(f)) => Ok(Some((f.name().to_string(), f.name_raw().to_vec()))),
                Ok(None) => Ok(None),
                Err(e) => Err(e.to_string()),
            });
            match r {
                Ok(Ok(Some((name, raw)))) => {
                    if let Some(it) = items.get(i) {
                        if as_name {
                            st.count("stream_names_checked", 1);
                            let want = expected(it, utf8);
                            if raw != *it || name != want {
                                st.viol(format!("stream-name/wrong-decoding/{mode}"), format!("streaming reader: name() of bytes {} is {:?} (raw {}), expected {:?}", hex(it), name, hex(&raw), want), json!({"kind":"foreign","items":[hex(it)],"utf8":utf8,"as_name":as_name,"alt":alt}), order0 + i as u64);
                            }
                        }
                    }
                    i += 1;
                }
                Ok(Ok(None)) => break,
                Ok(Err(e)) => {
                    st.viol(format!("stream/error/{mode}/{what}"), format!("streaming reader fails on a well-formed archive at entry {i}: {e}"), json!({"kind":"foreign","items":[hex(items.get(i).unwrap_or(&items[0]))],"utf8":utf8,"as_name":as_name,"alt":alt}), order0 + i as u64);
                    break;
                }
                Err(p) => {
                    st.viol(format!("panic/stream/{}", panic_site(&p)), p, json!({"kind":"foreign","items":[hex(&items[0])],"utf8":utf8,"as_name":as_name,"alt":alt}), order0);
                    break;
                }
            }
        }
        struct V<'a> {
            items: &'a [Vec<u8>],
            utf8: bool,
            as_name: bool,
            i: usize,
            bad: Vec<(usize, String, String)>,
        }
        impl<'a> zip::unstable::stream::ZipStreamVisitor for V<'a> {
            fn visit_file(&mut self, _f: &mut zip::read::ZipFile<'_>) -> zip::result::ZipResult<()> {
                Ok(())
            }
            fn visit_additional_metadata(&mut self, m: &zip::unstable::stream::ZipStreamFileMetadata) -> zip::result::ZipResult<()> {
                if let Some(it) = self.items.get(self.i) {
                    let want = expected(it, self.utf8);
                    let got = if self.as_name { m.name().to_string() } else { m.comment().to_string() };
                    if got != want || (self.as_name && m.name_raw() != &it[..]) {
                        self.bad.push((self.i, got, want));
                    }
                }
                self.i += 1;
                Ok(())
            }
        }
        let mut v = V { items, utf8, as_name, i: 0, bad: vec![] };
        let _ = guard(|| zip::unstable::stream::ZipStreamReader::new(Cursor::new(&bytes[..])).visit(&mut v));
        st.count("visitor_metadata_checked", v.i.min(items.len()) as u64);
        for (i, got, want) in v.bad.into_iter().take(1) {
            st.viol(format!("visitor-{what}/wrong-decoding/{mode}"), format!("visitor metadata: {what} of bytes {} is {:?}, expected {:?}", hex(&items[i]), got, want), json!({"kind":"foreign","items":[hex(&items[i])],"utf8":utf8,"as_name":as_name,"alt":alt}), order0 + i as u64);
        }
    }
    // the archive taken over by a writer (new_append) and finished again: every entry must still carry the same name string
    // (names of at most 65535 bytes once re-encoded; the name set of the long-string archives is outside that)
    if as_name && alt == 0 && items.iter().all(|it| it.len() <= 8) {
        let (res, again) = exec_append(&bytes, &[Call::Finish], &[]);
        st.evals += 1;
        if res.iter().all(|r| r.is_ok()) {
            match guard(|| zip::ZipArchive::new(Cursor::new(&again[..])).map(|mut a| (0..a.len()).map(|i| a.by_index_raw(i).map(|f| f.name().to_string()).unwrap_or_else(|e| format!("<{e}>"))).collect::<Vec<_>>())) {
                Ok(Ok(names)) => {
                    for (i, it) in items.iter().enumerate() {
                        let want = expected(it, utf8);
                        if names.get(i) != Some(&want) {
                            st.viol(format!("name/changed-by-append-round/{mode}"), format!("entry name {:?} (stored bytes {}, {mode}) reads {:?} after the archive was opened with new_append and finished again", want, hex(it), names.get(i)), json!({"kind":"foreign","items":[hex(it)],"utf8":utf8,"as_name":as_name,"alt":alt}), order0 + i as u64);
                            break;
                        }
                    }
                    st.count("names_checked_after_append_round", items.len() as u64);
                }
                Ok(Err(e)) => st.viol(format!("append-round/unreadable/{mode}"), format!("after new_append + finish the archive does not open: {e}"), json!({"kind":"foreign","items":[hex(&items[0])],"utf8":utf8,"as_name":as_name,"alt":alt}), order0),
                Err(p) => st.viol(format!("panic/append-round/{}", panic_site(&p)), p, json!({"kind":"foreign","items":[hex(&items[0])],"utf8":utf8,"as_name":as_name,"alt":alt}), order0),
            }
        } else {
            st.count("append_round_refused", 1);
        }
    }
    for (i, it) in items.iter().enumerate() {
        st.evals += 1;
        let case = || json!({"kind":"foreign","items":[hex(it)],"utf8":utf8,"as_name":as_name,"alt":alt});
        let order = order0 + i as u64;
        let r = guard(|| {
            let f = ar.by_index_raw(i).map_err(|e| e.to_string())?;
            Ok::<_, String>((f.name().to_string(), f.name_raw().to_vec(), f.comment().to_string()))
        });
        match r {
            Err(p) => st.viol(format!("panic/accessor/{}", panic_site(&p)), p, case(), order),
            Ok(Err(e)) => st.viol(format!("entry-open-failed/{mode}/{what}"), e, case(), order),
            Ok(Ok((name, raw, comment))) => {
                let want = expected(it, utf8);
                st.class(&format!("{mode}/{what}/{}", if it.is_ascii() { "ascii" } else if std::str::from_utf8(it).is_ok() { "valid-utf8" } else { "not-utf8" }));
                if as_name {
                    if raw != *it {
                        st.viol(format!("name_raw/changed/{mode}"), format!("name_raw() = {}, stored {}", hex(&raw), hex(it)), case(), order);
                    }
                    if name != want {
                        st.viol(format!("name/wrong-decoding/{mode}"), format!("name() of bytes {} is {:?}, expected {:?}", hex(it), name, want), case(), order);
                    }
                } else if comment != want {
                    st.viol(format!("comment/wrong-decoding/{mode}"), format!("comment() of bytes {} is {:?}, expected {:?}", hex(it), comment, want), case(), order);
                }
            }
        }
    }
}

pub const HOWS: [&str; 9] = ["start_file", "start_file+ZipCrypto", "add_directory", "add_symlink", "start_file_with_extra_data", "start_file_aligned", "start_file(large_file, deflated)", "raw_copy_file_rename", "start_file_with_extra_data(large_file) with a longer central-only part"];
const WPW: &[u8] = b"n";

/// Writer side: the given names are written by the real writer (empty stored entries).
fn check_writer(names: &[String], st: &mut Stats, order0: u64) {
    check_writer_how(names, 0, st, order0)
}

/// `how` selects the call that receives the name (index into HOWS).
fn check_writer_how(names_in: &[String], how: u8, st: &mut Stats, order0: u64) {
    let mut calls = vec![];
    // a directory name gains a trailing '/' unless it already ends in a separator: that is the name the writer is given
    let names_v: Vec<String> = names_in.iter().map(|n| if how == 2 && !(n.ends_with('/') || n.ends_with('\\')) { format!("{n}/") } else { n.clone() }).collect();
    let names = &names_v[..];
    let src = if how == 7 { vec![exec(&[Call::StartFile { name: "src".into(), opts: FOpts::m(8) }, Call::Write(b"copied".to_vec()), Call::Finish], &[]).1] } else { vec![] };
    for n in names_in {
        match how {
            1 => {
                calls.push(Call::StartFile { name: n.clone(), opts: FOpts { password: Some(WPW.to_vec()), ..FOpts::m(0) } });
                calls.push(Call::Write(b"x".to_vec()));
            }
            2 => calls.push(Call::AddDir { name: n.clone(), opts: FOpts::m(0) }),
            3 => calls.push(Call::AddSymlink { name: n.clone(), target: "t\u{e9}".into(), opts: FOpts::m(0) }),
            4 => {
                calls.push(Call::StartExtra { name: n.clone(), opts: FOpts::m(0) });
                calls.push(Call::Write(crate::reference::zipbuild::extra_block(0xbeef, b"e")));
                calls.push(Call::EndExtra);
            }
            5 => calls.push(Call::StartAligned { name: n.clone(), opts: FOpts::m(0), align: 16 }),
            6 => {
                calls.push(Call::StartFile { name: n.clone(), opts: FOpts { large: true, ..FOpts::m(8) } });
                calls.push(Call::Write(b"y".to_vec()));
            }
            7 => calls.push(Call::RawCopy { src: 0, idx: 0, rename: Some(n.clone()), raw_open: false }),
            // large_file + extra data whose central part is longer than the local one (the name sits right in front of the
            // local ZIP64 block that gets patched when the entry ends)
            8 => {
                calls.push(Call::StartExtra { name: n.clone(), opts: FOpts { large: true, ..FOpts::m(8) } });
                calls.push(Call::Write(crate::reference::zipbuild::extra_block(0xbeef, b"l")));
                calls.push(Call::EndLocalStartCentral);
                calls.push(Call::Write(crate::reference::zipbuild::extra_block(0xcafe, b"a central part of some length")));
                calls.push(Call::EndExtra);
                calls.push(Call::Write(b"content of the entry".to_vec()));
            }
            _ => calls.push(Call::StartFile { name: n.clone(), opts: FOpts::m(0) }),
        }
    }
    calls.push(Call::Finish);
    let case = |n: &str| json!({"kind":"writer","names":[n],"how":how});
    let (res, bytes) = exec(&calls, &src);
    if let Some((i, r)) = res.iter().enumerate().find(|(_, r)| !r.is_ok()) {
        st.viol(format!("writer/call-failed/{}", r.class()), format!("{} (call {i} of the batch) failed: {}", HOWS[how as usize], r.show()), json!({"kind":"writer","names":names_in.iter().take(50).collect::<Vec<_>>(),"how":how}), order0 + i as u64);
        return;
    }
    let parsed = match zipparse::validate(&bytes, &Opts { password: if how == 1 { Some(WPW.to_vec()) } else { None }, ..Opts::strict() }) {
        Ok(p) => p,
        Err(e) => {
            st.viol(format!("writer/invalid-archive/{}", e.clause), format!("{e}"), json!({"kind":"writer","names":names.iter().take(50).collect::<Vec<_>>()}), order0);
            return;
        }
    };
    let obs = match observe(&bytes, if how == 1 { Some(WPW) } else { None }, 1 << 20) {
        Ok(o) => o,
        Err(e) => {
            st.viol("writer/reader-failed", format!("{e:?}"), json!({"kind":"writer","names":names.iter().take(50).collect::<Vec<_>>()}), order0);
            return;
        }
    };
    if parsed.entries.len() != names.len() || obs.entries.len() != names.len() {
        st.viol("writer/count", format!("{} names written, {} / {} read", names.len(), parsed.entries.len(), obs.entries.len()), json!({"kind":"writer","names":names.iter().take(50).collect::<Vec<_>>()}), order0);
        return;
    }
    for (i, n) in names.iter().enumerate() {
        st.evals += 1;
        st.distinct_hash(fnv(n.as_bytes()));
        let p = &parsed.entries[i];
        let order = order0 + i as u64;
        st.class(&format!("writer/{}/{}", HOWS[how as usize], if n.is_ascii() { "ascii" } else { "non-ascii" }));
        if p.name != n.as_bytes() || p.l_name != n.as_bytes() {
            st.viol(format!("{}/{}", "writer/stored-bytes", HOWS[how as usize]), format!("name {:?} stored as {} (central) / {} (local)", n, hex(&p.name), hex(&p.l_name)), case(n), order);
        }
        let flag = p.flags & 0x800 != 0;
        if flag != !n.is_ascii() || (p.l_flags & 0x800 != 0) != !n.is_ascii() {
            st.viol(format!("{}/{}", "writer/utf8-flag", HOWS[how as usize]), format!("name {:?}: bit 11 central {} local {}", n, flag, p.l_flags & 0x800 != 0), case(n), order);
        }
        if obs.entries[i].name != *n {
            st.viol(format!("{}/{}", "writer/readback", HOWS[how as usize]), format!("name {:?} read back as {:?}", n, obs.entries[i].name), case(n), order);
        }
        if obs.entries[i].name_raw != n.as_bytes() {
            st.viol(format!("{}/{}", "writer/readback-raw", HOWS[how as usize]), format!("name {:?} raw read back as {}", n, hex(&obs.entries[i].name_raw)), case(n), order);
        }
    }
}

fn alphabet40() -> Vec<char> {
    let mut v: Vec<char> = "aZ09 ._-~!#%&'()+,;=@[]^`{}".chars().collect();
    v.extend(['\0', '/', '\\', '\u{7f}', '\u{80}', 'é', '☃', '🐢', '\u{fffd}', '\u{10ffff}', '\u{301}', '\u{feff}', '\u{2028}']);
    v.truncate(40);
    v
}

fn replay(case: &Value, st: &mut Stats) {
    match case["kind"].as_str().unwrap_or("") {
        "foreign" => {
            let items: Vec<Vec<u8>> = case["items"].as_array().map(|a| a.iter().map(|x| unhex(x.as_str().unwrap_or(""))).collect()).unwrap_or_default();
            check_foreign_x(&items, case["utf8"].as_bool().unwrap_or(false), case["as_name"].as_bool().unwrap_or(true), case["alt"].as_u64().unwrap_or(0) as u8, st, 0);
        }
        _ => {
            let names: Vec<String> = case["names"].as_array().map(|a| a.iter().map(|x| x.as_str().unwrap_or("").to_string()).collect()).unwrap_or_default();
            check_writer_how(&names, case["how"].as_u64().unwrap_or(0) as u8, st, 0);
        }
    }
}

pub fn run(args: &Args) -> i32 {
    let mut ctx = crate::new_ctx("C19", args);
    if let Some(path) = &args.replay {
        return crate::props::replay_file(ctx, path, replay);
    }
    let thorough = args.tier.thorough();
    ctx.rule = "E-PROD. Foreign side (independent builder): every single byte 0..=255 alone and embedded as 'a?b', every 2-byte string (65 536), \
        every 3-byte string (2^24; quick: as UTF-8-mode names, thorough: all four combinations) and 12 long strings, each as entry name and as file comment, with the UTF-8 flag set and clear; oracle = CPython-derived \
        CP437 table / std::String::from_utf8_lossy / raw bytes, through the seekable reader, the streaming reader (names) and the visitor's metadata objects (names and comments). Writer side: every string of <= 2 characters over a 40-character alphabet through each of the 8 calls that take a name (start_file, +ZipCrypto, add_directory, add_symlink, with extra data, aligned, large_file+deflated, raw copy with rename) and every Unicode scalar \
        value as a name; oracle = independent parser finds exactly the UTF-8 bytes with bit 11 set iff non-ASCII and the crate reader \
        returns the string. distinct_nontrivial = distinct (string, mode, position) cases counted by the enumerator (never repeated) + distinct writer names (hash set)."
        .into();
    ctx.assume("CPython's cp437 codec is the Unicode consortium mapping (table re-dumped and compared at setup); std's lossy UTF-8 decoder is the UTF-8 oracle");
    ctx.uncovered("byte strings longer than 3 bytes other than the listed long strings; names containing ZIP signatures are not special-cased (none of the enumerated strings is long enough to matter to the reader, which locates records by offset)");

    let mut counted = 0u64;
    // single bytes and a?b
    let mut items: Vec<Vec<u8>> = vec![];
    for b in 0..=255u8 {
        items.push(vec![b]);
        items.push(vec![b'a', b, b'b']);
    }
    // long strings
    let mut long: Vec<Vec<u8>> = vec![];
    long.push((0..=255u8).collect());
    long.push((0..65535usize).map(|i| (i % 256) as u8).collect());
    long.push(vec![0xff; 65535]);
    long.push(vec![0x80; 65535]);
    long.push("☃".repeat(21845).into_bytes());
    long.push("🐢".repeat(16383).into_bytes());
    long.push([0xf0, 0x9f, 0x90].repeat(21845)); // truncated 4-byte sequences
    long.push([0xed, 0xa0, 0x80].repeat(21845)); // surrogates
    long.push([0xc0, 0xaf].repeat(32767)); // overlong
    long.push(vec![b'a'; 65535]);
    long.push([0xe2, 0x82].repeat(32767));
    long.push((0..65535usize).map(|i| (255 - i % 256) as u8).collect());
    for utf8 in [false, true] {
        for as_name in [true, false] {
            let mut st = Stats::default();
            check_foreign(&items, utf8, as_name, &mut st, 0);
            counted += items.len() as u64;
            for (k, l) in long.iter().enumerate() {
                check_foreign(std::slice::from_ref(l), utf8, as_name, &mut st, (1 << 30) + k as u64);
                counted += 1;
            }
            ctx.stats.merge(st);
        }
    }
    ctx.stats.sample(json!({"kind":"foreign","items":["61e962"],"utf8":false,"as_name":true}));
    // every 2-byte string: 256 archives of 256 names
    // ... plainly, and next to Info-ZIP Unicode Path / Unicode Comment blocks (matching and non-matching CRC) that offer another text
    let s = par_for(256 * 4 * 8, 1, |t, st| {
        let hi = (t % 256) as u8;
        let utf8 = (t / 256) % 2 == 1;
        let as_name = (t / 512) % 2 == 0;
        let alt = (t / 1024) as u8;
        let items: Vec<Vec<u8>> = (0..=255u8).map(|lo| vec![hi, lo]).collect();
        check_foreign_x(&items, utf8, as_name, alt, st, (2 << 30) + ((alt as u64) << 24) + ((hi as u64) << 8));
    });
    counted += 65536 * 4 * 8;
    ctx.stats.merge(s);
    ctx.bound("foreign_lengths", json!(if thorough { "1, 2 and 3 bytes exhaustively in both modes as name and comment; 12 long strings" } else { "1 and 2 bytes exhaustively in both modes as name and comment (also next to Info-ZIP Unicode blocks and with directory attributes), 3 bytes as UTF-8-mode names and comments; 12 long strings" }));
    {
        // every 3-byte string: UTF-8 mode names (quick), all four (mode, position) combinations (thorough)
        let combos: &[(bool, bool)] = if thorough { &[(true, true), (true, false), (false, true), (false, false)] } else { &[(true, true), (true, false)] };
        for &(utf8, as_name) in combos {
            let s = par_for(65536, 16, |t, st| {
                let items: Vec<Vec<u8>> = (0..=255u8).map(|lo| vec![(t >> 8) as u8, t as u8, lo]).collect();
                check_foreign(&items, utf8, as_name, st, (3 << 30) + (t << 8));
            });
            counted += 1 << 24;
            ctx.stats.merge(s);
        }
    }

    // writer side
    let al = alphabet40();
    let mut names: Vec<String> = vec![String::new()];
    for &a in &al {
        names.push(a.to_string());
    }
    for &a in &al {
        for &b in &al {
            names.push([a, b].iter().collect());
        }
    }
    let mut st = Stats::default();
    for chunk in names.chunks(400) {
        check_writer(chunk, &mut st, 4 << 30);
    }
    ctx.stats.merge(st);
    // the same strings through every other call that takes a name
    let chunks2: Vec<&[String]> = names.chunks(200).collect();
    let s = par_for(chunks2.len() as u64 * 8, 1, |t, st| {
        let how = 1 + (t % 8) as u8;
        // an empty directory name is not a name ("" + "/" is the root): the writer's choice is not C19's business
        let chunk: Vec<String> = chunks2[(t / 8) as usize].iter().filter(|n| !(how == 2 && n.is_empty())).cloned().collect();
        check_writer_how(&chunk, how, st, (6 << 30) + (t << 12));
    });
    ctx.stats.merge(s);
    // names at the 16-bit limit through every name-taking call: refused with an error, or stored and read back faithfully -
    // never accepted and stored as something else (a directory name gains a '/', which may be the byte too many)
    {
        let longs: Vec<String> = vec!["n".repeat(65_534), "n".repeat(65_535), "\u{e9}".repeat(32_767), format!("{}x", "\u{e9}".repeat(32_767)), format!("{}/", "d".repeat(65_534)), "n".repeat(65_536)];
        let mut st = Stats::default();
        for (k, name) in longs.iter().enumerate() {
            for how in 0..HOWS.len() as u8 {
                st.evals += 1;
                // does the call accept the name at all?
                let probe = std::cell::RefCell::new(Stats::default());
                check_writer_how(std::slice::from_ref(name), how, &mut probe.borrow_mut(), (8 << 30) + ((k as u64) << 8) + how as u64);
                let p = probe.into_inner();
                let refused = p.viols.iter().all(|v| v.sig.starts_with("writer/call-failed")) && !p.viols.is_empty();
                if refused {
                    st.class(&format!("long-name-refused/{}", HOWS[how as usize]));
                } else {
                    // accepted: every other finding stands
                    st.merge(p);
                }
            }
        }
        ctx.stats.merge(st);
        ctx.bound("long_names", json!({"lengths_in_bytes": [65534, 65535, 65534, 65535, 65535, 65536], "calls": HOWS.len(), "oracle": "refused with an error, or stored and read back as the same name"}));
    }
    ctx.bound("writer_calls", json!(HOWS));
    ctx.stats.sample(json!({"kind":"writer","names":["é☃", "\u{0}/"]}));
    // every scalar value
    let step = 1;
    let mut scalars: Vec<char> = vec![];
    let mut c = 0u32;
    while c <= 0x10ffff {
        if let Some(ch) = char::from_u32(c) {
            scalars.push(ch);
        }
        c += step;
    }
    for b in [0x7fu32, 0x80, 0x7ff, 0x800, 0xd7ff, 0xe000, 0xfffd, 0xffff, 0x10000, 0x10ffff] {
        if let Some(ch) = char::from_u32(b) {
            scalars.push(ch);
        }
    }
    ctx.bound("writer_scalars", json!(format!("every {step}th Unicode scalar value + boundaries: {}", scalars.len())));
    let chunks: Vec<&[char]> = scalars.chunks(8192).collect();
    let s = par_for(chunks.len() as u64, 1, |i, st| {
        let names: Vec<String> = chunks[i as usize].iter().map(|c| c.to_string()).collect();
        check_writer(&names, st, (5 << 30) + (i << 14));
        // and as the name of a ZipCrypto entry (the encryption bit shares the flag word with the UTF-8 bit)
        check_writer_how(&names, 1, st, (7 << 30) + (i << 14));
    });
    ctx.stats.merge(s);

    ctx.distinct_counted = counted;
    ctx.stats.states = counted + ctx.stats.distinct.len() as u64;
    ctx.stats.transitions = ctx.stats.evals;
    ctx.stats.traces = ctx.stats.evals;
    ctx.finish()
}

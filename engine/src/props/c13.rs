//! C13 — appending keeps every existing entry and adds the new ones.
//! E-SEQ over append histories: state = archive bytes; transition = one append round
//! (new_append, an operation list, a comment action, finish or drop). All histories up to R
//! rounds over a set of base archives from three producers.

use crate::reference::cp437;
use crate::reference::zipbuild::{build, extra_block, Dd, ESpec, Spec};
use crate::reference::zipparse::{self, Opts};
use crate::util::{fnv, hex, panic_site, par_for, Stats};
use crate::zipapi::*;
use crate::Args;
use serde_json::{json, Value};

#[derive(Clone, Debug, PartialEq)]
pub struct Exp {
    pub name: String,
    pub content: Option<Vec<u8>>,
    pub method: u16,
    pub date: u16,
    pub time: u16,
    /// None = not compared
    pub mode: Option<Option<u32>>,
}

#[derive(Clone)]
pub struct State {
    pub bytes: Vec<u8>,
    pub exp: Vec<Exp>,
    pub comment: Vec<u8>,
}

fn decode(raw: &[u8], utf8: bool) -> String {
    if utf8 {
        String::from_utf8_lossy(raw).into_owned()
    } else {
        cp437::decode(raw)
    }
}

/// Ground truth about a base archive from the independent parser; the crate's view of the
/// mode is recorded so that "unchanged" can be checked for DOS-made entries too.
pub fn base_state(bytes: Vec<u8>) -> Result<State, String> {
    let p = zipparse::parse(&bytes, &Opts::lenient()).map_err(|e| e.to_string())?;
    let obs = observe(&bytes, None, 1 << 22).map_err(|e| format!("{e:?}"))?;
    if obs.entries.len() != p.entries.len() {
        return Err("crate and independent parser disagree on the base's entry count".into());
    }
    let mut exp = vec![];
    for (e, o) in p.entries.iter().zip(&obs.entries) {
        if e.flags & 1 != 0 {
            return Err("encrypted base".into());
        }
        let content = zipparse::content(&bytes, e, &Opts::lenient()).ok();
        if let (Some(c), Ok(oc)) = (&content, &o.content) {
            if c != oc {
                return Err("crate and independent parser disagree on a base entry's content".into());
            }
        }
        let unix = if e.made_by >> 8 == 3 && e.ext_attr != 0 { Some(e.ext_attr >> 16) } else { o.mode };
        exp.push(Exp { name: decode(&e.name, e.flags & 0x800 != 0), content, method: e.method, date: e.date, time: e.time, mode: Some(unix) });
    }
    Ok(State { bytes, exp, comment: p.comment })
}

pub const N_OPS: usize = 13;
pub const OPS: [&str; N_OPS] = ["nothing", "file-stored", "file-deflated", "dir", "file+extra", "raw-copy", "two-files", "symlink", "aligned-large", "bzip2-empty+utf8", "refused-call-only", "refused-call-then-file", "file+refused-finish-then-finish"];
pub const COMMENTS: [&str; 3] = ["keep", "shorter", "longer"];
/// comment actions 0..2 are the three above; 100 + n = replace by a comment of exactly n bytes
pub fn cm_name(cm: usize) -> String {
    if cm >= 100 {
        format!("{} bytes", cm - 100)
    } else {
        COMMENTS[cm].to_string()
    }
}

pub fn round_calls(op: usize, cm: usize, finish: bool, round: usize, seed: u64) -> (Vec<Call>, Vec<Exp>, Option<Vec<u8>>) {
    let mut calls = vec![];
    let mut exp = vec![];
    let t = (0x5821, 0x6000);
    let c17 = content_class(2, seed ^ round as u64);
    let c300 = content_class(3, seed);
    let new_comment = match cm {
        1 => Some(b"x".to_vec()),
        2 => Some(b"a replaced and rather longer archive comment".to_vec()),
        n if n >= 100 => Some((0..n - 100).map(|i| b"0123456789"[i % 10]).collect()),
        _ => None,
    };
    // the comment is set before the entries on even rounds and after on odd ones
    if let (Some(c), true) = (&new_comment, round % 2 == 0) {
        calls.push(Call::SetComment(c.clone()));
    }
    let file = |name: String, m: u16, content: &[u8], calls: &mut Vec<Call>, exp: &mut Vec<Exp>| {
        calls.push(Call::StartFile { name: name.clone(), opts: FOpts::m(m) });
        calls.push(Call::Write(content.to_vec()));
        exp.push(Exp { name, content: Some(content.to_vec()), method: m, date: t.0, time: t.1, mode: Some(Some(0o100644)) });
    };
    match op {
        1 => file(format!("r{round}/stored"), 0, &c17, &mut calls, &mut exp),
        2 => file(format!("r{round}/deflated-ü"), 8, &c300, &mut calls, &mut exp),
        3 => {
            calls.push(Call::AddDir { name: format!("r{round}/dir"), opts: FOpts::m(0) });
            exp.push(Exp { name: format!("r{round}/dir/"), content: Some(vec![]), method: 0, date: t.0, time: t.1, mode: Some(Some(0o040755)) });
        }
        4 => {
            calls.push(Call::StartExtra { name: format!("r{round}/extra"), opts: FOpts::m(8) });
            calls.push(Call::Write(extra_block(0xbeef, b"appended")));
            calls.push(Call::EndExtra);
            calls.push(Call::Write(c300.clone()));
            exp.push(Exp { name: format!("r{round}/extra"), content: Some(c300.clone()), method: 8, date: t.0, time: t.1, mode: Some(Some(0o100644)) });
        }
        5 => {
            calls.push(Call::RawCopy { src: 0, idx: 1, rename: Some(format!("r{round}/copy")), raw_open: false });
            exp.push(Exp { name: format!("r{round}/copy"), content: Some(c300.clone()), method: 8, date: t.0, time: t.1, mode: None });
        }
        6 => {
            file(format!("r{round}/one"), 93, &c300, &mut calls, &mut exp);
            file(format!("r{round}/two"), 0, &[], &mut calls, &mut exp);
        }
        7 => {
            calls.push(Call::AddSymlink { name: format!("r{round}/link"), target: "stored".into(), opts: FOpts::m(0) });
            exp.push(Exp { name: format!("r{round}/link"), content: Some(b"stored".to_vec()), method: 0, date: t.0, time: t.1, mode: Some(Some(0o120777)) });
        }
        8 => {
            calls.push(Call::StartAligned { name: format!("r{round}/aligned"), opts: FOpts { large: true, perm: Some(0o600), ..FOpts::m(0) }, align: 64 });
            calls.push(Call::Write(c17.clone()));
            exp.push(Exp { name: format!("r{round}/aligned"), content: Some(c17.clone()), method: 0, date: t.0, time: t.1, mode: Some(Some(0o100600)) });
        }
        9 => {
            calls.push(Call::StartFile { name: format!("r{round}/ü-empty"), opts: FOpts::m(12) });
            exp.push(Exp { name: format!("r{round}/ü-empty"), content: Some(vec![]), method: 12, date: t.0, time: t.1, mode: Some(Some(0o100644)) });
        }
        // an add whose name is one byte too long for the format is refused; the round goes on (or ends) as if it had not been made
        10 => calls.push(Call::StartFile { name: "n".repeat(65536), opts: FOpts::m(8) }),
        11 => {
            calls.push(Call::AddDir { name: "d".repeat(65536), opts: FOpts::m(0) });
            file(format!("r{round}/after-refusal"), 8, &c300, &mut calls, &mut exp);
        }
        // a file, then finish() refused for a comment one byte too long, the comment corrected (below), finish() again
        12 => {
            file(format!("r{round}/before-refused-finish"), 8, &c300, &mut calls, &mut exp);
            calls.push(Call::SetComment(vec![b'k'; 65536]));
            calls.push(Call::Finish);
            if new_comment.is_none() {
                calls.push(Call::SetComment(b"corrected".to_vec()));
            }
        }
        _ => {}
    }
    if let (Some(c), _) = (&new_comment, ()) {
        if op == 12 && round % 2 == 0 {
            // (set before the entries on even rounds: set it again after the refused finish)
            calls.push(Call::SetComment(c.clone()));
        }
    }
    if let (Some(c), false) = (&new_comment, round % 2 == 0) {
        calls.push(Call::SetComment(c.clone()));
    }
    calls.push(if finish { Call::Finish } else { Call::Drop });
    let new_comment = if op == 12 && new_comment.is_none() { Some(b"corrected".to_vec()) } else { new_comment };
    (calls, exp, new_comment)
}

/// Apply one round to a state; checks the oracle; returns the successor state.
pub fn step(s: &State, op: usize, cm: usize, finish: bool, round: usize, seed: u64, src: &[Vec<u8>], st: &mut Stats, case: &dyn Fn() -> Value, order: u64, base_label: &str) -> Option<State> {
    st.evals += 1;
    st.transitions += 1;
    let (calls, new_exp, new_comment) = round_calls(op, cm, finish, round, seed);
    let (res, bytes) = exec_append(&s.bytes, &calls, src);
    let names: Vec<&str> = std::iter::once("new_append").chain(calls.iter().map(|c| c.opname())).collect();
    // the deliberately over-long name: refusal expected (index i of `res` is call i-1; res[0] is new_append)
    let refusal_expected = |i: usize| {
        i >= 1
            && (matches!(calls.get(i - 1), Some(Call::StartFile { name, .. }) | Some(Call::AddDir { name, .. }) if name.len() > 65535)
                || (matches!(calls.get(i - 1), Some(Call::Finish)) && i >= 2 && matches!(calls.get(i - 2), Some(Call::SetComment(c)) if c.len() > 65535)))
    };
    if res.iter().enumerate().any(|(i, r)| refusal_expected(i) && r.is_ok()) {
        // accepted: C02's business (unrepresentable input); this round says nothing about appending
        st.class("over-long-name-accepted(C02)");
        return None;
    }
    if let Some((i, r)) = res.iter().enumerate().find(|(i, r)| !r.is_ok() && !(refusal_expected(*i) && r.is_err())) {
        let kind = if r.is_panic() { "panic" } else { "call-failed" };
        st.class("APPEND-CALL-FAILED");
        st.viol(
            format!("append/{kind}/{}/{}", names.get(i).copied().unwrap_or("?"), panic_site(&r.show())),
            format!("base {base_label}, round {round} ({} / comment {} / {}): {} returned {}", OPS[op], cm_name(cm), if finish { "finish" } else { "drop" }, names.get(i).copied().unwrap_or("?"), r.show()),
            case(),
            order,
        );
        return None;
    }
    let mut exp = s.exp.clone();
    exp.extend(new_exp);
    let comment = new_comment.unwrap_or_else(|| s.comment.clone());
    let next = State { bytes, exp, comment };
    let mut ok = true;
    let mut bad = |what: &str, detail: String, st: &mut Stats| {
        ok = false;
        st.viol(
            format!("append/{what}/{}", if round == 0 { base_label.split(':').next().unwrap_or("") } else { "later-round" }),
            format!("base {base_label}, after round {round} ({} / comment {} / {}): {detail}", OPS[op], cm_name(cm), if finish { "finish" } else { "drop" }),
            case(),
            order,
        );
    };
    // the crate's own reader
    match observe(&next.bytes, None, 1 << 22) {
        Err(RErr::Panic(p)) => bad(&format!("reader-panic/{}", panic_site(&p)), format!("reader panicked: {p}"), st),
        Err(RErr::Open(e)) => bad(&format!("unreadable/{}", panic_site(&e)), format!("the appended archive cannot be opened: {e}"), st),
        Ok(o) => {
            if o.comment != next.comment {
                bad("comment", format!("archive comment is {:?}, expected {:?}", crate::util::show(&o.comment), crate::util::show(&next.comment)), st);
            }
            if o.entries.len() != next.exp.len() {
                bad(
                    "entry-list",
                    format!("{} entries {:?}, expected {} {:?}", o.entries.len(), o.entries.iter().map(|e| e.name.as_str()).collect::<Vec<_>>(), next.exp.len(), next.exp.iter().map(|e| e.name.as_str()).collect::<Vec<_>>()),
                    st,
                );
            } else {
                for (i, (g, w)) in o.entries.iter().zip(&next.exp).enumerate() {
                    let old = i < s.exp.len();
                    let tag = if old { "existing" } else { "appended" };
                    if g.name != w.name {
                        bad(&format!("{tag}-name"), format!("entry {i}: name {:?}, expected {:?}", g.name, w.name), st);
                    }
                    if g.method != w.method || (g.date, g.time) != (w.date, w.time) {
                        bad(&format!("{tag}-metadata"), format!("entry {i} ({}): method {} stamp {:#x}/{:#x}, expected {} {:#x}/{:#x}", w.name, g.method, g.date, g.time, w.method, w.date, w.time), st);
                    }
                    if let Some(m) = w.mode {
                        if g.mode != m {
                            bad(&format!("{tag}-mode"), format!("entry {i} ({}): unix_mode {:?}, expected {:?}", w.name, g.mode, m), st);
                        }
                    }
                    if let Some(c) = &w.content {
                        match &g.content {
                            Ok(gc) if gc == c => {}
                            Ok(gc) => bad(&format!("{tag}-content"), format!("entry {i} ({}): {} bytes read, expected {}", w.name, gc.len(), c.len()), st),
                            Err(e) => bad(&format!("{tag}-content"), format!("entry {i} ({}): read failed: {e}", w.name), st),
                        }
                    }
                }
            }
        }
    }
    // the independent parser
    match zipparse::parse(&next.bytes, &Opts::lenient()) {
        Err(e) => bad(&format!("independent-parser/{}", e.clause), format!("independent parser rejects the appended archive: {e}"), st),
        Ok(p) => {
            if p.comment != next.comment {
                bad("independent-comment", format!("independent parser sees comment {:?}", crate::util::show(&p.comment)), st);
            }
            if p.entries.len() != next.exp.len() {
                bad("independent-entry-list", format!("independent parser sees {} entries, expected {}", p.entries.len(), next.exp.len()), st);
            } else {
                for (i, (g, w)) in p.entries.iter().zip(&next.exp).enumerate() {
                    if decode(&g.name, g.flags & 0x800 != 0) != w.name {
                        bad("independent-name", format!("entry {i}: independent parser sees name {}", hex(&g.name)), st);
                    }
                    if let Some(c) = &w.content {
                        if zipparse::content(&next.bytes, g, &Opts::lenient()).ok().as_ref() != Some(c) {
                            bad("independent-content", format!("entry {i} ({}): independent decode differs", w.name), st);
                        }
                    }
                }
            }
        }
    }
    if ok {
        st.class(&format!("round-ok/{}/{}", OPS[op], if finish { "finish" } else { "drop" }));
    } else {
        st.class("ROUND-MISMATCH");
    }
    st.distinct_hash(fnv(&next.bytes));
    Some(next)
}

pub fn bases(seed: u64, thorough: bool) -> Vec<(String, Vec<u8>)> {
    let mut v: Vec<(String, Vec<u8>)> = vec![];
    let c17 = content_class(2, seed);
    let c300 = content_class(3, seed);
    let w = |calls: Vec<Call>| {
        let mut c = calls;
        c.push(Call::Finish);
        let (r, b) = exec(&c, &crate::props::c02::sources(seed));
        assert!(r.iter().all(|x| x.is_ok()), "base could not be written");
        b
    };
    v.push(("writer:empty".into(), w(vec![])));
    for (m, n) in [(0u16, "stored"), (8, "deflated"), (12, "bzip2"), (93, "zstd")] {
        v.push((format!("writer:{n}"), w(vec![Call::StartFile { name: format!("base-{n}"), opts: FOpts { perm: Some(0o600), ..FOpts::m(m) } }, Call::Write(c300.clone())])));
    }
    v.push((
        "writer:comment+dir+symlink".into(),
        w(vec![
            Call::SetComment(b"the base comment".to_vec()),
            Call::AddDir { name: "d".into(), opts: FOpts::m(0) },
            Call::AddSymlink { name: "l".into(), target: "d".into(), opts: FOpts::m(0) },
            Call::StartFile { name: "d/f".into(), opts: FOpts::m(8) },
            Call::Write(c17.clone()),
        ]),
    ));
    v.push((
        "writer:extra+large".into(),
        w(vec![
            Call::StartExtra { name: "x".into(), opts: FOpts { large: true, ..FOpts::m(0) } },
            Call::Write(extra_block(0xbeef, b"local+central")),
            Call::EndExtra,
            Call::Write(c17.clone()),
            Call::StartFile { name: "L".into(), opts: FOpts { large: true, ..FOpts::m(8) } },
            Call::Write(c300.clone()),
        ]),
    ));
    v.push(("writer:rawcopy".into(), w(vec![Call::RawCopy { src: 0, idx: 1, rename: None, raw_open: false }])));
    // builder-made
    let e = |name: &[u8], m: u16| ESpec { name: name.to_vec(), method: m, content: c300.clone(), ..Default::default() };
    let b = |spec: Spec| build(&spec).0;
    // the same name more than once (legal; lookups by name find the last one, an append round keeps them all)
    v.push((
        "writer:duplicate-names".into(),
        w(vec![
            Call::StartFile { name: "notes.txt".into(), opts: FOpts::m(8) },
            Call::Write(b"first version of the notes".to_vec()),
            Call::StartFile { name: "data.bin".into(), opts: FOpts::m(0) },
            Call::Write(b"data".to_vec()),
            Call::StartFile { name: "notes.txt".into(), opts: FOpts::m(8) },
            Call::Write(b"second version of the notes, longer".to_vec()),
            Call::AddDir { name: "notes.txt".into(), opts: FOpts::m(0) },
        ]),
    ));
    // DOS stamps no calendar has (all-zero words, month 0 / day 0, month 13, hour 31 / second field 31): whatever the base
    // records is what an append round must leave there
    v.push((
        "builder:stamps-outside-the-calendar".into(),
        b(Spec {
            entries: vec![
                ESpec { date: 0, time: 0, ..e(b"zero-words", 8) },
                ESpec { date: (40 << 9) | (0 << 5) | 0, time: (10 << 11) | (20 << 5) | 15, ..e(b"month0-day0", 0) },
                ESpec { date: (40 << 9) | (13 << 5) | 31, time: 0xffff, ..e(b"month13-time-all-ones", 8) },
                ESpec { date: (127 << 9) | (5 << 5) | 0, time: (31 << 11) | 1, ..e(b"day0-hour31", 0) },
            ],
            ..Default::default()
        }),
    ));
    v.push(("builder:prefix-1000".into(), b(Spec { prefix: vec![0x5a; 1000], entries: vec![e(b"p1", 8), e(b"p2", 0)], comment: b"pc".to_vec(), ..Default::default() })));
    v.push(("builder:zip64-eocd-forced".into(), b(Spec { entries: vec![e(b"z1", 8)], force_zip64_eocd: true, ..Default::default() })));
    v.push(("builder:zip64-eocd-forced-empty".into(), b(Spec { force_zip64_eocd: true, comment: b"e".to_vec(), ..Default::default() })));
    v.push((
        "builder:zip64-fields-forced".into(),
        b(Spec { entries: vec![ESpec { zip64_central: 7, zip64_local: true, ..e(b"zf", 8) }, ESpec { zip64_central: 5, zip64_after: true, central_extra: extra_block(0x7777, b"u"), ..e(b"zg", 0) }], ..Default::default() }),
    ));
    v.push(("builder:data-descriptor".into(), b(Spec { entries: vec![ESpec { dd: Dd::Sig32, ..e(b"dd1", 8) }, ESpec { dd: Dd::NoSig32, ..e(b"dd2", 0) }], ..Default::default() })));
    v.push((
        "builder:dos-ntfs-made-by".into(),
        b(Spec { entries: vec![ESpec { made_by: 20, ext_attr: 0x21, ..e(b"DOS.TXT", 0) }, ESpec { made_by: (10 << 8) | 20, ext_attr: 0x20, ..e(b"ntfs.txt", 8) }, ESpec { made_by: 20, ext_attr: 0x10, content: vec![], ..e(b"DOSDIR/", 0) }], ..Default::default() }),
    ));
    v.push((
        "builder:comments+extras+cp437".into(),
        b(Spec {
            entries: vec![ESpec { comment: b"a file comment".to_vec(), central_extra: extra_block(0x7777, b"ce"), local_extra: extra_block(0x6666, b"le"), ..e(&[b'n', 0x82, 0x81], 8) }],
            comment: b"archive comment".to_vec(),
            ..Default::default()
        }),
    ));
    v.push(("builder:prefix+zip64-eocd-forced".into(), b(Spec { prefix: vec![0x5a; 777], entries: vec![e(b"pz", 8)], force_zip64_eocd: true, comment: b"pzc".to_vec(), ..Default::default() })));
    v.push(("builder:prefix+zip64-eocd-forced-empty".into(), b(Spec { prefix: vec![0x5a; 50], force_zip64_eocd: true, ..Default::default() })));
    v.push((
        "builder:prefix+long-file-comments".into(),
        b(Spec { prefix: vec![0x5a; 300], entries: vec![ESpec { comment: vec![b'c'; 400], ..e(b"fc1", 8) }, ESpec { comment: vec![b'd'; 900], central_extra: extra_block(0x7777, &[1u8; 200]), ..e(b"fc2", 0) }], comment: b"with file comments".to_vec(), ..Default::default() }),
    ));
    v.push(("builder:long-file-comments".into(), b(Spec { entries: vec![ESpec { comment: vec![b'c'; 2000], ..e(b"lc", 8) }], ..Default::default() })));
    v.push(("builder:trailing-garbage".into(), b(Spec { entries: vec![e(b"t", 8)], comment: b"tc".to_vec(), trailing: vec![0xee; 300], ..Default::default() })));
    v.push(("builder:reordered-cd+gaps".into(), b(Spec { entries: vec![e(b"g1", 0), ESpec { gap_before: 9, ..e(b"g2", 8) }], cd_order: Some(vec![1, 0]), gap_before_cd: 4, ..Default::default() })));
    v.push(("builder:method-14".into(), b(Spec { entries: vec![ESpec { raw_payload: Some(b"opaque".to_vec()), content: vec![], ..e(b"lzma", 14) }, e(b"ok", 8)], ..Default::default() })));
    {
        // prepended data in front of exactly 65535 entries: the next entry makes ZIP64 end records necessary
        let spec = Spec { prefix: vec![0x5a; 123], entries: (0..65535).map(|i| ESpec { name: format!("p{i}").into_bytes(), method: 0, content: vec![], ..Default::default() }).collect(), comment: b"prefixed, 65535".to_vec(), ..Default::default() };
        v.push(("builder:prefix+65535-entries".into(), b(spec)));
    }
    {
        // more than 65535 entries (ZIP64 end records become mandatory at 65536): in both tiers
        for n in if thorough { vec![65535usize, 65536, 70000] } else { vec![65535usize, 65536] } {
            let mut calls = vec![];
            for i in 0..n {
                calls.push(Call::StartFile { name: format!("n{i}"), opts: FOpts::m(0) });
            }
            v.push((format!("writer:{n}-entries"), w(calls)));
        }
    }
    v
}

fn cpython_bases() -> Vec<(String, Vec<u8>)> {
    let dir = crate::foreign::scratch_root().join(format!("zipmc-{}-c13py", std::process::id()));
    let _ = std::fs::remove_dir_all(&dir);
    let out = std::process::Command::new("python3").arg(format!("{}/pyref/mkforeign.py", crate::util::verif_root())).arg(&dir).output();
    let mut v = vec![];
    if let Ok(o) = out {
        if o.status.success() {
            let mut files: Vec<_> = std::fs::read_dir(&dir).map(|d| d.filter_map(|e| e.ok()).map(|e| e.path()).filter(|p| p.extension().map_or(false, |x| x == "zip")).collect()).unwrap_or_default();
            files.sort();
            for f in files {
                let man: Value = serde_json::from_str(&std::fs::read_to_string(f.with_extension("json")).unwrap_or_default()).unwrap_or(Value::Null);
                let label = man["label"].as_str().unwrap_or("");
                // deflate and bzip2, with and without force_zip64, one name each; the multi-entry ones
                if ["single m8 c2 z0 n0", "single m8 c1 z1 n2", "single m12 c2 z1 n1", "multi m8 z1", "multi m12 z0", "empty-with-comment"].contains(&label) {
                    if let Ok(b) = std::fs::read(&f) {
                        v.push((format!("cpython:{label}"), b));
                    }
                }
            }
        }
    }
    let _ = std::fs::remove_dir_all(&dir);
    v
}

pub fn delta_bases() -> Vec<(String, Vec<u8>)> {
    let mut dbases: Vec<(String, Vec<u8>)> = vec![];
    let c40: Vec<u8> = (0..40).map(|i| b"abcdefghij"[i % 10]).collect();
    let small = |n: usize| {
        let mut calls = vec![Call::SetComment(c40.clone())];
        for i in 0..n {
            calls.push(Call::StartFile { name: format!("d{i}"), opts: FOpts::m(0) });
        }
        if n < 10 {
            calls.push(Call::Write(b"last entry's content".to_vec()));
        }
        calls.push(Call::Finish);
        exec(&calls, &[]).1
    };
    dbases.push(("writer:2-entries+40-byte-comment".into(), small(2)));
    dbases.push(("writer:65536-entries+40-byte-comment".into(), small(65536)));
    {
        use crate::reference::zipbuild::{build, ESpec, Spec};
        dbases.push(("builder:zip64-eocd-forced+40-byte-comment".into(), build(&Spec { entries: vec![ESpec { name: b"z".to_vec(), method: 8, content: b"forced zip64 end records".to_vec(), ..Default::default() }], force_zip64_eocd: true, comment: c40.clone(), ..Default::default() }).0));
    }
    dbases
}

fn replay(case: &Value, st: &mut Stats, seed: u64) {
    let src = crate::props::c02::sources(seed);
    let mut base = crate::util::unhex(case["base"].as_str().unwrap_or(""));
    let label = case["base_label"].as_str().unwrap_or("replay").to_string();
    if base.is_empty() {
        // large bases are not stored in the replay file: rebuild them by label
        if let Some(b) = delta_bases().into_iter().chain(bases(seed, true)).find(|b| b.0 == label) {
            base = b.1;
        }
    }
    let mut s = match base_state(base) {
        Ok(s) => s,
        Err(e) => {
            crate::diag!("base unusable: {e}");
            return;
        }
    };
    let c = case.clone();
    crate::zipapi::APPEND_CHUNK.with(|x| x.set(case["stream_chunk"].as_u64().unwrap_or(0) as usize));
    for (r, h) in case["history"].as_array().cloned().unwrap_or_default().iter().enumerate() {
        let (op, cm, fin) = (h[0].as_u64().unwrap_or(0) as usize, h[1].as_u64().unwrap_or(0) as usize, h[2].as_bool().unwrap_or(true));
        println!("  round {r}: {} / comment {} / {}", OPS[op], cm_name(cm), if fin { "finish" } else { "drop" });
        let cc = c.clone();
        match step(&s, op, cm, fin, r, seed, &src, st, &move || cc.clone(), 0, &label) {
            Some(n) => s = n,
            None => return,
        }
    }
}

pub fn run(args: &Args) -> i32 {
    let mut ctx = crate::new_ctx("C13", args);
    let seed = args.seed;
    if let Some(path) = &args.replay {
        return crate::props::replay_file(ctx, path, |c, st| replay(c, st, seed));
    }
    let thorough = args.tier.thorough();
    let rounds = if thorough { 4 } else { 3 };
    let mut bs = bases(seed, thorough);
    bs.extend(cpython_bases());
    let src = crate::props::c02::sources(seed);
    ctx.rule = format!(
        "E-SEQ over append histories: state = archive bytes, transition = new_append + one of {{nothing, stored file, deflated file, directory, file with extra data, raw copy, two files, symlink, aligned large_file entry, empty bzip2 entry with a non-ASCII name, a refused add (name of 65 536 bytes) alone, a refused add followed by a file}} x comment {{keep, replace shorter, replace longer}} x {{finish, drop}} (72 transitions). \
         ALL histories of up to {rounds} rounds from {} base archives (writer-made: empty, every method, comment+dir+symlink, extra data+large_file, raw copy{}; builder-made: 1000-byte prefix, forced ZIP64 end records (with and without entries), forced ZIP64 fields, data descriptors, DOS/NTFS made-by, comments+extras+CP437 name, trailing garbage, reordered directory+gaps, method 14; CPython-made deflate/bzip2 with force_zip64). \
         After every round the crate reader and the independent parser must list the base entries (as the independent parser read them from the base) followed by everything appended so far, with names, contents, methods, DOS words, modes and the archive comment. distinct_nontrivial = distinct archive byte strings reached (hash set).",
        bs.len(),
        if thorough { "; 65535/65536/70000 entries (reduced transition set: nothing / stored file / directory x keep / longer comment x finish / drop, two rounds)" } else { "; 65535/65536 entries (reduced transition set: nothing / stored file / directory x keep / longer comment x finish / drop, two rounds)" }
    );
    ctx.assume("ground truth for a base is what reference::zipparse reads from it (cross-checked with the crate reader before the first round)");
    ctx.uncovered("per-file comments and extra fields of old entries surviving (not in the statement); encrypted bases (exempt); a sparse > 4 GiB base");
    ctx.bound("rounds", json!(rounds));
    ctx.bound("bases", json!(bs.iter().map(|b| format!("{} ({} bytes)", b.0, b.1.len())).collect::<Vec<_>>()));

    let mut states: Vec<(usize, Vec<(usize, usize, bool)>, State)> = vec![];
    for (bi, (label, bytes)) in bs.iter().enumerate() {
        match base_state(bytes.clone()) {
            Ok(s) => states.push((bi, vec![], s)),
            Err(e) => ctx.machinery(format!("base {label} unusable: {e}")),
        }
    }
    ctx.stats.states = states.len() as u64;
    let n_trans = N_OPS * 3 * 2;
    for r in 0..rounds {
        // big bases only get the first round and a reduced transition set
        let next: std::sync::Mutex<Vec<(usize, Vec<(usize, usize, bool)>, State)>> = std::sync::Mutex::new(vec![]);
        let (states_r, bs_r, src_r) = (&states, &bs, &src);
        let s = par_for((states.len() * n_trans) as u64, 4, |t, st| {
            let (si, k) = ((t as usize) / n_trans, (t as usize) % n_trans);
            let (bi, hist, state) = &states_r[si];
            let (op, cm, fin) = (k / 6, (k / 2) % 3, k % 2 == 0);
            let big = state.bytes.len() > 1 << 20;
            // big bases (> 1 MiB, i.e. the 65535+-entry ones): reduced transition set, two rounds
            if big && !((cm == 0 || cm == 2) && (op == 0 || op == 1 || op == 3)) {
                return;
            }
            // the refused-finish operation takes part in the first two rounds
            if op == 12 && r >= 2 {
                return;
            }
            let mut h = hist.clone();
            h.push((op, cm, fin));
            let label = &bs_r[*bi].0;
            let base_bytes = &bs_r[*bi].1;
            let hh = h.clone();
            let case = move || json!({"base_label": label, "base": if base_bytes.len() <= 4096 { hex(base_bytes) } else { String::new() }, "history": hh.iter().map(|x| json!([x.0, x.1, x.2])).collect::<Vec<_>>()});
            if let Some(n) = step(state, op, cm, fin, r, seed, src_r, st, &case, ((r as u64) << 40) | t, label) {
                if r + 1 < rounds && (!big || r + 1 < 2) {
                    next.lock().unwrap().push((*bi, h, n));
                }
            }
            if t == 77 {
                st.sample(json!({"base": label, "history": hist.iter().chain(std::iter::once(&(op, cm, fin))).map(|x| format!("{}/{}/{}", OPS[x.0], cm_name(x.1), if x.2 { "finish" } else { "drop" })).collect::<Vec<_>>()}));
            }
        });
        ctx.stats.merge(s);
        let mut n = next.into_inner().unwrap();
        n.sort_by(|a, b| (a.0, &a.1).cmp(&(b.0, &b.1)));
        // merge states with identical archive bytes (finish and drop converge): equal bytes have equal futures,
        // the expectation lists are equal by construction because every successful round is checked against them
        let mut seen = std::collections::HashSet::new();
        n.retain(|x| seen.insert((x.0, fnv(&x.2.bytes))));
        ctx.stats.states += n.len() as u64;
        ctx.stats.max_depth = r as u64 + 1;
        crate::diag!("  [C13] round {} done at {:.1}s ({} successor states)", r + 1, ctx.elapsed(), n.len());
        states = n;
    }
    // the first round again through a stream that transfers at most 7 / 32 bytes per read or write call (legal for Read and
    // Write): the round must leave the same kind of archive
    {
        let small: Vec<usize> = (0..bs.len()).filter(|i| bs[*i].1.len() < 1 << 20).collect();
        let mut cstates = vec![];
        for &bi in &small {
            if let Ok(s) = base_state(bs[bi].1.clone()) {
                cstates.push((bi, s));
            }
        }
        let (cs, bs_r, src_r) = (&cstates, &bs, &src);
        let combos: Vec<(usize, usize, usize)> = [7usize, 32].iter().flat_map(|c| [0usize, 1].into_iter().flat_map(move |op| [0usize, 1, 2].into_iter().map(move |cm| (*c, op, cm)))).collect();
        let cr = &combos;
        let s = par_for((cstates.len() * combos.len()) as u64, 1, |t, st| {
            let (bi, state) = &cs[t as usize / cr.len()];
            let (chunk, op, cm) = cr[t as usize % cr.len()];
            let label = &bs_r[*bi].0;
            let base_bytes = &bs_r[*bi].1;
            let case = move || json!({"base_label": label, "base": if base_bytes.len() <= 4096 { hex(base_bytes) } else { String::new() }, "history": [[op, cm, true]], "stream_chunk": chunk});
            crate::zipapi::APPEND_CHUNK.with(|c| c.set(chunk));
            step(state, op, cm, true, 0, seed, src_r, st, &case, (10u64 << 40) | t, label);
            crate::zipapi::APPEND_CHUNK.with(|c| c.set(0));
        });
        ctx.stats.merge(s);
        ctx.bound("chunked_stream_rounds", json!({"bases": small.len(), "per_call_limit": [7, 32], "ops": ["nothing", "file-stored"], "comment": ["keep", "shorter", "longer"]}));
    }
    // comment lengths swept one byte at a time around the old length: the new end structures end 0..40 bytes before / after
    // the old end of the stream (stale bytes behind the new end record must never confuse a reader), on archives with and
    // without ZIP64 end records
    {
        let dbases = delta_bases();
        let mut dstates = vec![];
        for (label, bytes) in &dbases {
            match base_state(bytes.clone()) {
                Ok(s) => dstates.push((label.clone(), s)),
                Err(e) => ctx.machinery(format!("base {label} unusable: {e}")),
            }
        }
        let lens: Vec<usize> = (0..=80).collect();
        let (dstates_r, lens_r, src_r) = (&dstates, &lens, &src);
        let s = par_for((dstates.len() * lens.len() * 2 * 2) as u64, 1, |t, st| {
            let t = t as usize;
            let fin = t % 2 == 0;
            let op = if (t / 2) % 2 == 0 { 0 } else { 1 };
            let l = lens_r[(t / 4) % lens_r.len()];
            let (label, state) = &dstates_r[t / (4 * lens_r.len())];
            // the 65536-entry base costs ~0.1 s per round: every length with (nothing, finish); the other three combinations
            // at every fourth length
            if !thorough && state.bytes.len() > 1 << 20 && (op != 0 || !fin) && l % 4 != 0 {
                return;
            }
            let case = move || json!({"base_label": label, "base": if state.bytes.len() <= 4096 { hex(&state.bytes) } else { String::new() }, "history": [[op, 100 + l, fin]]});
            step(state, op, 100 + l, fin, 0, seed, src_r, st, &case, (9u64 << 40) | t as u64, label);
        });
        ctx.stats.merge(s);
        ctx.bound("comment_length_sweep", json!({"bases": dbases.iter().map(|b| b.0.clone()).collect::<Vec<_>>(), "old_comment": 40, "new_comment_lengths": "every length 0..=80", "ops": ["nothing", "file-stored"], "terminators": ["finish", "drop"]}));
    }
    ctx.stats.traces = ctx.stats.transitions;
    ctx.finish()
}

//! C02 — every archive the writer emits is a valid, self-consistent ZIP file.
//! E-PROD: C01's program space + call-level composites (extra data, aligned, ZipCrypto, raw
//! copies) at depth <= 3 + one append round + the 16-bit length limits. Judges: the strict
//! APPNOTE parser (`reference::zipparse`), CPython zipfile, and Info-ZIP (thorough).

use crate::foreign::{expect_from_parsed, Batch};
use crate::props::c01;
use crate::reference::zipparse::{self, Opts};
use crate::util::{fnv, panic_site, par_for, Stats};
use crate::zipapi::*;
use crate::Args;
use serde_json::{json, Value};
use std::sync::Mutex;

const PW: &[u8] = b"pw";

pub struct Collector {
    pub items: Mutex<(Vec<(Vec<u8>, Value, bool)>, std::collections::HashSet<u64>, u64)>,
    pub cap_bytes: u64,
}
impl Collector {
    pub fn new(cap_bytes: u64) -> Collector {
        Collector { items: Mutex::new((vec![], Default::default(), 0)), cap_bytes }
    }
    pub fn offer(&self, bytes: &[u8], parsed: &zipparse::Parsed, pw: Option<&[u8]>) {
        if bytes.len() > 1 << 20 {
            return;
        }
        // CPython has no zstd
        let has_zstd = parsed.entries.iter().any(|e| e.method == 93);
        let h = fnv(bytes);
        let mut g = self.items.lock().unwrap();
        if g.2 + bytes.len() as u64 > self.cap_bytes || !g.1.insert(h) {
            return;
        }
        g.2 += bytes.len() as u64;
        g.0.push((bytes.to_vec(), expect_from_parsed(parsed, pw), has_zstd));
    }
}

/// Strictly validate writer output; returns true if valid.
pub fn judge(bytes: &[u8], pw: Option<&[u8]>, st: &mut Stats, case: &Value, order: u64, part: &str, col: Option<&Collector>) -> bool {
    let opts = Opts { password: pw.map(|p| p.to_vec()), ..Opts::strict() };
    match crate::util::guard(|| zipparse::validate(bytes, &opts)) {
        Ok(Ok(parsed)) => {
            st.class(&format!("valid/{}-entries", parsed.entries.len().min(4)));
            st.distinct_hash(fnv(bytes));
            if let Some(c) = col {
                c.offer(bytes, &parsed, pw);
            }
            true
        }
        Ok(Err(e)) => {
            st.class("INVALID");
            st.viol(
                format!("invalid-archive/{}/{}", e.clause, part),
                format!("writer reported success but the strict parser rejects the bytes: {e} [{part}]"),
                case.clone(),
                order,
            );
            false
        }
        Err(p) => {
            st.viol(format!("machinery/validator-panic/{}", panic_site(&p)), format!("validator panicked: {p}"), case.clone(), order);
            false
        }
    }
}

/// Execute a call list (optionally as an append onto `base`) and apply the C02 oracle.
/// `representable`: false when the program contains a length the format cannot hold.
#[allow(clippy::too_many_arguments)]
pub fn run_calls(
    calls: &[Call],
    base: Option<&[u8]>,
    sources: &[Vec<u8>],
    representable: bool,
    pw: Option<&[u8]>,
    st: &mut Stats,
    order: u64,
    part: &str,
    col: Option<&Collector>,
) {
    st.evals += 1;
    let case = json!({"kind": "calls", "calls": calls_json(calls), "base": base.map(crate::util::hex), "representable": representable,
                      "password": pw.map(crate::util::hex), "part": part});
    let (res, bytes) = match base {
        Some(b) => {
            let (r, by) = exec_append(b, calls, sources);
            // drop the new_append result from the per-call list
            if !r[0].is_ok() {
                st.class("append-open-failed");
                if let Res::Panic(p) = &r[0] {
                    st.viol(format!("panic/new_append/{}", panic_site(p)), format!("new_append panicked: {p}"), case, order);
                } else {
                    st.viol("append/open-failed-on-writer-output", format!("new_append rejects the writer's own output: {}", r[0].show()), case, order);
                }
                return;
            }
            (r[1..].to_vec(), by)
        }
        None => exec(calls, sources),
    };
    let mut any_err = false;
    for (c, r) in calls.iter().zip(&res) {
        match r {
            Res::Panic(p) => {
                st.class("panic");
                st.viol(format!("panic/{}/{}", c.opname(), panic_site(p)), format!("{} panicked: {p} [{part}]", c.opname()), case, order);
                return;
            }
            Res::Err(_) => any_err = true,
            Res::Ok(_) => {}
        }
    }
    let last = calls.last();
    let finish_ok = matches!((last, res.last()), (Some(Call::Finish), Some(Res::Ok(_))));
    // drop() cannot report anything: its output is judged only for programs the format can hold
    let dropped_clean = matches!(last, Some(Call::Drop)) && !any_err && representable;
    if !representable && !any_err && matches!(last, Some(Call::Finish)) {
        st.class("unrepresentable-accepted");
        let which = calls.iter().map(|c| c.opname()).collect::<Vec<_>>().join(",");
        st.viol(
            format!("unrepresentable-input-accepted/{part}"),
            format!("every call ({which}) succeeded although a length does not fit its 16-bit field [{part}]"),
            case.clone(),
            order,
        );
        // still judge the bytes below: the message of the validator is the more useful one
    }
    if any_err {
        st.class(if representable { "some-call-refused" } else { "unrepresentable-refused" });
    }
    if finish_ok || dropped_clean {
        judge(&bytes, pw, st, &case, order, part, if representable { col } else { None });
    }
    // raw copies whose SOURCE archive hands out its data in pieces (a Read may return fewer bytes than asked for): whatever
    // comes out under a reported success is judged like the rest
    if base.is_none() && (finish_ok || dropped_clean) && calls.iter().any(|c| matches!(c, Call::RawCopy { .. })) {
        for chunk in [1usize, 100] {
            let (r2, b2) = exec_chunked(calls, sources, 0, chunk);
            st.evals += 1;
            if r2.iter().any(|r| r.is_panic()) {
                st.viol(format!("panic/raw-copy-from-pieces/{part}"), format!("a call panicked with the raw-copy source read in pieces of {chunk} [{part}]"), case.clone(), order);
            } else if r2.iter().all(|r| r.is_ok()) && b2 != bytes {
                judge(&b2, pw, st, &case, order, &format!("{part}/source-in-pieces-of-{chunk}"), None);
            }
        }
    }
}

// ---------------------------------------------------------------------------------------------
// composites

fn rec(id: u16, body: &[u8]) -> Vec<u8> {
    crate::reference::zipbuild::extra_block(id, body)
}

pub fn sources(seed: u64) -> Vec<Vec<u8>> {
    let calls = vec![
        Call::StartFile { name: "s0".into(), opts: FOpts { perm: Some(0o600), ..FOpts::m(0) } },
        Call::Write(content_class(2, seed)),
        Call::StartFile { name: "s1".into(), opts: FOpts::m(8) },
        Call::Write(content_class(3, seed)),
        Call::AddDir { name: "sd".into(), opts: FOpts::m(0) },
        Call::StartFile { name: "s3".into(), opts: FOpts { large: true, ..FOpts::m(93) } },
        Call::Write(content_class(3, seed)),
        Call::Finish,
    ];
    let (r, b) = exec(&calls, &[]);
    assert!(r.iter().all(|x| x.is_ok()), "source archive could not be built");
    vec![b]
}

pub fn composites(seed: u64) -> Vec<(&'static str, Vec<Call>)> {
    let c17 = content_class(2, seed);
    let c300 = content_class(3, seed);
    let enc = |m: u16| FOpts { password: Some(PW.to_vec()), ..FOpts::m(m) };
    vec![
        ("file-stored", vec![Call::StartFile { name: "a".into(), opts: FOpts::m(0) }, Call::Write(c17.clone())]),
        ("file-deflated", vec![Call::StartFile { name: "b".into(), opts: FOpts::m(8) }, Call::Write(c300.clone())]),
        ("file-empty-deflated", vec![Call::StartFile { name: "e".into(), opts: FOpts::m(8) }]),
        ("file-utf8-zstd-2writes", vec![Call::StartFile { name: "ü☃".into(), opts: FOpts::m(93) }, Call::Write(c17.clone()), Call::Write(c300.clone())]),
        ("file-bzip2-large", vec![Call::StartFile { name: "L".into(), opts: FOpts { large: true, ..FOpts::m(12) } }, Call::Write(c300.clone())]),
        ("dir", vec![Call::AddDir { name: "d".into(), opts: FOpts::m(0) }]),
        ("symlink", vec![Call::AddSymlink { name: "l".into(), target: "a".into(), opts: FOpts::m(0) }]),
        ("extra-shared", vec![Call::StartExtra { name: "x1".into(), opts: FOpts::m(0) }, Call::Write(rec(0xbeef, b"xy")), Call::EndExtra, Call::Write(c17.clone())]),
        (
            "extra-local-central",
            vec![
                Call::StartExtra { name: "x2".into(), opts: FOpts::m(8) },
                Call::Write(rec(0xbeef, b"local")),
                Call::EndLocalStartCentral,
                Call::Write(rec(0xcafe, b"central!")),
                Call::EndExtra,
                Call::Write(c300.clone()),
            ],
        ),
        ("extra-large", vec![Call::StartExtra { name: "x3".into(), opts: FOpts { large: true, ..FOpts::m(0) } }, Call::Write(rec(0xbeef, b"")), Call::EndExtra, Call::Write(c17.clone())]),
        ("extra-none", vec![Call::StartExtra { name: "x4".into(), opts: FOpts::m(8) }, Call::EndExtra, Call::Write(c17.clone())]),
        ("extra-implicit-end", vec![Call::StartExtra { name: "x5".into(), opts: FOpts::m(0) }, Call::Write(rec(0xabcd, b"abc"))]),
        ("aligned-4", vec![Call::StartAligned { name: "al4".into(), opts: FOpts::m(0), align: 4 }, Call::Write(c17.clone())]),
        ("aligned-64-deflated", vec![Call::StartAligned { name: "al64".into(), opts: FOpts::m(8), align: 64 }, Call::Write(c300.clone())]),
        ("aligned-4096-large", vec![Call::StartAligned { name: "al4k".into(), opts: FOpts { large: true, ..FOpts::m(0) }, align: 4096 }, Call::Write(c17.clone())]),
        ("zipcrypto-stored", vec![Call::StartFile { name: "z0".into(), opts: enc(0) }, Call::Write(c17.clone())]),
        ("zipcrypto-deflated", vec![Call::StartFile { name: "z8".into(), opts: enc(8) }, Call::Write(c300.clone())]),
        ("zipcrypto-empty", vec![Call::StartFile { name: "ze".into(), opts: enc(0) }]),
        ("rawcopy-stored", vec![Call::RawCopy { src: 0, idx: 0, rename: None, raw_open: false }]),
        ("rawcopy-deflated-renamed", vec![Call::RawCopy { src: 0, idx: 1, rename: Some("ren-ü".into()), raw_open: false }]),
        ("rawcopy-zstd-large-rawopen", vec![Call::RawCopy { src: 0, idx: 3, rename: None, raw_open: true }]),
        ("rawcopy-dir", vec![Call::RawCopy { src: 0, idx: 2, rename: None, raw_open: false }]),
    ]
}

fn replay(case: &Value, st: &mut Stats, seed: u64) {
    if case["kind"] == "program" {
        let p = c01::Program::from_json(&case["program"], seed);
        program_case(&p, st, 0, "replay", None);
        return;
    }
    let regen = move |n: usize| c01::regen_content(n, seed);
    let calls = calls_from_json(&case["calls"], &regen);
    let base = case["base"].as_str().map(crate::util::unhex);
    let pw = case["password"].as_str().map(crate::util::unhex);
    let src = sources(seed);
    run_calls(&calls, base.as_deref(), &src, case["representable"].as_bool().unwrap_or(true), pw.as_deref(), st, 0, case["part"].as_str().unwrap_or("replay"), None);
}

fn program_case(p: &c01::Program, st: &mut Stats, order: u64, part: &str, col: Option<&Collector>) {
    for finish in [true, false] {
        st.evals += 1;
        let calls = p.calls(finish);
        let (res, bytes) = exec(&calls, &p.sources());
        let case = json!({"kind": "program", "program": p.to_json(), "finish": finish});
        if let Some((c, r)) = calls.iter().zip(&res).find(|(_, r)| r.is_panic()) {
            st.viol(format!("panic/{}/{}", c.opname(), panic_site(&r.show())), format!("{} panicked: {} [{part}]", c.opname(), r.show()), case, order);
            return;
        }
        if res.iter().all(|r| r.is_ok()) {
            judge(&bytes, None, st, &case, order, part, if finish { col } else { None });
        } else {
            st.class("some-call-refused");
        }
    }
}

pub fn run(args: &Args) -> i32 {
    let mut ctx = crate::new_ctx("C02", args);
    let seed = args.seed;
    if let Some(path) = &args.replay {
        return crate::props::replay_file(ctx, path, |c, st| replay(c, st, seed));
    }
    let thorough = args.tier.thorough();
    ctx.rule = "E-PROD: (A) the complete C01 program space (finish and drop); (B) all sequences of length 1..3 over 22 call-level composites \
        (plain files, directories, symlinks, shared/local/central extra data, aligned entries, ZipCrypto entries, raw copies) x {finish, drop}; \
        (C) one append round: every base from a 12-program set x every composite; (D) every 16-bit length field driven to {65535, 65536, 65537, 70000} \
        through every call that feeds it. Every success is judged by the strict APPNOTE parser; a deterministic subset (all of B, C, D and the \
        non-sweep parts of A, de-duplicated, <= 1 MiB each) additionally by CPython zipfile, and in the thorough tier by Info-ZIP unzip -t. \
        distinct_nontrivial = distinct archive byte strings that reached the strict validator (hash set)."
        .into();
    ctx.assume("the strict parser (reference::zipparse) is written from APPNOTE 6.3.9 and shares no code with the crate; codecs trusted");
    ctx.uncovered("version-needed fields, redundant ZIP64 blocks and ordering of extra blocks are deliberately not judged; archives with > 4 entries per program (C08/C12 cover counts and deeper sequences)");
    let col = Collector::new(if thorough { 600 << 20 } else { 150 << 20 });

    // (A)
    let (s, bounds) = c01::enumerate(thorough, seed, &|p, order, part, st| {
        let sweep = part.ends_with("-sweep");
        let use_col = !sweep || order % 256 == 0;
        program_case(p, st, order, part, if use_col { Some(&col) } else { None });
    });
    ctx.stats.merge(s);
    for (k, v) in bounds {
        ctx.bound(&format!("A_{k}"), v);
    }
    crate::diag!("  [C02] part A done at {:.1}s", ctx.elapsed());

    // (B)
    let comps = composites(seed);
    let src = sources(seed);
    let n = comps.len() as u64;
    let depth = 3u32;
    let mut total = 0u64;
    for d in 1..=depth {
        total += n.pow(d);
    }
    ctx.bound("B_composites", json!({"alphabet": comps.iter().map(|c| c.0).collect::<Vec<_>>(), "max_len": depth, "sequences": total, "terminators": 2}));
    let s = par_for(total * 2, 16, |i, st| {
        let finish = i % 2 == 0;
        let mut j = i / 2;
        let mut d = 1;
        while j >= n.pow(d) {
            j -= n.pow(d);
            d += 1;
        }
        let mut calls = vec![];
        let mut uses_pw = false;
        let mut labels = vec![];
        for k in (0..d).rev() {
            let c = &comps[((j / n.pow(k)) % n) as usize];
            labels.push(c.0);
            uses_pw |= c.0.starts_with("zipcrypto");
            calls.extend(c.1.iter().cloned());
        }
        calls.push(if finish { Call::Finish } else { Call::Drop });
        run_calls(&calls, None, &src, true, if uses_pw { Some(PW) } else { None }, st, (10 << 32) + i, "composites", Some(&col));
        if i == 4000 {
            st.sample(json!({"composites": labels, "finish": finish}));
        }
    });
    ctx.stats.merge(s);
    crate::diag!("  [C02] part B done at {:.1}s", ctx.elapsed());

    // (C) one append round
    let mut bases: Vec<(String, Vec<u8>, bool)> = vec![("empty".into(), exec(&[Call::Finish], &[]).1, false)];
    for (label, calls) in comps.iter() {
        if bases.len() >= 12 {
            break;
        }
        if label.starts_with("rawcopy") || label.starts_with("file-empty") {
            continue;
        }
        let mut c = vec![Call::SetComment(b"base comment".to_vec())];
        c.extend(calls.iter().cloned());
        c.push(Call::Finish);
        let (r, b) = exec(&c, &src);
        if r.iter().all(|x| x.is_ok()) {
            bases.push((label.to_string(), b, label.starts_with("zipcrypto")));
        }
    }
    // bases from another producer whose entries carry DOS stamps outside the calendar ranges (all-zero "no date", all-one
    // words, seconds field 31, minute 63, hour 31, month 0 / 15, day 0): the re-emitted central records must still agree
    // with the local headers that stay in place
    {
        use crate::reference::zipbuild::{build, ESpec, Spec};
        let stamps: [(u16, u16); 11] = [(0, 0), (0xffff, 0xffff), (0x0021, 0x001f), (0x0021, 0x07e0), (0x0021, 0xf800), (0x01e1, 0), (0x0001, 0x6000), (0x0020, 0x6000), (0x5821, 0x6000), (0x5821, 0xbf7d), (0x5821, 0x001e)];
        for (label, made_by, attr) in [("foreign-odd-stamps-unix", (3u16 << 8) | 20, 0o100644u32 << 16), ("foreign-odd-stamps-dos", 20u16, 0x20u32)] {
            let spec = Spec {
                entries: stamps.iter().enumerate().map(|(i, &(d, t))| ESpec { name: format!("stamp{i}").into_bytes(), method: if i % 2 == 0 { 0 } else { 8 }, content: format!("entry with DOS words {d:#06x} {t:#06x} ").repeat(3).into_bytes(), date: d, time: t, made_by, ext_attr: attr, ..Default::default() }).collect(),
                comment: b"base comment".to_vec(),
                ..Default::default()
            };
            let (b, _) = build(&spec);
            if let Err(e) = zipparse::validate(&b, &zipparse::Opts::strict()) {
                ctx.machinery(format!("the builder's own archive '{label}' fails the strict parser: {e}"));
            }
            bases.push((label.to_string(), b, false));
        }
    }
    ctx.bound("C_append", json!({"bases": bases.iter().map(|b| b.0.clone()).collect::<Vec<_>>(), "rounds": 1, "appended": "each composite, or nothing", "comment": ["keep", "shorter", "longer"], "terminators": 2}));
    let nb = bases.len() as u64;
    let s = par_for(nb * (n + 1) * 2 * 3, 4, |i, st| {
        let finish = i % 2 == 0;
        let cm = (i / 2) % 3;
        let j = i / 6;
        let b = &bases[(j / (n + 1)) as usize];
        let k = (j % (n + 1)) as usize;
        let mut calls = vec![];
        // the base comment has 12 bytes: keep it, replace it by a shorter one (the new end records end before the old
        // end of the stream) or by a longer one
        match cm {
            1 => calls.push(Call::SetComment(b"s".to_vec())),
            2 => calls.push(Call::SetComment(b"a longer replacement comment".to_vec())),
            _ => {}
        }
        let mut uses_pw = b.2;
        if k > 0 {
            calls.extend(comps[k - 1].1.iter().cloned());
            uses_pw |= comps[k - 1].0.starts_with("zipcrypto");
        }
        calls.push(if finish { Call::Finish } else { Call::Drop });
        run_calls(&calls, Some(&b.1), &src, true, if uses_pw { Some(PW) } else { None }, st, (11 << 32) + i, "append", Some(&col));
    });
    ctx.stats.merge(s);
    crate::diag!("  [C02] part C done at {:.1}s", ctx.elapsed());

    // (D) 16-bit length limits
    let mut dcases: Vec<(String, Vec<Call>, bool)> = vec![];
    let lens = [65535usize, 65536, 65537, 70000];
    for &l in &lens {
        let ok = l <= 65535;
        let name = "n".repeat(l);
        dcases.push((format!("start_file/name={l}"), vec![Call::StartFile { name: name.clone(), opts: FOpts::m(0) }, Call::Write(b"x".to_vec())], ok));
        dcases.push((format!("start_file-deflated/name={l}"), vec![Call::StartFile { name: name.clone(), opts: FOpts::m(8) }, Call::Write(b"x".to_vec())], ok));
        dcases.push((format!("start_file-large/name={l}"), vec![Call::StartFile { name: name.clone(), opts: FOpts { large: true, ..FOpts::m(0) } }], ok));
        dcases.push((format!("add_symlink/name={l}"), vec![Call::AddSymlink { name: name.clone(), target: "t".into(), opts: FOpts::m(0) }], ok));
        dcases.push((format!("start_extra/name={l}"), vec![Call::StartExtra { name: name.clone(), opts: FOpts::m(0) }, Call::EndExtra], ok));
        dcases.push((format!("start_aligned/name={l}"), vec![Call::StartAligned { name: name.clone(), opts: FOpts::m(0), align: 4 }], ok));
        dcases.push((format!("raw_copy_rename/name={l}"), vec![Call::RawCopy { src: 0, idx: 0, rename: Some(name.clone()), raw_open: false }], ok));
        dcases.push((format!("set_comment/len={l}"), vec![Call::SetComment(vec![b'c'; l]), Call::StartFile { name: "a".into(), opts: FOpts::m(0) }], ok));
        dcases.push((format!("set_comment-empty-archive/len={l}"), vec![Call::SetComment(vec![b'c'; l])], ok));
        // directory: the name gains a '/'
        let dl = l - 1;
        dcases.push((format!("add_directory/name={dl}+slash"), vec![Call::AddDir { name: "n".repeat(dl), opts: FOpts::m(0) }], ok));
        // non-ASCII: 2 bytes per char
        if l % 2 == 0 || l == 65535 {
            let chars = if l == 65535 { 32767 } else { l / 2 };
            let nn = "ü".repeat(chars);
            dcases.push((format!("start_file/utf8-name={}", nn.len()), vec![Call::StartFile { name: nn.clone(), opts: FOpts::m(0) }], nn.len() <= 65535));
        }
    }
    // extra data totals: one or two records adding up to `total` bytes
    let extra_of = |total: usize| -> Vec<u8> {
        let mut v = vec![];
        let mut left = total;
        while left > 0 {
            let body = (left - 4).min(60000);
            v.extend(rec(0xbeef, &vec![7u8; body]));
            left -= 4 + body;
            if left > 0 && left < 4 {
                // cannot happen for the totals used below (chosen so that the split works)
                break;
            }
        }
        v
    };
    for &(total, large, ok) in &[
        (65515usize, false, true),
        (65515, true, true),
        (65516, true, false),
        (65530, true, false),
        (65535, false, true),
        (65535, true, false),
        (65536, false, false),
        (65536, true, false),
        (70000, false, false),
    ] {
        let x = extra_of(total);
        debug_assert_eq!(x.len(), total);
        dcases.push((
            format!("extra-shared/total={total}/large={large}"),
            vec![Call::StartExtra { name: "x".into(), opts: FOpts { large, ..FOpts::m(0) } }, Call::Write(x.clone()), Call::EndExtra, Call::Write(b"data".to_vec())],
            ok,
        ));
        // central-only: the local header keeps only the ZIP64 block, so `large` does not matter centrally for small files
        dcases.push((
            format!("extra-central-only/total={total}/large={large}"),
            vec![
                Call::StartExtra { name: "x".into(), opts: FOpts { large, ..FOpts::m(0) } },
                Call::EndLocalStartCentral,
                Call::Write(x.clone()),
                Call::EndExtra,
                Call::Write(b"data".to_vec()),
            ],
            total <= 65535,
        ));
    }
    ctx.bound("D_length_limits", json!({"cases": dcases.iter().map(|d| d.0.clone()).collect::<Vec<_>>(), "each_followed_by": ["finish", "second entry + finish", "drop"]}));
    let nd = dcases.len() as u64;
    let s = par_for(nd * 3, 1, |i, st| {
        let d = &dcases[(i / 3) as usize];
        let mut calls = d.1.clone();
        match i % 3 {
            0 => calls.push(Call::Finish),
            1 => {
                calls.push(Call::StartFile { name: "after".into(), opts: FOpts::m(8) });
                calls.push(Call::Write(b"after".to_vec()));
                calls.push(Call::Finish);
            }
            _ => calls.push(Call::Drop),
        }
        let before = st.viols.len();
        run_calls(&calls, None, &src, d.2, None, st, (12 << 32) + i, &format!("limit/{}", d.0.split('/').next().unwrap_or("")), Some(&col));
        if st.viols.len() > before {
            st.count("limit_cases_failing", 1);
        }
    });
    ctx.stats.merge(s);
    crate::diag!("  [C02] part D done at {:.1}s", ctx.elapsed());

    // (E) refused calls in the middle of a program: the caller handles the error and carries on. Whatever was refused,
    // a finish() that then reports success must still have produced a valid archive.
    let refusals: Vec<(&'static str, Vec<Call>)> = {
        let c17 = content_class(2, seed);
        let c300 = content_class(3, seed);
        let mut trunc = rec(0xbeef, b"");
        trunc[2] = 4;
        trunc.extend_from_slice(b"ab");
        let sx = |m: u16, large: bool, level: Option<i32>| Call::StartExtra { name: "rx".into(), opts: FOpts { large, level, ..FOpts::m(m) } };
        vec![
            ("extra-truncated-deflated", vec![sx(8, false, None), Call::Write(trunc.clone()), Call::EndExtra, Call::Write(c300.clone())]),
            ("extra-reserved-id-zstd", vec![sx(93, false, None), Call::Write(rec(0x000a, b"")), Call::EndExtra, Call::Write(c300.clone())]),
            ("extra-zip64-id-then-central", vec![sx(0, true, None), Call::Write(rec(0x0001, b"")), Call::EndLocalStartCentral, Call::Write(rec(0xcafe, b"c")), Call::EndExtra, Call::Write(c17.clone())]),
            ("extra-central-truncated-bzip2", vec![sx(12, false, None), Call::EndLocalStartCentral, Call::Write(trunc.clone()), Call::EndExtra, Call::Write(c300.clone())]),
            ("extra-too-long-deflated", vec![sx(8, false, None), Call::Write(rec(0xbeef, &vec![1u8; 40000])), Call::Write(rec(0xbeef, &vec![2u8; 40000])), Call::EndExtra, Call::Write(c300.clone())]),
            ("extra-bad-level", vec![sx(8, false, Some(77)), Call::Write(rec(0xbeef, b"v")), Call::EndExtra, Call::Write(c300.clone())]),
            ("extra-truncated-implicit-end", vec![sx(8, false, None), Call::Write(trunc.clone()), Call::StartFile { name: "nx".into(), opts: FOpts::m(8) }, Call::Write(c300.clone())]),
            ("name-too-long", vec![Call::StartFile { name: "n".repeat(65536), opts: FOpts::m(8) }, Call::Write(c17.clone())]),
            ("name-too-long-aligned", vec![Call::StartAligned { name: "n".repeat(65536), opts: FOpts::m(0), align: 64 }, Call::Write(c17.clone())]),
            ("name-too-long-dir", vec![Call::AddDir { name: "n".repeat(65535), opts: FOpts::m(0) }]),
            ("name-too-long-rawcopy", vec![Call::RawCopy { src: 0, idx: 1, rename: Some("n".repeat(65536)), raw_open: false }]),
            ("bad-level-deflated", vec![Call::StartFile { name: "lv".into(), opts: FOpts { level: Some(77), ..FOpts::m(8) } }, Call::Write(c300.clone())]),
            ("bad-level-zstd", vec![Call::StartFile { name: "lz".into(), opts: FOpts { level: Some(-99), ..FOpts::m(93) } }, Call::Write(c300.clone())]),
            ("unsupported-method", vec![Call::StartFile { name: "um".into(), opts: FOpts::m(1) }, Call::Write(c17.clone())]),
            ("end-extra-never-begun", vec![Call::EndExtra]),
            ("end-local-never-begun", vec![Call::EndLocalStartCentral]),
            ("comment-too-long-then-finish-then-short", vec![Call::SetComment(vec![b'c'; 65536]), Call::Finish, Call::SetComment(b"ok".to_vec())]),
        ]
    };
    {
        let nr = refusals.len() as u64;
        let n1 = n + 1; // composite or nothing
        let total = n1 * nr * n1 * 2;
        ctx.bound("E_refusals", json!({"refused_call_groups": refusals.iter().map(|r| r.0).collect::<Vec<_>>(), "shape": "[composite or nothing] + refused group + [composite or nothing] + finish, twice (the second finish is the caller's retry)", "sequences": total}));
        let s = par_for(total, 8, |i, st| {
            let twice = i % 2 == 1;
            let j = i / 2;
            let (a, r, b) = ((j / (nr * n1)) as usize, ((j / n1) % nr) as usize, (j % n1) as usize);
            let mut calls = vec![];
            let mut uses_pw = false;
            for k in [a, usize::MAX, b] {
                if k == usize::MAX {
                    calls.extend(refusals[r].1.iter().cloned());
                } else if k > 0 {
                    calls.extend(comps[k - 1].1.iter().cloned());
                    uses_pw |= comps[k - 1].0.starts_with("zipcrypto");
                }
            }
            calls.push(Call::Finish);
            if twice {
                // a caller that sees finish() fail fixes what it can (here: nothing) and tries again
                calls.push(Call::Finish);
            }
            run_calls(&calls, None, &src, true, if uses_pw { Some(PW) } else { None }, st, (13 << 32) + i, &format!("refusal/{}", refusals[r].0), None);
        });
        ctx.stats.merge(s);
        crate::diag!("  [C02] part E done at {:.1}s", ctx.elapsed());
    }

    // (G) a sink that is not at offset 0 when the writer starts (a file positioned behind other data): small entries whose
    // headers, data or central directory straddle the 4 GiB mark although no entry is large - every 32-bit field that cannot
    // hold its value must be backed by ZIP64 records
    {
        use crate::sio::sparse::SparseFile;
        use std::io::{Seek, SeekFrom};
        let starts: [u64; 7] = [0xFFFF_E000, 0xFFFF_FF00, 0xFFFF_FFC0, 0xFFFF_FFFE, 0x1_0000_0000, 0x1_0000_0064, 5];
        let progs: Vec<Vec<Call>> = vec![
            vec![Call::StartFile { name: "one".into(), opts: FOpts::m(0) }, Call::Write(vec![b'1'; 200]), Call::StartFile { name: "two".into(), opts: FOpts::m(8) }, Call::Write(vec![b'2'; 300]), Call::Finish],
            vec![Call::SetComment(b"c".to_vec()), Call::StartFile { name: "only".into(), opts: FOpts::m(0) }, Call::Write(vec![b'o'; 8000]), Call::Finish],
            vec![Call::AddDir { name: "d".into(), opts: FOpts::m(0) }, Call::StartAligned { name: "al".into(), opts: FOpts::m(0), align: 64 }, Call::Write(vec![b'a'; 100]), Call::Finish],
        ];
        let mut st = Stats::default();
        for (si, &start) in starts.iter().enumerate() {
            for (pi, calls) in progs.iter().enumerate() {
                st.evals += 1;
                let order = (13 << 32) + (si * 8 + pi) as u64;
                let case = json!({"kind": "positioned-sink", "start": start, "calls": calls_json(calls)});
                let mut sf = SparseFile::new();
                let _ = sf.seek(SeekFrom::Start(start));
                let res: Vec<Res> = {
                    let mut w = W::new(&mut sf);
                    calls.iter().map(|c| w.call(c, &[])).collect()
                };
                if let Some(r) = res.iter().find(|r| r.is_panic()) {
                    st.viol(format!("panic/positioned-sink/{}", panic_site(&r.show())), format!("writer over a sink positioned at {start}: {}", r.show()), case, order);
                    continue;
                }
                if !res.iter().all(|r| r.is_ok()) {
                    st.class("positioned-sink:refused");
                    continue;
                }
                match crate::util::guard(|| zipparse::validate(&sf, &Opts::strict())) {
                    Ok(Ok(_)) => st.class("valid/positioned-sink"),
                    Ok(Err(e)) => st.viol(format!("invalid-archive/{}/positioned-sink", e.clause), format!("writer over a sink positioned at {start} reported success but the strict parser rejects the bytes: {e}"), case, order),
                    Err(p) => st.viol("machinery/validator-panic", p, case, order),
                }
            }
        }
        ctx.stats.merge(st);
        ctx.bound("G_positioned_sink", json!({"start_positions": starts, "programs": progs.len()}));
    }

    // (An earlier part F injected one transient I/O failure at every I/O call with a caller that retries and carries on,
    // and demanded a valid archive whenever finish() then reported success. The unchanged crate fails that at many
    // points: once a call has reported an I/O error it makes no promise about what a later finish() leaves behind, and
    // C11 states that a reported error is an acceptable outcome. The part demanded more than C02 states and was removed;
    // see DESIGN.md 10.8.)

    // foreign judges
    let items = std::mem::take(&mut col.items.lock().unwrap().0);
    match Batch::new("c02") {
        Err(e) => ctx.machinery(format!("cannot create scratch directory for the foreign judges: {e}")),
        Ok(mut batch) => {
            let mut keys = vec![];
            for (bytes, exp, has_zstd) in &items {
                match batch.add(bytes, exp) {
                    Ok(k) => keys.push((k, *has_zstd, exp["password"].as_str().map(crate::util::unhex))),
                    Err(e) => {
                        ctx.machinery(format!("scratch write failed: {e}"));
                        break;
                    }
                }
            }
            match batch.run_cpython() {
                Err(e) => ctx.machinery(format!("CPython judge failed to run: {e}")),
                Ok((lines, na, ne, nr)) => {
                    ctx.stats.count("cpython_archives", na);
                    ctx.stats.count("cpython_entries", ne);
                    ctx.stats.count("cpython_entries_read", nr);
                    for l in &lines {
                        // DISAGREE <k> <clause> <detail>
                        let mut it = l.splitn(4, ' ');
                        let (_, k, clause, detail) = (it.next(), it.next().unwrap_or(""), it.next().unwrap_or(""), it.next().unwrap_or(""));
                        let idx: usize = k.parse().unwrap_or(0);
                        let bytes = items.get(idx).map(|x| x.0.clone()).unwrap_or_default();
                        ctx.stats.viol(
                            format!("cpython-disagrees/{clause}"),
                            format!("CPython zipfile: {detail}"),
                            json!({"kind": "archive-bytes", "archive": if bytes.len() < 4096 { crate::util::hex(&bytes) } else { format!("<{} bytes>", bytes.len()) }}),
                            (20 << 32) + idx as u64,
                        );
                    }
                    ctx.stats.class(&format!("cpython-agreed-archives"));
                }
            }
            if thorough {
                let mut tested = 0u64;
                for (k, has_zstd, pw) in &keys {
                    if *has_zstd {
                        continue;
                    }
                    match batch.unzip_test(k, pw.as_deref()) {
                        Err(e) => {
                            ctx.machinery(e);
                            break;
                        }
                        Ok((code, out)) => {
                            tested += 1;
                            // 0 = ok, 1 = warnings only
                            if code > 1 {
                                let first = out.lines().next().unwrap_or("").to_string();
                                ctx.stats.viol(
                                    format!("infozip-rejects/exit-{code}"),
                                    format!("unzip -t exits {code}: {first}"),
                                    json!({"kind": "archive-key", "key": k}),
                                    (21 << 32) + tested,
                                );
                            }
                        }
                    }
                }
                ctx.stats.count("infozip_archives_tested", tested);
            }
        }
    }
    crate::diag!("  [C02] foreign judges done at {:.1}s", ctx.elapsed());

    ctx.stats.states = ctx.stats.distinct.len() as u64;
    ctx.stats.transitions = ctx.stats.evals;
    ctx.stats.traces = ctx.stats.evals;
    ctx.finish()
}

//! C06 — sanitised entry paths can never escape the extraction root.
//! E-PROD over names: every component sequence of length 0..=N over {"a", ".", "..", ""} with
//! every separator choice, leading/trailing separator and NUL position. The names reach the
//! real accessors through archives built by the independent builder.

use crate::reference::paths;
use crate::reference::zipbuild::{build, ESpec, Spec};
use crate::util::{fnv, guard, panic_site, par_for, show, Stats};
use crate::Args;
use serde_json::{json, Value};
use std::io::Cursor;
use std::path::{Component, Path, PathBuf};

const COMPS: [&str; 4] = ["a", ".", "..", ""];
const SEPS: [&str; 2] = ["/", "\\"];
const EDGE: [&str; 3] = ["", "/", "\\"];

/// Number of names for component-sequence length `n` (before NUL variants).
fn shapes(n: usize) -> u64 {
    let c = 4u64.pow(n as u32);
    let s = if n >= 2 { 2u64.pow(n as u32 - 1) } else { 1 };
    c * s * 9
}

/// Build the `i`-th shape of length n.
fn shape(n: usize, mut i: u64) -> String {
    let trail = EDGE[(i % 3) as usize];
    i /= 3;
    let lead = EDGE[(i % 3) as usize];
    i /= 3;
    let mut s = String::from(lead);
    let nsep = if n >= 2 { n - 1 } else { 0 };
    let mut sepbits = i % (1 << nsep);
    i /= 1 << nsep;
    for k in 0..n {
        s.push_str(COMPS[(i % 4) as usize]);
        i /= 4;
        if k + 1 < n {
            s.push_str(SEPS[(sepbits & 1) as usize]);
            sepbits >>= 1;
        }
    }
    s.push_str(trail);
    s
}

/// expected mangled_name without treating '\\' as a separator (also acceptable per the statement)
fn mangled_no_backslash(name: &str) -> String {
    let s = match name.find('\0') {
        Some(i) => &name[..i],
        None => name,
    };
    let comps: Vec<&str> = s.split('/').filter(|c| !matches!(*c, "" | "." | "..")).collect();
    comps.join("/")
}

fn only_normal(p: &Path) -> bool {
    p.components().all(|c| matches!(c, Component::Normal(_)))
}

fn check_one(name: &str, enclosed: Option<&Path>, mangled: &PathBuf, route: &str, st: &mut Stats, order: u64) {
    let case = || json!({"kind": "name", "name": crate::util::hex(name.as_bytes()), "route": route});
    let safe = paths::safe(name);
    match enclosed {
        Some(p) => {
            st.count("enclosed_some", 1);
            if !safe {
                st.viol(
                    format!("enclosed_name/accepts-unsafe/{route}"),
                    format!("enclosed_name() returned {:?} for the unsafe name {}", p, show(name.as_bytes())),
                    case(),
                    order,
                );
            } else if p != Path::new(name) {
                st.viol(format!("enclosed_name/altered/{route}"), format!("enclosed_name() of {} is {:?}", show(name.as_bytes()), p), case(), order);
            } else {
                // joining onto a base stays inside it (lexically)
                for base in ["/x", "rel/y"] {
                    let joined = Path::new(base).join(p);
                    let js = joined.to_string_lossy().into_owned();
                    let norm = paths::join_normalised("", &js);
                    let want: Vec<String> = base.split('/').filter(|c| !c.is_empty()).map(|c| c.to_string()).collect();
                    let inside = norm.as_ref().map_or(false, |v| v.len() >= want.len() && v[..want.len()] == want[..]);
                    if !inside || !paths::stays_inside(base, name) {
                        st.viol(format!("enclosed_name/escapes-base/{route}"), format!("{base:?}.join(enclosed_name({})) leaves {base:?}", show(name.as_bytes())), case(), order);
                    }
                }
            }
        }
        None => {
            st.count("enclosed_none", 1);
            if safe {
                st.viol(format!("enclosed_name/rejects-safe/{route}"), format!("enclosed_name() is None for the safe name {}", show(name.as_bytes())), case(), order);
            }
        }
    }
    // compare component-wise (a trailing separator in the returned PathBuf is not a difference)
    let m: String = mangled.components().map(|c| c.as_os_str().to_string_lossy().into_owned()).collect::<Vec<_>>().join("/");
    let want1 = paths::mangled(name);
    let want2 = mangled_no_backslash(name);
    if mangled.is_absolute() || !only_normal(mangled) {
        st.viol(format!("mangled_name/not-plain-relative/{route}"), format!("mangled_name() of {} is {:?}", show(name.as_bytes()), mangled), case(), order);
    } else if m != want1 && m != want2 {
        st.viol(
            format!("mangled_name/wrong-components/{route}"),
            format!("mangled_name() of {} is {:?}, expected {:?}", show(name.as_bytes()), m, want1),
            case(),
            order,
        );
    }
}

/// Push a batch of names through the real accessors (seekable route, and streaming route).
fn check_batch(names: &[String], st: &mut Stats, order0: u64, stream_too: bool) {
    let spec = Spec {
        entries: names.iter().map(|n| ESpec { name: n.as_bytes().to_vec(), utf8: true, ..Default::default() }).collect(),
        ..Default::default()
    };
    let (bytes, _) = build(&spec);
    let mut ar = match guard(|| zip::ZipArchive::new(Cursor::new(&bytes[..]))) {
        Ok(Ok(a)) => a,
        Ok(Err(e)) => {
            st.viol("machinery/archive-rejected", format!("ZipArchive::new rejects the name batch: {e}"), json!({"kind":"batch"}), order0);
            return;
        }
        Err(p) => {
            st.viol(format!("panic/open/{}", panic_site(&p)), p, json!({"kind":"batch"}), order0);
            return;
        }
    };
    if ar.len() != names.len() {
        st.viol("machinery/count", format!("{} entries for {} names", ar.len(), names.len()), json!({"kind":"batch"}), order0);
        return;
    }
    for (i, n) in names.iter().enumerate() {
        st.evals += 1;
        st.distinct_hash(fnv(n.as_bytes()));
        let r = guard(|| {
            let f = ar.by_index_raw(i).map_err(|e| e.to_string())?;
            if f.name() != n {
                return Err(format!("name() = {:?}", f.name()));
            }
            Ok((f.enclosed_name().map(|p| p.to_path_buf()), f.mangled_name()))
        });
        match r {
            Err(p) => st.viol(
                format!("panic/accessor/{}", panic_site(&p)),
                format!("accessor panicked for {}: {p}", show(n.as_bytes())),
                json!({"kind":"name","name":crate::util::hex(n.as_bytes()),"route":"seekable"}),
                order0 + i as u64,
            ),
            Ok(Err(e)) => st.viol("machinery/by_index_raw", e, json!({"kind":"name","name":crate::util::hex(n.as_bytes())}), order0 + i as u64),
            Ok(Ok((enc, man))) => {
                st.class(if enc.is_some() { "enclosed:Some" } else { "enclosed:None" });
                check_one(n, enc.as_deref(), &man, "seekable", st, order0 + i as u64);
            }
        }
    }
    // the verdict about a name is a function of the name: asked again - on the same handle, on a later opening of the entry,
    // on a clone of the archive - the accessors answer as they did the first time (judged again in full)
    {
        let mut cl = ar.clone();
        for (pass, which) in [(1, "seekable/second-opening"), (2, "seekable/clone")] {
            let a = if pass == 1 { &mut ar } else { &mut cl };
            for (i, n) in names.iter().enumerate() {
                st.evals += 1;
                let r = guard(|| {
                    let f = a.by_index_raw(i).map_err(|e| e.to_string())?;
                    let e1 = f.enclosed_name().map(|p| p.to_path_buf());
                    let m1 = f.mangled_name();
                    let e2 = f.enclosed_name().map(|p| p.to_path_buf());
                    let m2 = f.mangled_name();
                    Ok::<_, String>((e1, m1, e2, m2))
                });
                match r {
                    Ok(Ok((e1, m1, e2, m2))) => {
                        if e1 != e2 || m1 != m2 {
                            st.viol(
                                format!("accessor/answer-changes-when-asked-again/{which}"),
                                format!("{}: enclosed_name() {:?} then {:?}, mangled_name() {:?} then {:?} on one handle", show(n.as_bytes()), e1, e2, m1, m2),
                                json!({"kind":"name","name":crate::util::hex(n.as_bytes()),"route":"seekable"}),
                                order0 + i as u64,
                            );
                        }
                        check_one(n, e2.as_deref(), &m2, which, st, order0 + i as u64);
                    }
                    Ok(Err(e)) => st.viol("machinery/by_index_raw", e, json!({"kind":"name","name":crate::util::hex(n.as_bytes())}), order0 + i as u64),
                    Err(p) => st.viol(
                        format!("panic/accessor/{}", panic_site(&p)),
                        format!("accessor panicked for {}: {p}", show(n.as_bytes())),
                        json!({"kind":"name","name":crate::util::hex(n.as_bytes()),"route":"seekable"}),
                        order0 + i as u64,
                    ),
                }
            }
        }
    }
    if stream_too {
        // the same names through the streaming reader's ZipFile
        let mut cur = Cursor::new(&bytes[..]);
        let mut i = 0usize;
        loop {
            let r = guard(|| match zip::read::read_zipfile_from_stream(&mut cur) {
                Ok(Some(f)) => Ok(Some((f.name().to_string(), f.enclosed_name().map(|p| p.to_path_buf()), f.mangled_name()))),
                Ok(None) => Ok(None),
                Err(e) => Err(e.to_string()),
            });
            match r {
                Ok(Ok(Some((name, enc, man)))) => {
                    if i < names.len() && name == names[i] {
                        st.count("stream_route_names", 1);
                        check_one(&name, enc.as_deref(), &man, "stream", st, order0 + i as u64);
                    }
                    i += 1;
                }
                _ => break,
            }
        }
        // and through the visitor's metadata objects (delivered only if the visitor reaches the central directory)
        struct V<'a> {
            names: &'a [String],
            i: usize,
            got: Vec<(String, Option<PathBuf>, PathBuf)>,
        }
        impl<'a> zip::unstable::stream::ZipStreamVisitor for V<'a> {
            fn visit_file(&mut self, _f: &mut zip::read::ZipFile<'_>) -> zip::result::ZipResult<()> {
                Ok(())
            }
            fn visit_additional_metadata(&mut self, m: &zip::unstable::stream::ZipStreamFileMetadata) -> zip::result::ZipResult<()> {
                if self.i < self.names.len() {
                    self.got.push((m.name().to_string(), m.enclosed_name().map(|p| p.to_path_buf()), m.mangled_name()));
                }
                self.i += 1;
                Ok(())
            }
        }
        let mut v = V { names, i: 0, got: vec![] };
        let _ = guard(|| zip::unstable::stream::ZipStreamReader::new(Cursor::new(&bytes[..])).visit(&mut v));
        for (k, (name, enc, man)) in v.got.iter().enumerate() {
            if k < names.len() && *name == names[k] {
                st.count("visitor_route_names", 1);
                check_one(name, enc.as_deref(), man, "visitor-metadata", st, order0 + k as u64);
            }
        }
    }
}

fn extra_names() -> Vec<String> {
    let mut v: Vec<String> = vec![];
    // all names of <= 3 characters over {a . / \ NUL ü}
    let al = ['a', '.', '/', '\\', '\0', 'ü'];
    for n in 1..=3u32 {
        for i in 0..6u64.pow(n) {
            let mut s = String::new();
            let mut j = i;
            for _ in 0..n {
                s.push(al[(j % 6) as usize]);
                j /= 6;
            }
            v.push(s);
        }
    }
    // all names of <= 4 characters over {. / \ and three characters that are ordinary in a component but that something on the
    // way might take for ignorable: a control character, a space, DEL} (a component is dots only if every character is a dot)
    let al2 = ['.', '/', '\\', '\u{1}', ' ', '\u{7f}'];
    for n in 2..=4u32 {
        for i in 0..6u64.pow(n) {
            let mut s = String::new();
            let mut j = i;
            for _ in 0..n {
                s.push(al2[(j % 6) as usize]);
                j /= 6;
            }
            if s.contains(|c| c == '\u{1}' || c == ' ' || c == '\u{7f}') {
                v.push(s);
            }
        }
    }
    for s in ["\u{1}../\u{1}../x", "..\u{1}/..\u{1}/x", " ../ ../x", "../\u{7f}..", "a/\t../\t../\t../x", "\u{200b}../x", "\r../x", "..\n/x"] {
        v.push(s.to_string());
    }
    for s in ["C:", "C:\\a", "C:/a", "c:..\\x", "//server/share", "\\\\server\\share\\x", "\\\\?\\C:\\x", "a/b/../../..", "a/./b/../..", "..a", "a..", "...", ".../x", "a/.../..", "~", "~/x"] {
        v.push(s.to_string());
    }
    // long names (bounded by the 16-bit length field)
    v.push("../".repeat(21845));
    v.push(format!("{}..", "a/".repeat(30000)));
    v.push(format!("{}{}", "a/".repeat(1000), "../".repeat(1001)));
    v.push(format!("{}{}", "a/".repeat(1000), "../".repeat(1000)));
    v.push("a/".repeat(32767));
    v.push("ü".repeat(32767));
    v
}

fn replay(case: &Value, st: &mut Stats) {
    let name = String::from_utf8_lossy(&crate::util::unhex(case["name"].as_str().unwrap_or(""))).into_owned();
    check_batch(&[name], st, 0, true);
}

pub fn run(args: &Args) -> i32 {
    let mut ctx = crate::new_ctx("C06", args);
    if let Some(path) = &args.replay {
        return crate::props::replay_file(ctx, path, replay);
    }
    let maxn = if args.tier.thorough() { 7 } else { 6 };
    ctx.rule = format!(
        "E-PROD: every name made of 0..={maxn} components over {{a, ., .., empty}} x every choice of '/' or '\\\\' at each junction x leading and trailing \
         separator in {{none, '/', '\\\\'}} x a NUL inserted at every position or nowhere; plus every name of <= 3 characters over {{a . / \\\\ NUL ü}}, \
         drive/UNC-flavoured names and six 64-KiB names. Each name is put into a UTF-8-flagged archive by the independent builder and read through \
         ZipFile::enclosed_name/mangled_name (seekable route: all names; streaming ZipFile and visitor metadata: one batch per shard). \
         distinct_nontrivial = distinct name strings (hash set)."
    );
    ctx.assume("Unix path semantics (only '/' separates); the lexical model reference::paths is written from the statement");
    ctx.uncovered("random Unicode/control-character names up to 64 KiB (sampling); Windows path semantics");
    ctx.bound("max_components", json!(maxn));

    // enumerate shapes; batch = one (n, block of 4096 shapes) with all NUL variants
    let mut blocks: Vec<(usize, u64, u64)> = vec![];
    for n in 0..=maxn {
        let total = shapes(n);
        let mut lo = 0;
        while lo < total {
            let hi = (lo + 2048).min(total);
            blocks.push((n, lo, hi));
            lo = hi;
        }
    }
    ctx.bound("shapes", json!((0..=maxn).map(|n| shapes(n)).collect::<Vec<_>>()));
    let s = par_for(blocks.len() as u64, 1, |b, st| {
        let (n, lo, hi) = blocks[b as usize];
        let mut names = vec![];
        for i in lo..hi {
            let s = shape(n, i);
            // NUL nowhere, or at every char boundary
            names.push(s.clone());
            for pos in 0..=s.len() {
                if s.is_char_boundary(pos) {
                    let mut t = s.clone();
                    t.insert(pos, '\0');
                    names.push(t);
                }
            }
        }
        check_batch(&names, st, (n as u64) << 40 | lo << 8, b % 16 == 0);
        if b == 3 {
            st.sample(json!({"names": names.iter().take(6).collect::<Vec<_>>()}));
        }
    });
    ctx.stats.merge(s);
    let ex = extra_names();
    let mut st = Stats::default();
    check_batch(&ex, &mut st, 1 << 60, true);
    st.sample(json!({"extra_names_first": ex.iter().take(5).collect::<Vec<_>>()}));
    ctx.stats.merge(st);

    ctx.stats.states = ctx.stats.distinct.len() as u64;
    ctx.stats.transitions = ctx.stats.evals;
    ctx.stats.traces = ctx.stats.evals;
    ctx.finish()
}

//! C05 — untrusted bytes never crash, hang or exhaust memory in the readers.
//! E-PROD over untrusted inputs derived from small seed archives: every prefix, every byte value
//! at every structural offset, every header field set to every value of its boundary set
//! (deviation bound 1 on all seeds, bound 2 on the four smallest). Cases run in single-threaded
//! worker subprocesses so that aborts and hangs are attributable and survivable.

use crate::reference::zipbuild::{build, extra_block, Dd, ESpec, Enc, Spec};
use crate::reference::zipparse::{self, Opts};
use crate::sio::alloc;
use crate::util::{guard, hex, panic_site, Stats};
use crate::zipapi::*;
use crate::Args;
use serde_json::{json, Value};
use std::io::{Cursor, Read};
use std::os::unix::fs::FileExt;
use std::sync::{Arc, Mutex};
use std::time::{Duration, Instant};

const PW: &[u8] = b"pw";

// ---------------------------------------------------------------------------------------------
// seeds and fields

#[derive(Clone)]
pub struct Field {
    pub pos: usize,
    pub width: u8,
    /// 'p' plain, 'm' method, 'f' flags
    pub kind: char,
    pub name: String,
}

#[derive(Clone)]
pub struct Seed {
    pub label: String,
    pub bytes: Vec<u8>,
    pub fields: Vec<Field>,
    /// structural byte positions (everything except payload interiors)
    pub structural: Vec<usize>,
    /// a large seed (maximal variable-length fields): field deviations only, no per-byte families
    pub light: bool,
}

fn tlv_fields(base: usize, extra: &[u8], what: &str, out: &mut Vec<Field>) {
    let mut p = 0usize;
    let mut k = 0;
    while p + 4 <= extra.len() {
        let id = u16::from_le_bytes([extra[p], extra[p + 1]]);
        let ln = u16::from_le_bytes([extra[p + 2], extra[p + 3]]) as usize;
        out.push(Field { pos: base + p, width: 2, kind: 'p', name: format!("{what}.extra[{k}].id") });
        out.push(Field { pos: base + p + 2, width: 2, kind: 'p', name: format!("{what}.extra[{k}].len") });
        let body = base + p + 4;
        if id == 1 {
            let mut q = 0;
            while q + 8 <= ln {
                out.push(Field { pos: body + q, width: 8, kind: 'p', name: format!("{what}.zip64[{}]", q / 8) });
                q += 8;
            }
        } else if id == 0x9901 && ln == 7 {
            out.push(Field { pos: body, width: 2, kind: 'p', name: format!("{what}.aes.version") });
            out.push(Field { pos: body + 2, width: 2, kind: 'p', name: format!("{what}.aes.vendor") });
            out.push(Field { pos: body + 4, width: 1, kind: 'p', name: format!("{what}.aes.strength") });
            out.push(Field { pos: body + 5, width: 2, kind: 'm', name: format!("{what}.aes.method") });
        }
        p += 4 + ln;
        k += 1;
    }
}

fn make_seed(label: &str, bytes: Vec<u8>) -> Seed {
    let p = zipparse::parse(&bytes, &Opts::lenient()).unwrap_or_else(|e| panic!("seed {label} does not parse: {e}"));
    let mut f: Vec<Field> = vec![];
    let e = p.eocd_pos as usize;
    for (off, w, n) in [(4, 2, "disk"), (6, 2, "cd_disk"), (8, 2, "n_this"), (10, 2, "n_total"), (12, 4, "cd_size"), (16, 4, "cd_off"), (20, 2, "comment_len")] {
        f.push(Field { pos: e + off, width: w, kind: 'p', name: format!("eocd.{n}") });
    }
    if let Some(l) = p.zip64_locator_pos {
        let l = l as usize;
        for (off, w, n) in [(4, 4, "disk"), (8, 8, "offset"), (16, 4, "ndisks")] {
            f.push(Field { pos: l + off, width: w, kind: 'p', name: format!("zip64loc.{n}") });
        }
    }
    if let Some(z) = p.zip64_eocd_pos {
        let z = z as usize;
        for (off, w, n) in [(4, 8, "size"), (12, 2, "made"), (14, 2, "need"), (16, 4, "disk"), (20, 4, "cd_disk"), (24, 8, "n_this"), (32, 8, "n_total"), (40, 8, "cd_size"), (48, 8, "cd_off")] {
            f.push(Field { pos: z + off, width: w, kind: 'p', name: format!("zip64eocd.{n}") });
        }
    }
    let mut structural: Vec<bool> = vec![true; bytes.len()];
    for (i, en) in p.entries.iter().enumerate() {
        let c = en.central_pos as usize;
        for (off, w, k, n) in [
            (4, 2, 'p', "made_by"),
            (6, 2, 'p', "need"),
            (8, 2, 'f', "flags"),
            (10, 2, 'm', "method"),
            (12, 2, 'p', "time"),
            (14, 2, 'p', "date"),
            (16, 4, 'p', "crc"),
            (20, 4, 'p', "csize"),
            (24, 4, 'p', "usize"),
            (28, 2, 'p', "name_len"),
            (30, 2, 'p', "extra_len"),
            (32, 2, 'p', "comment_len"),
            (34, 2, 'p', "disk"),
            (36, 2, 'p', "int_attr"),
            (38, 4, 'p', "ext_attr"),
            (42, 4, 'p', "offset"),
        ] {
            f.push(Field { pos: c + off, width: w, kind: k, name: format!("central[{i}].{n}") });
        }
        tlv_fields(c + 46 + en.name.len(), &en.extra, &format!("central[{i}]"), &mut f);
        let l = en.local_pos as usize;
        for (off, w, k, n) in [
            (4, 2, 'p', "need"),
            (6, 2, 'f', "flags"),
            (8, 2, 'm', "method"),
            (10, 2, 'p', "time"),
            (12, 2, 'p', "date"),
            (14, 4, 'p', "crc"),
            (18, 4, 'p', "csize"),
            (22, 4, 'p', "usize"),
            (26, 2, 'p', "name_len"),
            (28, 2, 'p', "extra_len"),
        ] {
            f.push(Field { pos: l + off, width: w, kind: k, name: format!("local[{i}].{n}") });
        }
        tlv_fields(l + 30 + en.l_name.len(), &en.l_extra, &format!("local[{i}]"), &mut f);
        // payload interior: keep the first 16 and last 12 bytes structural (crypto headers, MAC, stream headers/trailers)
        let (d0, d1) = (en.data_pos as usize, (en.data_pos + en.csize) as usize);
        if d1 - d0 > 28 {
            for s in structural.iter_mut().take(d1 - 12).skip(d0 + 16) {
                *s = false;
            }
        }
    }
    let structural = structural.iter().enumerate().filter(|(_, s)| **s).map(|(i, _)| i).collect();
    Seed { label: label.to_string(), bytes, fields: f, structural, light: false }
}

pub fn seeds(seed: u64) -> Vec<Seed> {
    let mut r = crate::util::Rng(seed ^ 0x05);
    let a = r.bytes(20);
    let b = b"lie to me lie to me lie to me, once more".to_vec();
    let mut out = vec![];
    // writer-made stored + deflate
    let calls = vec![
        Call::StartFile { name: "a".into(), opts: FOpts::m(0) },
        Call::Write(a.clone()),
        Call::StartFile { name: "b/c".into(), opts: FOpts::m(8) },
        Call::Write(b.clone()),
        Call::Finish,
    ];
    out.push(make_seed("writer-stored+deflated", exec(&calls, &[]).1));
    // single stored entry: the smallest
    let spec = Spec { entries: vec![ESpec { name: b"a".to_vec(), content: a[..8].to_vec(), ..Default::default() }], ..Default::default() };
    out.push(make_seed("builder-tiny", build(&spec).0));
    // AES: AE-2 256 stored + AE-1 128 deflated
    let spec = Spec {
        entries: vec![
            ESpec { name: b"s".to_vec(), method: 0, content: a.clone(), enc: Enc::Aes { version: 2, strength: 3, pw: PW.to_vec(), salt_seed: 5 }, ..Default::default() },
            ESpec { name: b"d".to_vec(), method: 8, content: b.clone(), enc: Enc::Aes { version: 1, strength: 1, pw: PW.to_vec(), salt_seed: 6 }, ..Default::default() },
        ],
        ..Default::default()
    };
    out.push(make_seed("builder-aes", build(&spec).0));
    // forced ZIP64 everywhere
    let spec = Spec {
        entries: vec![ESpec { name: b"z".to_vec(), method: 8, content: b.clone(), zip64_central: 7, zip64_local: true, ..Default::default() }],
        force_zip64_eocd: true,
        ..Default::default()
    };
    out.push(make_seed("builder-zip64", build(&spec).0));
    // no entries, ZIP64 end records only
    let spec = Spec { force_zip64_eocd: true, comment: b"c".to_vec(), ..Default::default() };
    out.push(make_seed("builder-empty-zip64", build(&spec).0));
    // ZipCrypto written by the crate
    let enc = FOpts { password: Some(PW.to_vec()), ..FOpts::m(8) };
    let calls = vec![Call::StartFile { name: "e".into(), opts: enc }, Call::Write(b.clone()), Call::Finish];
    out.push(make_seed("writer-zipcrypto", exec(&calls, &[]).1));
    // data descriptor + zstd + bzip2
    let spec = Spec {
        entries: vec![
            ESpec { name: b"dd".to_vec(), method: 8, content: b.clone(), dd: Dd::Sig32, ..Default::default() },
            ESpec { name: b"zs".to_vec(), method: 93, content: b.clone(), ..Default::default() },
            ESpec { name: b"bz".to_vec(), method: 12, content: a.clone(), ..Default::default() },
        ],
        ..Default::default()
    };
    out.push(make_seed("builder-dd-zstd-bzip2", build(&spec).0));
    // prefixed, comments, extras, info-zip style zipcrypto with data descriptor
    let spec = Spec {
        prefix: vec![0x5a; 40],
        entries: vec![
            ESpec { name: "ü".as_bytes().to_vec(), utf8: true, method: 0, content: a.clone(), comment: b"fc".to_vec(), central_extra: extra_block(0x7777, b"ce"), local_extra: extra_block(0x6666, b"l"), ..Default::default() },
            ESpec { name: b"iz".to_vec(), method: 0, content: a.clone(), dd: Dd::Sig32, enc: Enc::ZipCrypto { pw: PW.to_vec(), infozip: true }, ..Default::default() },
        ],
        comment: b"archive comment".to_vec(),
        ..Default::default()
    };
    out.push(make_seed("builder-prefix-comments-infozip", build(&spec).0));
    // maximal variable-length fields (the 16-bit length fields at their limit), with ZIP64 blocks next to them: field
    // deviations only
    let spec = Spec {
        entries: vec![ESpec { name: b"m".to_vec(), method: 0, content: a.clone(), zip64_central: 7, central_extra: extra_block(0x7777, &vec![7u8; 65535 - 28 - 4]), ..Default::default() }],
        ..Default::default()
    };
    out.push(Seed { light: true, ..make_seed("builder-max-central-extra+zip64", build(&spec).0) });
    let spec = Spec {
        entries: vec![
            ESpec { name: vec![b'n'; 65535], method: 8, content: b.clone(), comment: vec![b'c'; 65535], local_extra: extra_block(0x6666, &vec![6u8; 65535 - 4 - 20]), zip64_local: true, zip64_central: 1, ..Default::default() },
            ESpec { name: b"after".to_vec(), method: 0, content: a.clone(), ..Default::default() },
        ],
        comment: vec![b'k'; 65535],
        ..Default::default()
    };
    out.push(Seed { light: true, ..make_seed("builder-max-name-comment-local-extra", build(&spec).0) });
    out
}

fn values(f: &Field, len: usize, old: u64) -> Vec<u64> {
    let mask: u64 = if f.width >= 8 { u64::MAX } else { (1u64 << (8 * f.width as u32)) - 1 };
    // lies next to the truth: the recorded value a little off (off-by-one sizes and offsets, one crypto header more or less)
    let near: Vec<u64> = [1i64, -1, 2, -2, 4, -4, 12, -12, 30, 46].iter().map(|d| (old as i64).wrapping_add(*d) as u64 & mask).collect();
    let mut v: Vec<u64> = match f.width {
        1 => vec![0, 1, 2, 3, 4, 0xff],
        2 => vec![0, 1, 2, 0x7fff, 0x8000, 0xfffe, 0xffff],
        4 => vec![0, 1, len as u64 - 1, len as u64, len as u64 + 1, 0x7fff_ffff, 0x8000_0000, 0xffff_fffe, 0xffff_ffff],
        _ => vec![0, 1, len as u64 - 1, len as u64, len as u64 + 1, 0x7fff_ffff, 0x8000_0000, 0xffff_fffe, 0xffff_ffff, 1 << 32, (1 << 32) + 1, 1 << 63, u64::MAX - 1, u64::MAX],
    };
    if f.width >= 2 {
        v.extend(near);
    }
    if f.kind == 'm' {
        v.extend([8, 12, 93, 99]);
    }
    if f.kind == 'f' {
        v.extend((0..16).map(|b| 1u64 << b));
        v.push(0x0809);
    }
    v.sort();
    v.dedup();
    v.retain(|x| *x != old);
    v
}

fn get(bytes: &[u8], f: &Field) -> u64 {
    let mut le = [0u8; 8];
    le[..f.width as usize].copy_from_slice(&bytes[f.pos..f.pos + f.width as usize]);
    u64::from_le_bytes(le)
}

fn put(bytes: &mut [u8], f: &Field, v: u64) {
    let le = v.to_le_bytes();
    bytes[f.pos..f.pos + f.width as usize].copy_from_slice(&le[..f.width as usize]);
}

// ---------------------------------------------------------------------------------------------
// the case space

#[derive(Clone)]
enum Family {
    Prefix { seed: usize },
    Suffix { seed: usize },
    Subst { seed: usize },
    /// one byte removed at every position (everything behind it shifts by one)
    Delete { seed: usize },
    /// one byte (0x00, 0xff or 'P') inserted at every position
    Insert { seed: usize },
    Single { seed: usize, fv: Arc<Vec<(usize, u64)>> },
    Pair { seed: usize, fv: Arc<Vec<(usize, u64)>> },
}

pub struct Space {
    seeds: Vec<Seed>,
    fams: Vec<(Family, u64, u64)>, // family, first id, count
    pub total: u64,
}

impl Space {
    pub fn new(seed: u64, thorough: bool) -> Space {
        let seeds = seeds(seed);
        let mut fams = vec![];
        let mut next = 0u64;
        let mut push = |f: Family, n: u64, next: &mut u64| {
            fams.push((f, *next, n));
            *next += n;
        };
        // smallest four for pairs
        let mut by_len: Vec<usize> = (0..seeds.len()).filter(|&i| !seeds[i].light).collect();
        by_len.sort_by_key(|&i| seeds[i].bytes.len());
        let pair_seeds: Vec<usize> = by_len[..if thorough { by_len.len() } else { 2 }].to_vec();
        for (si, s) in seeds.iter().enumerate() {
            if !s.light {
                push(Family::Prefix { seed: si }, s.bytes.len() as u64, &mut next);
                push(Family::Suffix { seed: si }, s.bytes.len() as u64, &mut next);
                // quick: structural bytes of the first entry's headers + end records only
                push(Family::Subst { seed: si }, s.structural.len() as u64 * 255, &mut next);
                push(Family::Delete { seed: si }, s.bytes.len() as u64, &mut next);
                push(Family::Insert { seed: si }, (s.bytes.len() as u64 + 1) * 3, &mut next);
            }
            let mut fv = vec![];
            for (fi, f) in s.fields.iter().enumerate() {
                for v in values(f, s.bytes.len(), get(&s.bytes, f)) {
                    fv.push((fi, v));
                }
            }
            let fv = Arc::new(fv);
            push(Family::Single { seed: si, fv: fv.clone() }, fv.len() as u64, &mut next);
            if pair_seeds.contains(&si) {
                let n = fv.len() as u64;
                push(Family::Pair { seed: si, fv }, n * (n - 1) / 2, &mut next);
            }
        }
        Space { seeds, fams, total: next }
    }

    /// (input bytes, description, family name)
    pub fn case(&self, id: u64) -> (Vec<u8>, String, &'static str) {
        let (fam, first, _) = self.fams.iter().find(|(_, first, n)| id >= *first && id < first + n).expect("case id out of range");
        let k = id - first;
        match fam {
            Family::Prefix { seed } => {
                let s = &self.seeds[*seed];
                (s.bytes[..k as usize].to_vec(), format!("{}: first {k} of {} bytes", s.label, s.bytes.len()), "prefix")
            }
            Family::Suffix { seed } => {
                let s = &self.seeds[*seed];
                (s.bytes[k as usize..].to_vec(), format!("{}: without its first {k} bytes", s.label), "suffix")
            }
            Family::Subst { seed } => {
                let s = &self.seeds[*seed];
                let pos = s.structural[(k / 255) as usize];
                let old = s.bytes[pos];
                let mut v = (k % 255) as u8;
                if v >= old {
                    v += 1;
                }
                let mut b = s.bytes.clone();
                b[pos] = v;
                (b, format!("{}: byte {pos} {old:#04x} -> {v:#04x}", s.label), "byte-substitution")
            }
            Family::Delete { seed } => {
                let s = &self.seeds[*seed];
                let mut b = s.bytes.clone();
                b.remove(k as usize);
                (b, format!("{}: byte {k} removed", s.label), "byte-deletion")
            }
            Family::Insert { seed } => {
                let s = &self.seeds[*seed];
                let mut b = s.bytes.clone();
                let v = [0u8, 0xff, b'P'][(k % 3) as usize];
                b.insert((k / 3) as usize, v);
                (b, format!("{}: byte {v:#04x} inserted at {}", s.label, k / 3), "byte-insertion")
            }
            Family::Single { seed, fv } => {
                let s = &self.seeds[*seed];
                let (fi, v) = fv[k as usize];
                let mut b = s.bytes.clone();
                put(&mut b, &s.fields[fi], v);
                (b, format!("{}: {} = {v:#x}", s.label, s.fields[fi].name), "field-deviation")
            }
            Family::Pair { seed, fv } => {
                let s = &self.seeds[*seed];
                // k -> (i, j) with i < j
                let n = fv.len() as u64;
                let mut i = 0u64;
                let mut rem = k;
                // rows have n-1-i elements
                // solve by scanning (n is a few hundred)
                while rem >= n - 1 - i {
                    rem -= n - 1 - i;
                    i += 1;
                }
                let j = i + 1 + rem;
                let (f1, v1) = fv[i as usize];
                let (f2, v2) = fv[j as usize];
                let mut b = s.bytes.clone();
                put(&mut b, &s.fields[f1], v1);
                put(&mut b, &s.fields[f2], v2);
                (b, format!("{}: {} = {v1:#x} and {} = {v2:#x}", s.label, s.fields[f1].name, s.fields[f2].name), "field-deviation-pair")
            }
        }
    }
}

// ---------------------------------------------------------------------------------------------
// the API script

fn budget_read<R: Read>(r: &mut R) -> (&'static str, usize) {
    let mut buf = [0u8; 1024];
    let mut total = 0usize;
    let mut calls = 0u32;
    loop {
        calls += 1;
        if calls > 40_000 {
            return ("read-budget-exhausted", total);
        }
        match r.read(&mut buf) {
            Ok(0) => return ("eof", total),
            Ok(n) => {
                total += n;
                if total > 16 << 20 {
                    return ("output-cap", total);
                }
            }
            Err(_) => {
                // callers retry: a reader that has reported an error must keep returning (anything) on later calls
                for _ in 0..2 {
                    let _ = r.read(&mut buf);
                }
                let _ = r.read(&mut []);
                return ("err", total);
            }
        }
    }
}

struct Visitor {
    files: u32,
    metas: u32,
}
impl zip::unstable::stream::ZipStreamVisitor for Visitor {
    fn visit_file(&mut self, f: &mut zip::read::ZipFile<'_>) -> zip::result::ZipResult<()> {
        self.files += 1;
        let _ = (f.name().len(), f.enclosed_name().is_some(), f.mangled_name(), f.size(), f.unix_mode(), f.is_dir());
        if self.files % 2 == 0 {
            let _ = budget_read(f);
        }
        Ok(())
    }
    fn visit_additional_metadata(&mut self, m: &zip::unstable::stream::ZipStreamFileMetadata) -> zip::result::ZipResult<()> {
        self.metas += 1;
        let _ = (m.name().len(), m.name_raw().len(), m.enclosed_name().is_some(), m.mangled_name(), m.comment().len(), m.unix_mode(), m.is_dir(), m.is_file(), m.data_start());
        Ok(())
    }
}

/// Run the whole API script on one input. Every API call is individually guarded.
pub fn drive(bytes: &[u8], st: &mut Stats, case: &dyn Fn() -> Value, order: u64, fam: &str) {
    st.evals += 1;
    let mut panics: Vec<(String, String)> = vec![];
    let mut note = |api: &str, p: String| panics.push((api.to_string(), p));
    let len = bytes.len();
    // 1. seekable open, memory-bounded
    let m0 = alloc::mark();
    let opened = guard(|| zip::ZipArchive::new(Cursor::new(bytes)));
    let peak = alloc::peak_since(m0);
    st.max("max_open_peak_bytes", peak as u64);
    if len > 0 {
        st.max("max_open_peak_per_input_byte_x100", (peak as u64 * 100) / len as u64);
    }
    if peak > 1024 * len + (1 << 20) {
        st.viol(
            format!("memory/open/{fam}"),
            format!("ZipArchive::new on {len} input bytes had {peak} bytes live at peak (bound 1024*len + 1 MiB)"),
            case(),
            order,
        );
    }
    match opened {
        Err(p) => note("ZipArchive::new", p),
        Ok(Err(_)) => st.class("open:err"),
        Ok(Ok(mut ar)) => {
            st.class("open:ok");
            if let Err(p) = guard(|| (ar.len(), ar.is_empty(), ar.comment().len(), ar.offset(), ar.file_names().map(|n| n.len()).sum::<usize>())) {
                note("archive-accessors", p);
            }
            // (guarded as well: a panic here would take the worker down and be reported as an abort instead of a panic)
            let names: Vec<String> = guard(|| ar.file_names().take(16).map(|s| s.to_string()).collect()).unwrap_or_default();
            for i in 0..ar.len().min(16) {
                for mode in 0..4 {
                    let api = ["by_index", "by_index_raw", "by_index_decrypt", "by_index_decrypt(wrong password)"][mode];
                    let r = guard(|| {
                        let f = match mode {
                            0 => ar.by_index(i).ok(),
                            1 => ar.by_index_raw(i).ok(),
                            2 => ar.by_index_decrypt(i, PW).ok().and_then(|r| r.ok()),
                            _ => ar.by_index_decrypt(i, b"not the password").ok().and_then(|r| r.ok()),
                        };
                        match f {
                            None => "not-opened",
                            Some(mut f) => {
                                let _ = (
                                    f.name().len(),
                                    f.name_raw().len(),
                                    f.comment().len(),
                                    f.compression(),
                                    f.compressed_size(),
                                    f.size(),
                                    f.crc32(),
                                    f.last_modified().year(),
                                    f.last_modified().to_time().is_ok(),
                                    f.unix_mode(),
                                    f.is_dir(),
                                    f.is_file(),
                                    f.extra_data().len(),
                                    f.data_start(),
                                    f.header_start(),
                                    f.central_header_start(),
                                    f.version_made_by(),
                                    f.enclosed_name().is_some(),
                                    f.mangled_name(),
                                );
                                budget_read(&mut f).0
                            }
                        }
                    });
                    match r {
                        Err(p) => note(api, p),
                        Ok("read-budget-exhausted") => {
                            st.viol(format!("unbounded-read/{api}/{fam}"), format!("{api}({i}): 40 000 reads of 1 KiB without reaching EOF or an error"), case(), order)
                        }
                        Ok(c) => st.class(&format!("{api}:{c}")),
                    }
                }
            }
            // the same entries through the other ways std's Read offers to consume a reader (a ZipFile may override any of
            // them): read_to_end, read_to_string, read_exact, bytes(), io::copy. No panic, no abort, and the memory a
            // consumer ends up holding is bounded by what was actually delivered, not by what a header claims.
            for i in 0..ar.len().min(8) {
                for mode in 0..3 {
                    for how in 0..5 {
                        let api = ["by_index", "by_index_raw", "by_index_decrypt"][mode];
                        let hname = ["read_to_end", "read_to_string", "read_exact", "bytes", "io::copy"][how];
                        let m1 = alloc::mark();
                        let r = guard(|| {
                            let f = match mode {
                                0 => ar.by_index(i).ok(),
                                1 => ar.by_index_raw(i).ok(),
                                _ => ar.by_index_decrypt(i, PW).ok().and_then(|r| r.ok()),
                            };
                            let mut f = match f {
                                None => return None,
                                Some(f) => f,
                            };
                            Some(match how {
                                0 => {
                                    let mut v = Vec::new();
                                    let r = f.read_to_end(&mut v);
                                    (r.is_ok(), v.len(), v.capacity())
                                }
                                1 => {
                                    let mut v = String::new();
                                    let r = f.read_to_string(&mut v);
                                    (r.is_ok(), v.len(), v.capacity())
                                }
                                2 => {
                                    let n = (f.size().min(4096) as usize) + 1;
                                    let mut v = vec![0u8; n];
                                    let r = f.read_exact(&mut v);
                                    (r.is_ok(), n, n)
                                }
                                3 => {
                                    let n = f.by_ref().bytes().take(4096).filter(|b| b.is_ok()).count();
                                    (true, n, 0)
                                }
                                _ => {
                                    let r = std::io::copy(&mut f.by_ref().take(16 << 20), &mut std::io::sink());
                                    (r.is_ok(), r.unwrap_or(0) as usize, 0)
                                }
                            })
                        });
                        let peak = alloc::peak_since(m1);
                        match r {
                            Err(p) => note(&format!("{api}+{hname}"), p),
                            Ok(None) => {}
                            Ok(Some((ok, delivered, _cap))) => {
                                st.class(&format!("{hname}:{}", if ok { "ok" } else { "err" }));
                                st.max("max_consume_peak_bytes", peak as u64);
                                if peak > (64 << 20) + 8 * delivered + 1024 * len {
                                    st.viol(
                                        format!("memory/{hname}/{fam}"),
                                        format!("{api}({i}) + {hname}: {delivered} bytes delivered from a {len}-byte input, {peak} bytes live at peak"),
                                        case(),
                                        order,
                                    );
                                }
                            }
                        }
                    }
                }
            }
            // small and uneven caller buffers (a decryptor or decoder that keeps a partly used block must cope with any
            // split): 7-byte reads; 10 bytes then 1 KiB reads
            for i in 0..ar.len().min(8) {
                for mode in 0..2 {
                    let r = guard(|| {
                        {
                        let f = if mode == 0 { ar.by_index(i).ok() } else { ar.by_index_decrypt(i, PW).ok().and_then(|r| r.ok()) };
                        if let Some(mut f) = f {
                            let mut small = [0u8; 7];
                            let mut n = 0;
                            while let Ok(k) = f.read(&mut small) {
                                n += k;
                                if k == 0 || n > 1 << 16 {
                                    break;
                                }
                            }
                        }
                        }
                        let f = if mode == 0 { ar.by_index(i).ok() } else { ar.by_index_decrypt(i, PW).ok().and_then(|r| r.ok()) };
                        if let Some(mut f) = f {
                            let mut ten = [0u8; 10];
                            let _ = f.read(&mut ten);
                            let _ = budget_read(&mut f);
                        }
                    });
                    if let Err(p) = r {
                        note(if mode == 0 { "by_index+uneven-reads" } else { "by_index_decrypt+uneven-reads" }, p);
                    }
                }
            }
            for n in &names {
                if let Err(p) = guard(|| ar.by_name(n).map(|mut f| budget_read(&mut f).0).ok()) {
                    note("by_name", p);
                }
                if let Err(p) = guard(|| ar.by_name_decrypt(n, PW).ok().and_then(|r| r.ok()).map(|mut f| budget_read(&mut f).0)) {
                    note("by_name_decrypt", p);
                }
            }
            if let Err(p) = guard(|| ar.by_name("\u{1}absent").is_err()) {
                note("by_name", p);
            }
        }
    }
    // 2. streaming loop with partial consumption
    {
        let mut cur = Cursor::new(bytes);
        let mut n = 0;
        loop {
            let r = guard(|| match zip::read::read_zipfile_from_stream(&mut cur) {
                Ok(Some(mut f)) => {
                    let _ = (f.name().len(), f.size(), f.compressed_size(), f.crc32(), f.unix_mode(), f.enclosed_name().is_some());
                    let mut b = [0u8; 10];
                    let _ = f.read(&mut b);
                    1
                }
                Ok(None) => 0,
                Err(_) => -1,
            });
            match r {
                Err(p) => {
                    note("read_zipfile_from_stream", p);
                    break;
                }
                Ok(1) => {
                    n += 1;
                    if n > 64 {
                        break;
                    }
                }
                Ok(_) => break,
            }
        }
        st.class(&format!("stream-entries:{}", n.min(3)));
    }
    // 2b. streaming, full reads
    {
        let mut cur = Cursor::new(bytes);
        let mut n = 0;
        loop {
            let r = guard(|| match zip::read::read_zipfile_from_stream(&mut cur) {
                Ok(Some(mut f)) => {
                    if budget_read(&mut f).0 == "read-budget-exhausted" {
                        2
                    } else {
                        1
                    }
                }
                Ok(None) => 0,
                Err(_) => -1,
            });
            match r {
                Err(p) => {
                    note("read_zipfile_from_stream+read", p);
                    break;
                }
                Ok(2) => {
                    st.viol(format!("unbounded-read/stream/{fam}"), "streaming entry: 40 000 reads without EOF".to_string(), case(), order);
                    break;
                }
                Ok(1) => {
                    n += 1;
                    if n > 64 {
                        break;
                    }
                }
                Ok(_) => break,
            }
        }
    }
    // 3. visitor
    {
        let mut v = Visitor { files: 0, metas: 0 };
        if let Err(p) = guard(|| zip::unstable::stream::ZipStreamReader::new(Cursor::new(bytes)).visit(&mut v).is_ok()) {
            note("ZipStreamReader::visit", p);
        }
    }
    // 4. append
    {
        let m0 = alloc::mark();
        let sink = SharedBuf::new(bytes.to_vec());
        let r = guard(|| zip::ZipWriter::new_append(sink.clone()));
        let peak = alloc::peak_since(m0);
        if peak > 1024 * len + (1 << 20) + len {
            st.viol(format!("memory/new_append/{fam}"), format!("new_append on {len} input bytes had {peak} bytes live at peak"), case(), order);
        }
        match r {
            Err(p) => note("ZipWriter::new_append", p),
            Ok(Err(_)) => st.class("append:err"),
            Ok(Ok(zw)) => {
                st.class("append:ok");
                let mut w = W::from_writer(zw);
                if let Res::Panic(p) = w.call(&Call::Finish, &[]) {
                    note("new_append+finish", p);
                }
            }
        }
    }
    for (api, p) in panics {
        st.class("PANIC");
        st.viol(format!("panic/{api}/{}", panic_site(&p)), format!("{api} panicked: {p}"), case(), order);
    }
}

// ---------------------------------------------------------------------------------------------
// worker / parent

fn worker(args: &Args, spec: &str) -> i32 {
    // inputs are at most a few hundred bytes (70 KiB for the long-field seeds): nothing legitimate asks for 1 GiB at once
    alloc::set_single_request_cap(1 << 30);
    let thorough = args.tier.thorough();
    let space = Space::new(args.seed, thorough);
    let progress = std::env::var("ZIPMC_PROGRESS").ok().and_then(|p| std::fs::OpenOptions::new().write(true).create(true).open(p).ok());
    let mark = |id: u64| {
        if let Some(f) = &progress {
            let _ = f.write_at(&id.to_le_bytes(), 0);
        }
    };
    let parts: Vec<&str> = spec.split(':').collect();
    let mut st = Stats::default();
    let run_one = |id: u64, st: &mut Stats| {
        let (bytes, desc, fam) = space.case(id);
        let b2 = bytes.clone();
        let d2 = desc.clone();
        drive(&bytes, st, &move || json!({"id": id, "what": d2, "input": hex(&b2)}), id, fam);
        st.class(&format!("family:{fam}"));
    };
    match parts[0] {
        "one" => {
            let id: u64 = parts[1].parse().unwrap_or(0);
            mark(id);
            run_one(id, &mut st);
        }
        _ => {
            let k: u64 = parts[1].parse().unwrap_or(0);
            let n: u64 = parts[2].parse().unwrap_or(1);
            let start: u64 = parts[3].parse().unwrap_or(0);
            let mut id = start;
            // first id >= start in this shard
            if id % n != k {
                id += (k + n - id % n) % n;
            }
            let mut since = 0;
            while id < space.total {
                mark(id);
                run_one(id, &mut st);
                since += 1;
                if since >= 20_000 {
                    println!("RESULT {}", st.to_json());
                    st = Stats::default();
                    since = 0;
                }
                id += n;
            }
            mark(u64::MAX);
        }
    }
    println!("RESULT {}", st.to_json());
    0
}

fn spawn_worker(args: &Args, spec: &str, progress: &std::path::Path) -> std::io::Result<std::process::Child> {
    let exe = std::env::current_exe()?;
    std::process::Command::new(exe)
        .arg("C05")
        .arg("--tier")
        .arg(args.tier.name())
        .arg("--worker")
        .arg(spec)
        .env("VERIF_SEED", args.seed.to_string())
        .env("ZIPMC_PROGRESS", progress)
        .stdout(std::process::Stdio::piped())
        .stderr(std::process::Stdio::null())
        .spawn()
}

fn read_progress(p: &std::path::Path) -> Option<u64> {
    let b = std::fs::read(p).ok()?;
    if b.len() < 8 {
        return None;
    }
    let mut a = [0u8; 8];
    a.copy_from_slice(&b[..8]);
    Some(u64::from_le_bytes(a))
}

/// Run one worker to completion with a hang watchdog. Returns (merged stats, Some((id, reason)) if it died).
fn supervise(args: &Args, spec: &str, progress: &std::path::Path, case_timeout: Duration) -> (Stats, Option<(u64, String)>) {
    let _ = std::fs::write(progress, 0u64.to_le_bytes());
    let mut child = match spawn_worker(args, spec, progress) {
        Ok(c) => c,
        Err(e) => return (Stats::default(), Some((u64::MAX, format!("spawn failed: {e}")))),
    };
    let stdout = child.stdout.take().unwrap();
    let child = Arc::new(Mutex::new(child));
    let done = Arc::new(std::sync::atomic::AtomicBool::new(false));
    let killed = Arc::new(Mutex::new(None::<u64>));
    let wd = {
        let child = child.clone();
        let done = done.clone();
        let killed = killed.clone();
        let progress = progress.to_path_buf();
        std::thread::spawn(move || {
            let mut last = (None::<u64>, Instant::now());
            while !done.load(std::sync::atomic::Ordering::Relaxed) {
                std::thread::sleep(Duration::from_millis(100));
                if ABANDON.load(std::sync::atomic::Ordering::Relaxed) {
                    let _ = child.lock().unwrap().kill();
                    break;
                }
                let cur = read_progress(&progress);
                if cur != last.0 {
                    last = (cur, Instant::now());
                } else if last.1.elapsed() > case_timeout && cur != Some(u64::MAX) {
                    *killed.lock().unwrap() = cur;
                    let _ = child.lock().unwrap().kill();
                    break;
                }
            }
        })
    };
    let mut merged = Stats::default();
    {
        use std::io::BufRead;
        let rd = std::io::BufReader::new(stdout);
        for line in rd.lines().map_while(|l| l.ok()) {
            if let Some(j) = line.strip_prefix("RESULT ") {
                if let Ok(v) = serde_json::from_str::<Value>(j) {
                    merged.merge(Stats::from_json(&v));
                }
            }
        }
    }
    let status = loop {
        match child.lock().unwrap().try_wait() {
            Ok(Some(s)) => break Some(s),
            Ok(None) => {}
            Err(_) => break None,
        }
        std::thread::sleep(Duration::from_millis(20));
    };
    done.store(true, std::sync::atomic::Ordering::Relaxed);
    let _ = wd.join();
    if ABANDON.load(std::sync::atomic::Ordering::Relaxed) {
        return (merged, None);
    }
    let hung = *killed.lock().unwrap();
    if let Some(id) = hung {
        return (merged, Some((id, format!("no progress for {:?} (killed)", case_timeout))));
    }
    match status {
        Some(s) if s.success() => (merged, None),
        Some(s) => {
            let id = read_progress(progress).unwrap_or(u64::MAX);
            use std::os::unix::process::ExitStatusExt;
            let why = match s.signal() {
                Some(sig) => format!("killed by signal {sig}"),
                None => format!("exit status {:?}", s.code()),
            };
            (merged, Some((id, why)))
        }
        None => (merged, Some((u64::MAX, "wait failed".into()))),
    }
}

/// set once enough hangs have been confirmed: each costs 4 x the case budget, a change that makes thousands of inputs hang
/// would otherwise keep the sweep going for hours although the verdict is already in
static ABANDON: std::sync::atomic::AtomicBool = std::sync::atomic::AtomicBool::new(false);
static CONFIRMED_HANGS: std::sync::atomic::AtomicU64 = std::sync::atomic::AtomicU64::new(0);

fn replay(case: &Value, st: &mut Stats) {
    let bytes = crate::util::unhex(case["input"].as_str().unwrap_or(""));
    let c = case.clone();
    drive(&bytes, st, &move || c.clone(), 0, "replay");
}

pub fn run(args: &Args) -> i32 {
    if let Some(w) = &args.worker {
        return worker(args, w);
    }
    let mut ctx = crate::new_ctx("C05", args);
    if let Some(path) = &args.replay {
        // a replay that aborts the process is itself the demonstration; run it in a child to report cleanly
        return crate::props::replay_file(ctx, path, replay);
    }
    let thorough = args.tier.thorough();
    let space = Space::new(args.seed, thorough);
    ctx.rule = format!(
        "E-PROD over untrusted inputs derived from {} seed archives of {}..{} bytes (writer-made stored+deflate and ZipCrypto; builder-made tiny, AES AE-1/AE-2, forced ZIP64, data descriptor+zstd+bzip2, \
         prefixed+comments+Info-ZIP ZipCrypto): (a) every prefix and every suffix; (b) all 255 other values of every structural byte (everything but payload interiors); (c) every header field (EOCD, ZIP64 locator and end record, \
         central and local headers, extra TLV ids/lengths, ZIP64 block values, AES block fields) set to every value of its boundary set — all single deviations on every seed and ALL PAIRS (bound 2) on the {} smallest seeds. \
         Each input runs the full API script (open, accessors, by_index / by_index_raw / by_index_decrypt / by_name(_decrypt) with budgeted reads, streaming loop with partial and full consumption, visitor, new_append+finish) \
         in a single-threaded worker subprocess with per-call catch_unwind, a 8 GiB single-allocation refusal and a hang watchdog. distinct_nontrivial = number of distinct inputs (ids of the enumeration; never repeated).",
        space.seeds.len(),
        space.seeds.iter().map(|s| s.bytes.len()).min().unwrap_or(0),
        space.seeds.iter().map(|s| s.bytes.len()).max().unwrap_or(0),
        if thorough { 4 } else { 2 }
    );
    ctx.assume("memory bound for opening: peak live heap <= 1024 x input length + 1 MiB (the crate's own guard allows one record per input byte; measured ratio is reported in counters)");
    ctx.uncovered("random multi-site mutations (sampling); inputs larger than the seeds; more than two simultaneous field deviations");
    ctx.bound("cases", json!(space.total));
    ctx.bound("families", json!(space.fams.iter().map(|(f, _, n)| format!("{}:{n}", match f { Family::Prefix { seed } => format!("prefix/{}", space.seeds[*seed].label), Family::Suffix { seed } => format!("suffix/{}", space.seeds[*seed].label), Family::Subst { seed } => format!("subst/{}", space.seeds[*seed].label), Family::Delete { seed } => format!("delete/{}", space.seeds[*seed].label), Family::Insert { seed } => format!("insert/{}", space.seeds[*seed].label), Family::Single { seed, .. } => format!("single/{}", space.seeds[*seed].label), Family::Pair { seed, .. } => format!("pair/{}", space.seeds[*seed].label) })).collect::<Vec<_>>()));

    let scratch = crate::foreign::scratch_root().join(format!("zipmc-{}-c05", std::process::id()));
    let _ = std::fs::create_dir_all(&scratch);
    let n = crate::util::n_threads() as u64;
    let case_timeout = Duration::from_secs(if thorough { 60 } else { 10 });
    let results: Mutex<Vec<(Stats, Vec<(u64, String)>)>> = Mutex::new(vec![]);
    std::thread::scope(|sc| {
        for k in 0..n {
            let scratch = &scratch;
            let results = &results;
            let space = &space;
            sc.spawn(move || {
                let progress = scratch.join(format!("progress-{k}"));
                let mut start = 0u64;
                let mut all = Stats::default();
                let mut deaths = vec![];
                loop {
                    if ABANDON.load(std::sync::atomic::Ordering::Relaxed) {
                        break;
                    }
                    let (st, died) = supervise(args, &format!("shard:{k}:{n}:{start}"), &progress, case_timeout);
                    all.merge(st);
                    match died {
                        None => break,
                        Some((id, why)) => {
                            if id == u64::MAX || id >= space.total {
                                deaths.push((u64::MAX, why));
                                break;
                            }
                            // confirm alone: always for a suspected hang (a loaded machine can starve a worker; the solo run gets
                            // three times the budget), and for the first few aborts per shard (later aborts of the same kind are
                            // taken as they come)
                            let hang = why.contains("no progress");
                            if hang || deaths.len() < 4 {
                                let t = if hang { case_timeout * 3 } else { case_timeout };
                                let (st1, died1) = supervise(args, &format!("one:{id}"), &scratch.join(format!("progress-one-{k}")), t);
                                match died1 {
                                    Some((_, why1)) => {
                                        deaths.push((id, format!("{why}; alone: {why1}")));
                                        if hang && CONFIRMED_HANGS.fetch_add(1, std::sync::atomic::Ordering::Relaxed) + 1 >= 3 {
                                            ABANDON.store(true, std::sync::atomic::Ordering::Relaxed);
                                        }
                                    }
                                    None if hang => {
                                        // the case completes when run alone: the watchdog fired because the machine was busy
                                        all.merge(st1);
                                        all.count("watchdog_false_positives", 1);
                                    }
                                    None => {
                                        // not reproducible alone: machinery problem, keep its results and go on
                                        all.merge(st1);
                                        deaths.push((u64::MAX - 1, format!("worker died at case {id} ({why}) but the case alone completes")));
                                    }
                                }
                            } else {
                                deaths.push((id, why));
                            }
                            start = id + 1;
                            if ABANDON.load(std::sync::atomic::Ordering::Relaxed) {
                                break;
                            }
                            if deaths.len() > 20_000 {
                                deaths.push((u64::MAX, "more than 20 000 worker deaths in one shard".into()));
                                break;
                            }
                        }
                    }
                }
                results.lock().unwrap().push((all, deaths));
            });
        }
    });
    let _ = std::fs::remove_dir_all(&scratch);
    for (st, deaths) in results.into_inner().unwrap() {
        ctx.stats.merge(st);
        for (id, why) in deaths {
            if id == u64::MAX {
                ctx.machinery(format!("worker failure: {why}"));
            } else if id == u64::MAX - 1 {
                ctx.machinery(why);
            } else {
                let (bytes, desc, fam) = space.case(id);
                let kind = if why.contains("no progress") { "hang" } else { "abort" };
                ctx.stats.count("worker_deaths", 1);
                ctx.stats.viol(
                    format!("{kind}/{fam}/{}", why.split(';').next().unwrap_or("").replace(char::is_numeric, "#")),
                    format!("process {kind} on input '{desc}': {why}"),
                    json!({"id": id, "what": desc, "input": hex(&bytes)}),
                    id,
                );
            }
        }
    }
    let died = ctx.stats.extra.get("worker_deaths").copied().unwrap_or(0);
    if ctx.stats.evals != space.total {
        ctx.cap(format!("{} of {} cases completed, {died} cases killed their worker (each is skipped after being attributed)", ctx.stats.evals, space.total));
        if ABANDON.load(std::sync::atomic::Ordering::Relaxed) {
            ctx.cap("sweep abandoned after three confirmed hangs (each confirmed alone with three times the budget): the violations below stand, the remaining cases were not run".to_string());
        } else if ctx.stats.evals + died + 16 < space.total {
            ctx.machinery(format!("only {} of {} cases were executed and only {died} worker deaths explain the gap", ctx.stats.evals, space.total));
        }
    }
    ctx.stats.sample(json!({"id": 5, "what": space.case(5).1}));
    ctx.stats.sample(json!({"id": space.total - 1, "what": space.case(space.total - 1).1}));
    // cases that killed or hung their worker were executed too (their verdict is the death itself)
    let executed = ctx.stats.evals + died;
    ctx.distinct_counted = executed;
    ctx.stats.states = executed;
    ctx.stats.transitions = executed;
    ctx.stats.traces = executed;
    ctx.finish()
}

//! C10 — the streaming reader agrees with the seekable reader.
//! E-SEQ over consumption histories: for every archive of a program space, every per-entry
//! consumption pattern from {0, 1, 7, all-1, all, past-EOF} (6^n for n <= 3 entries) under
//! full, 1-byte and single-cut underlying streams; the seekable reader is the oracle.

use crate::props::c01;
use crate::reference::zipbuild::{build, Dd, ESpec, Enc, Spec};
use crate::sio::inst::{plan, Inst, InstRead};
use crate::util::{guard, panic_site, par_for, Stats};
use crate::zipapi::*;
use crate::Args;
use serde_json::{json, Value};
use std::io::Read;

#[derive(Clone)]
pub struct Arch {
    pub label: String,
    pub bytes: Vec<u8>,
    /// what the seekable reader says (the oracle)
    pub seek: ObsArchive,
    /// index of the first entry the stream cannot support, if any
    pub unsupported_at: Option<usize>,
    pub program: Value,
}

const PATTERNS: [&str; 6] = ["none", "1", "7", "all-1", "all", "past-eof"];

fn want_len(pat: usize, len: usize) -> usize {
    match pat {
        0 => 0,
        1 => 1.min(len),
        2 => 7.min(len),
        3 => len.saturating_sub(1),
        _ => len,
    }
}

#[derive(Debug, Clone, PartialEq)]
struct SEntry {
    name: String,
    size: u64,
    csize: u64,
    method: u16,
    date: u16,
    time: u16,
    consumed: Result<Vec<u8>, String>,
    eof_seen: bool,
}

/// Drive the stream with per-entry patterns. Returns entries seen, and how the loop ended:
/// Ok(true) = Ok(None) at the central directory; Ok(false) = Err at some entry.
fn stream_run<R: Read>(mut r: R, pats: &[usize], sizes: &[usize]) -> Result<(Vec<SEntry>, Result<(), String>), String> {
    guard(|| {
        let mut out = vec![];
        let mut i = 0;
        loop {
            match zip::read::read_zipfile_from_stream(&mut r) {
                Ok(Some(mut f)) => {
                    let pat = pats.get(i).copied().unwrap_or(4);
                    let len = sizes.get(i).copied().unwrap_or(0);
                    let want = want_len(pat, len);
                    let mut got = vec![0u8; want];
                    let mut filled = 0;
                    let mut res: Result<(), String> = Ok(());
                    while filled < want {
                        match f.read(&mut got[filled..]) {
                            Ok(0) => break,
                            Ok(n) => filled += n,
                            Err(e) => {
                                res = Err(e.to_string());
                                break;
                            }
                        }
                    }
                    got.truncate(filled);
                    let mut eof = false;
                    if pat == 5 && res.is_ok() {
                        let mut b = [0u8; 9];
                        match f.read(&mut b) {
                            Ok(0) => {
                                eof = matches!(f.read(&mut b), Ok(0));
                            }
                            Ok(n) => res = Err(format!("{n} bytes beyond the declared size")),
                            Err(e) => res = Err(e.to_string()),
                        }
                    }
                    out.push(SEntry {
                        name: f.name().to_string(),
                        size: f.size(),
                        csize: f.compressed_size(),
                        method: method_id(f.compression()),
                        date: f.last_modified().datepart(),
                        time: f.last_modified().timepart(),
                        consumed: res.map(|_| got),
                        eof_seen: eof,
                    });
                    i += 1;
                    if i > 64 {
                        return (out, Err("runaway".into()));
                    }
                }
                Ok(None) => return (out, Ok(())),
                Err(e) => return (out, Err(e.to_string())),
            }
        }
    })
}

#[derive(Default)]
struct Vis {
    files: Vec<(String, Result<Vec<u8>, String>)>,
    metas: Vec<(String, Option<u32>, String)>,
    order_violation: bool,
}
impl zip::unstable::stream::ZipStreamVisitor for Vis {
    fn visit_file(&mut self, f: &mut zip::read::ZipFile<'_>) -> zip::result::ZipResult<()> {
        if !self.metas.is_empty() {
            self.order_violation = true;
        }
        let mut v = vec![];
        // read every second file only: the visitor must cope with unread entries
        let r = if self.files.len() % 2 == 0 { f.read_to_end(&mut v).map(|_| v).map_err(|e| e.to_string()) } else { Ok(vec![]) };
        self.files.push((f.name().to_string(), r));
        Ok(())
    }
    fn visit_additional_metadata(&mut self, m: &zip::unstable::stream::ZipStreamFileMetadata) -> zip::result::ZipResult<()> {
        self.metas.push((m.name().to_string(), m.unix_mode(), m.comment().to_string()));
        Ok(())
    }
}

fn check(a: &Arch, pats: &[usize], mode: u8, cut: u64, st: &mut Stats, order: u64) {
    st.evals += 1;
    let sizes: Vec<usize> = a.seek.entries.iter().map(|e| e.size as usize).collect();
    let p = plan();
    p.borrow_mut().record_kinds = false;
    match mode {
        1 => p.borrow_mut().chunk = Some(1),
        2 => p.borrow_mut().cuts = vec![cut],
        _ => {}
    }
    let modes = ["full-reads", "1-byte-reads", "one-cut"];
    let case = || json!({"archive": a.label, "program": a.program, "bytes": crate::util::hex(&a.bytes), "patterns": pats.iter().map(|p| PATTERNS[*p]).collect::<Vec<_>>(), "pats": pats, "stream": modes[mode as usize], "mode": mode, "cut": cut});
    let r = stream_run(InstRead { inner: Inst::new(a.bytes.clone(), p) }, pats, &sizes);
    let (seen, end) = match r {
        Err(pn) => {
            st.class("PANIC");
            st.viol(format!("stream/panic/{}", panic_site(&pn)), format!("{}: streaming reader panicked with patterns {:?}: {pn}", a.label, pats), case(), order);
            return;
        }
        Ok(x) => x,
    };
    let n_ok = a.unsupported_at.unwrap_or(a.seek.entries.len());
    let mut bad = |what: &str, detail: String, st: &mut Stats| {
        st.viol(format!("stream/{what}/{}", modes[mode as usize]), format!("{} [{}; patterns {:?}]: {detail}", a.label, modes[mode as usize], pats.iter().map(|p| PATTERNS[*p]).collect::<Vec<_>>()), case(), order);
    };
    // entries before the first unsupported one must agree with the seekable reader
    for i in 0..n_ok {
        let want = &a.seek.entries[i];
        let Some(got) = seen.get(i) else {
            bad("missing-entry", format!("entry {i} ({}) was not delivered; the loop ended with {:?} after {} entries", want.name, end, seen.len()), st);
            st.class("MISMATCH");
            return;
        };
        if got.name != want.name || got.size != want.size || got.csize != want.csize || got.method != want.method || (got.date, got.time) != (want.date, want.time) {
            bad(
                "metadata",
                format!("entry {i}: stream says ({:?}, size {}, csize {}, method {}, {:#x}/{:#x}), seekable says ({:?}, {}, {}, {}, {:#x}/{:#x})", got.name, got.size, got.csize, got.method, got.date, got.time, want.name, want.size, want.csize, want.method, want.date, want.time),
                st,
            );
        }
        let full = want.content.clone().unwrap_or_default();
        let wl = want_len(pats.get(i).copied().unwrap_or(4), full.len());
        match &got.consumed {
            Ok(c) if c[..] == full[..wl] => {}
            Ok(c) => bad("content", format!("entry {i}: the {} consumed bytes differ from the first {wl} bytes the seekable reader returns", c.len()), st),
            Err(e) => bad("read-error", format!("entry {i}: read failed: {e}"), st),
        }
        if pats.get(i) == Some(&5) && got.consumed.is_ok() && !got.eof_seen {
            bad("eof", format!("entry {i}: reads past the end do not return 0"), st);
        }
    }
    match a.unsupported_at {
        None => {
            if seen.len() > n_ok {
                bad("extra-entry", format!("{} entries delivered, the archive has {n_ok}", seen.len()), st);
            }
            if end.is_err() {
                bad("no-clean-end", format!("after the last entry the stream reader returned {end:?} instead of Ok(None)"), st);
            }
            st.class("agrees");
        }
        Some(u) => {
            // the unsupported entry must produce an error, not data
            if seen.len() > u {
                bad("unsupported-delivered", format!("entry {u} (encrypted / data descriptor) was delivered by the streaming reader"), st);
            } else if end.is_ok() {
                bad("unsupported-skipped", format!("entry {u} (encrypted / data descriptor) was silently skipped"), st);
            }
            st.class("unsupported-entry-refused");
        }
    }
}

/// mode: 0 full reads, 1 one-byte reads, 2 three-byte reads, 3 one cut at `cut`
fn check_visitor(a: &Arch, mode: u8, cut: u64, st: &mut Stats, order: u64) {
    if a.unsupported_at.is_some() {
        return;
    }
    st.evals += 1;
    let case = || json!({"archive": a.label, "program": a.program, "bytes": crate::util::hex(&a.bytes), "visitor": true, "mode": mode, "cut": cut});
    let mut v = Vis::default();
    let p = plan();
    p.borrow_mut().record_kinds = false;
    match mode {
        1 => p.borrow_mut().chunk = Some(1),
        2 => p.borrow_mut().chunk = Some(3),
        3 => p.borrow_mut().cuts = vec![cut],
        _ => {}
    }
    let rd = InstRead { inner: Inst::new(a.bytes.clone(), p) };
    let r = guard(|| zip::unstable::stream::ZipStreamReader::new(rd).visit(&mut v));
    match r {
        Err(pn) => {
            st.viol(format!("visitor/panic/{}", panic_site(&pn)), format!("{}: visit panicked: {pn}", a.label), case(), order);
            return;
        }
        Ok(Err(e)) => {
            st.viol("visitor/error", format!("{}: visit returned Err({e}) on a streamable archive", a.label), case(), order);
            return;
        }
        Ok(Ok(())) => {}
    }
    let want: Vec<&Obs> = a.seek.entries.iter().collect();
    let names: Vec<&str> = v.files.iter().map(|f| f.0.as_str()).collect();
    if names != want.iter().map(|e| e.name.as_str()).collect::<Vec<_>>() {
        st.viol("visitor/files", format!("{}: visit_file saw {:?}", a.label, names), case(), order);
    }
    for (i, (n, c)) in v.files.iter().enumerate() {
        if i % 2 == 0 && i < want.len() && c.as_ref().ok() != want[i].content.as_ref().ok() {
            st.viol("visitor/content", format!("{}: content of {n:?} differs from the seekable reader's ({:?})", a.label, c.as_ref().map(|c| c.len())), case(), order);
        }
    }
    if v.order_violation {
        st.viol("visitor/order", format!("{}: metadata delivered before all files", a.label), case(), order);
    }
    let metas: Vec<(&str, Option<u32>, &str)> = v.metas.iter().map(|m| (m.0.as_str(), m.1, m.2.as_str())).collect();
    let wm: Vec<(&str, Option<u32>, &str)> = want.iter().map(|e| (e.name.as_str(), e.mode, e.comment.as_str())).collect();
    if metas != wm {
        st.class("VISITOR-METADATA-MISMATCH");
        st.viol(
            "visitor/additional-metadata",
            format!("{}: visit_additional_metadata was called {} times {:?}; the central directory has {} entries {:?}", a.label, metas.len(), metas.iter().take(3).collect::<Vec<_>>(), wm.len(), wm.iter().take(3).collect::<Vec<_>>()),
            case(),
            order,
        );
    } else {
        st.class("visitor-agrees");
    }
}

pub fn archives(seed: u64, thorough: bool) -> Vec<Arch> {
    let al = c01::entry_alphabet(seed, if thorough { 40 } else { 24 });
    let mut v = vec![];
    let mut add = |label: String, bytes: Vec<u8>, unsupported_at: Option<usize>, program: Value, pw: Option<&[u8]>| {
        if let Ok(seek) = observe(&bytes, pw, 1 << 22) {
            v.push(Arch { label, bytes, seek, unsupported_at, program });
        }
    };
    let n = al.len();
    for d in 1..=3usize {
        // full product at depth 1 and 2; depth 3 over the first 9 (thorough 12)
        let m = if d == 3 { (if thorough { 12 } else { 9 }).min(n) } else { n };
        for j in 0..m.pow(d as u32) {
            let es: Vec<c01::E> = (0..d).rev().map(|k| al[(j / m.pow(k as u32)) % m].clone()).collect();
            // 70 001-byte contents at depth 3 make 216 patterns expensive: keep them to depth <= 2
            if d == 3 && es.iter().any(|e| e.content.len() > 10_000) {
                continue;
            }
            let p = c01::Program { entries: es, comment: Some(b"c10".to_vec()), comment_last: false };
            let (res, bytes) = exec(&p.calls(true), &[]);
            if res.iter().all(|r| r.is_ok()) {
                add(format!("writer:{d}:{j}"), bytes, None, p.to_json(), None);
            }
        }
    }
    // everything else the crate's writer emits without encryption: extra data (shared, local/central split, with
    // large_file), aligned entries (with and without large_file), raw copies - singly and in ordered pairs
    {
        let comps: Vec<(&'static str, Vec<Call>)> = crate::props::c02::composites(seed).into_iter().filter(|c| !c.0.starts_with("zipcrypto")).collect();
        let src = crate::props::c02::sources(seed);
        let nc = comps.len();
        for j in 0..nc + nc * nc {
            let picks: Vec<usize> = if j < nc { vec![j] } else { vec![(j - nc) / nc, (j - nc) % nc] };
            let mut calls = vec![];
            for &k in &picks {
                calls.extend(comps[k].1.iter().cloned());
            }
            calls.push(Call::Finish);
            let (res, bytes) = exec(&calls, &src);
            if res.iter().all(|r| r.is_ok()) {
                let label = picks.iter().map(|k| comps[*k].0).collect::<Vec<_>>().join("+");
                add(format!("writer-composite:{label}"), bytes, None, json!({"calls": calls_json(&calls)}), None);
            }
        }
    }
    // local headers whose variable-length parts are long: name length + extra length at and beyond 65536 while each fits
    // its own 16-bit field (long name + extra data / alignment padding / the 20-byte ZIP64 block of large_file)
    {
        let rec = |id: u16, n: usize| {
            let mut v = id.to_le_bytes().to_vec();
            v.extend_from_slice(&(n as u16).to_le_bytes());
            v.extend(std::iter::repeat(0x42u8).take(n));
            Call::Write(v)
        };
        let nm = |n: usize| -> String { (0..n).map(|i| (b'a' + (i % 23) as u8) as char).collect() };
        let tail = vec![Call::StartFile { name: "after".into(), opts: FOpts::m(8) }, Call::Write(b"the entry after the long header, the entry after".to_vec()), Call::Finish];
        let body = Call::Write(b"payload of the long-header entry".to_vec());
        let progs: Vec<(&str, Vec<Call>)> = vec![
            ("name40000+extra30000", vec![Call::StartExtra { name: nm(40000), opts: FOpts::m(0) }, rec(0xbeef, 30000), Call::EndExtra, body.clone()]),
            ("name40000+central-only-extra30000", vec![Call::StartExtra { name: nm(40000), opts: FOpts::m(8) }, Call::EndLocalStartCentral, rec(0xbeef, 30000), Call::EndExtra, body.clone()]),
            ("name65000+aligned4096", vec![Call::StartAligned { name: nm(65000), opts: FOpts::m(0), align: 4096 }, body.clone()]),
            ("name65520+large_file", vec![Call::StartFile { name: nm(65520), opts: FOpts { large: true, ..FOpts::m(8) } }, body.clone()]),
            ("name65535+large_file", vec![Call::StartFile { name: nm(65535), opts: FOpts { large: true, ..FOpts::m(0) } }, body.clone()]),
            ("name65535", vec![Call::StartFile { name: nm(65535), opts: FOpts::m(0) }, body.clone()]),
            ("name1+extra65531", vec![Call::StartExtra { name: "x".into(), opts: FOpts::m(0) }, rec(0xcafe, 65531), Call::EndExtra, body.clone()]),
            ("name32768+extra32767", vec![Call::StartExtra { name: nm(32768), opts: FOpts::m(0) }, rec(0xcafe, 32763), Call::EndExtra, body.clone()]),
            ("name32768+extra32768", vec![Call::StartExtra { name: nm(32768), opts: FOpts::m(0) }, rec(0xcafe, 32764), Call::EndExtra, body.clone()]),
        ];
        for (label, mut calls) in progs {
            calls.extend(tail.iter().cloned());
            let (res, bytes) = exec(&calls, &[]);
            if res.iter().all(|r| r.is_ok()) {
                add(format!("writer-long-header:{label}"), bytes, None, json!({"calls": calls_json(&calls)}), None);
            }
        }
    }
    // the writer's sink already holds more bytes than the archive will occupy (a pre-sized buffer, a file opened without
    // truncation): the produced bytes are the whole sink; the stream must still end its entries at the central directory
    {
        let comps: Vec<(&'static str, Vec<Call>)> = crate::props::c02::composites(seed).into_iter().filter(|c| !c.0.starts_with("zipcrypto")).collect();
        let src = crate::props::c02::sources(seed);
        for (fill, flabel) in [(0u8, "zeros"), (0xEE, "0xEE")] {
            for size in [4096usize, 32768] {
                for k in [0usize, 3, 7] {
                    let mut calls = vec![];
                    for c in comps.iter().skip(k).take(3) {
                        calls.extend(c.1.iter().cloned());
                    }
                    calls.push(Call::Finish);
                    let (res, bytes) = exec_into(&calls, &src, vec![fill; size]);
                    if res.iter().all(|r| r.is_ok()) {
                        add(format!("writer-into-presized-sink:{size}x{flabel}:composites {k}.."), bytes, None, json!({"calls": calls_json(&calls), "sink": {"size": size, "fill": fill}}), None);
                    }
                }
            }
        }
    }
    // archives that took two attempts: finish() refused (comment one byte too long for the end record), a shorter comment,
    // finish() again - whatever the first attempt wrote must not show
    {
        let comps: Vec<(&'static str, Vec<Call>)> = crate::props::c02::composites(seed).into_iter().filter(|c| !c.0.starts_with("zipcrypto")).collect();
        let src = crate::props::c02::sources(seed);
        for k in [0usize, 2, 5, 9] {
            let mut calls = vec![];
            for c in comps.iter().skip(k).take(2) {
                calls.extend(c.1.iter().cloned());
            }
            calls.push(Call::SetComment(vec![b'k'; 65536]));
            calls.push(Call::Finish);
            calls.push(Call::SetComment(b"fits".to_vec()));
            calls.push(Call::Finish);
            let (res, bytes) = exec(&calls, &src);
            let n = res.len();
            if res[n - 1].is_ok() && res[n - 3].is_err() && res[..n - 3].iter().all(|r| r.is_ok()) {
                add(format!("writer-second-finish-after-refused-comment:composites {k}.."), bytes, None, json!({"calls": calls_json(&calls)}), None);
            }
        }
    }
    // builder: streamable layouts
    let content = b"streamable builder entry, streamable builder entry".to_vec();
    for (k, (m, le, ce, cm)) in [(0u16, false, false, false), (8, true, false, true), (12, false, true, false), (93, true, true, true)].iter().enumerate() {
        let e = |name: &str| ESpec {
            name: name.as_bytes().to_vec(),
            method: *m,
            content: content.clone(),
            local_extra: if *le { crate::reference::zipbuild::extra_block(0x6666, b"local") } else { vec![] },
            central_extra: if *ce { crate::reference::zipbuild::extra_block(0x7777, b"central") } else { vec![] },
            comment: if *cm { b"file comment".to_vec() } else { vec![] },
            made_by: if k % 2 == 0 { (3 << 8) | 20 } else { 20 },
            ext_attr: if k % 2 == 0 { 0o100600 << 16 } else { 0x20 },
            ..Default::default()
        };
        let spec = Spec { entries: vec![e("one"), e("two/ü")], comment: b"builder".to_vec(), force_zip64_eocd: k == 3, ..Default::default() };
        add(format!("builder:m{m}"), build(&spec).0, None, spec.to_json(), None);
        // general-purpose bits 1 and 2: for these methods a hint about the compressor's effort (what `zip -1` / `zip -9` leave
        // behind), nothing a reader acts on
        for fl in [0x2u16, 0x4, 0x6] {
            let mut h = e("hinted");
            h.extra_flags = fl;
            let spec = Spec { entries: vec![e("plain"), h, e("after")], ..Default::default() };
            add(format!("builder:option-bits-{fl:#x}:m{m}"), build(&spec).0, None, spec.to_json(), None);
        }
        // zip64 local block carrying the sizes
        let mut z = e("z64");
        z.zip64_local = true;
        z.zip64_central = 3;
        let spec = Spec { entries: vec![e("first"), z], ..Default::default() };
        add(format!("builder:zip64-local:m{m}"), build(&spec).0, None, spec.to_json(), None);
        // unsupported: data descriptor second
        let mut dd = e("dd");
        dd.dd = Dd::Sig32;
        let spec = Spec { entries: vec![e("ok"), dd, e("after")], ..Default::default() };
        add(format!("builder:dd-second:m{m}"), build(&spec).0, Some(1), spec.to_json(), None);
        // unsupported: every data-descriptor flavour, with and without a (zeroed) local ZIP64 block and 0xFFFFFFFF placeholders
        for (k, d) in [Dd::Sig32, Dd::NoSig32, Dd::Sig64, Dd::NoSig64].into_iter().enumerate() {
            for z in [false, true] {
                let mut dd = e("dd");
                dd.dd = d;
                dd.zip64_local = z;
                dd.zip64_central = if z { 3 } else { 0 };
                let spec = Spec { entries: vec![dd, e("after")], ..Default::default() };
                add(format!("builder:dd-first:{k}:zip64-local-{z}:m{m}"), build(&spec).0, Some(0), spec.to_json(), None);
            }
        }
        // unsupported: encrypted first
        let mut en = e("enc");
        en.enc = Enc::ZipCrypto { pw: b"pw".to_vec(), infozip: false };
        let spec = Spec { entries: vec![en, e("after")], ..Default::default() };
        add(format!("builder:zipcrypto-first:m{m}"), build(&spec).0, Some(0), spec.to_json(), Some(b"pw"));
        let mut ae = e("aes");
        ae.enc = Enc::Aes { version: 2, strength: 3, pw: b"pw".to_vec(), salt_seed: 1 };
        let spec = Spec { entries: vec![e("ok"), ae], ..Default::default() };
        add(format!("builder:aes-second:m{m}"), build(&spec).0, Some(1), spec.to_json(), Some(b"pw"));
        // local extra areas other producers really write: stray bytes behind the last record, bare zero padding
        // (old zipalign), an unknown record of zero length, many records; the central directory does not repeat them
        let xb = crate::reference::zipbuild::extra_block;
        let areas: Vec<Vec<u8>> = vec![
            [xb(0x6666, b"le"), vec![0]].concat(),
            [xb(0x6666, b"le"), vec![0, 0]].concat(),
            [xb(0x6666, b"le"), vec![0, 0, 0]].concat(),
            vec![0],
            vec![0, 0, 0],
            vec![0; 4],
            vec![0; 7],
            xb(0xbeef, b""),
            (0..9u16).flat_map(|i| xb(0x7000 + i, &vec![i as u8; i as usize])).collect(),
            // a record that claims more bytes than the area holds
            vec![0x66, 0x66, 9, 0, 1, 2],
        ];
        for (ai, area) in areas.iter().enumerate() {
            let mut x = e("odd-local-extra");
            x.local_extra = area.clone();
            let spec = Spec { entries: vec![x, e("after")], ..Default::default() };
            add(format!("builder:local-extra-{ai}:m{m}"), build(&spec).0, None, spec.to_json(), None);
        }
    }
    v
}

fn replay(case: &Value, st: &mut Stats) {
    let bytes = crate::util::unhex(case["bytes"].as_str().unwrap_or(""));
    let Ok(seek) = observe(&bytes, Some(b"pw"), 1 << 22) else {
        crate::diag!("seekable reader cannot open the replay archive");
        return;
    };
    let label = case["archive"].as_str().unwrap_or("replay").to_string();
    let unsupported_at = if label.contains("dd-second") || label.contains("aes-second") { Some(1) } else if label.contains("zipcrypto-first") { Some(0) } else { None };
    let a = Arch { label, bytes, seek, unsupported_at, program: case["program"].clone() };
    if case["visitor"].as_bool() == Some(true) {
        check_visitor(&a, case["mode"].as_u64().unwrap_or(0) as u8, case["cut"].as_u64().unwrap_or(0), st, 0);
    } else {
        let pats: Vec<usize> = case["pats"].as_array().map(|x| x.iter().map(|p| p.as_u64().unwrap_or(4) as usize).collect()).unwrap_or_default();
        check(&a, &pats, case["mode"].as_u64().unwrap_or(0) as u8, case["cut"].as_u64().unwrap_or(0), st, 0);
    }
}

pub fn run(args: &Args) -> i32 {
    let mut ctx = crate::new_ctx("C10", args);
    if let Some(path) = &args.replay {
        return crate::props::replay_file(ctx, path, replay);
    }
    let thorough = args.tier.thorough();
    let archs = archives(args.seed, thorough);
    ctx.rule = format!(
        "E-SEQ over consumption histories. Archives: every writer program of 1 and 2 entries over a {}-entry alphabet and of 3 entries over its first 9 (thorough 12) (files of every method, directories, symlinks, large_file entries, non-ASCII and empty names), plus 64 builder-made archives \
         (local/central extras, local extra areas with stray bytes / bare zero padding / empty and many records / an overlong record, file comments, DOS/Unix made-by, ZIP64 local blocks, forced ZIP64 end records; and data-descriptor / ZipCrypto / AES entries for the refusal clause): {} archives. For each archive ALL 6^n per-entry consumption patterns over {{none, 1, 7, all-1, all, past-EOF}} \
         are run over a full-read stream and a 1-byte-read stream, and the 'all' pattern under one cut at every byte position (archives <= 600 bytes). Oracle: the seekable reader on the same bytes (names, sizes, methods, DOS words, content prefixes), Ok(None) after the last entry, \
         errors for unsupported entries; visitor (over full-read, 1-byte, 3-byte and every single-cut stream): files in order, then central-directory metadata (name, unix_mode, comment) once per entry in order. distinct_nontrivial = distinct (archive, pattern tuple, stream mode) executions (counted).",
        if thorough { 40 } else { 24 },
        archs.len()
    );
    ctx.assume("the seekable reader is tied to the written content by C01/C03; here it is only the reference for the streaming reader");
    ctx.uncovered("prefixed or gapped archives (not streamable by construction); more than 3 entries; random consumption amounts");
    ctx.bound("archives", json!(archs.len()));

    let mut items: Vec<(usize, Vec<usize>, u8, u64)> = vec![];
    for (ai, a) in archs.iter().enumerate() {
        let n = a.seek.entries.len();
        let total = 6usize.pow(n as u32);
        for j in 0..total {
            let pats: Vec<usize> = (0..n).rev().map(|k| (j / 6usize.pow(k as u32)) % 6).collect();
            // patterns that read large entries byte-wise are expensive: 1-byte streams only for archives < 4 KiB
            items.push((ai, pats.clone(), 0, 0));
            if a.bytes.len() < 4096 {
                items.push((ai, pats, 1, 0));
            }
        }
        if a.bytes.len() <= 600 {
            for cut in 1..a.bytes.len() as u64 {
                items.push((ai, vec![4; n], 2, cut));
            }
        }
    }
    let archs_r = &archs;
    let s = par_for(items.len() as u64, 32, |t, st| {
        let (ai, pats, mode, cut) = &items[t as usize];
        check(&archs_r[*ai], pats, *mode, *cut, st, t);
        if t == 5000 {
            st.sample(json!({"archive": archs_r[*ai].label, "patterns": pats.iter().map(|p| PATTERNS[*p]).collect::<Vec<_>>(), "mode": mode}));
        }
    });
    ctx.stats.merge(s);
    let mut vitems: Vec<(usize, u8, u64)> = vec![];
    for (ai, a) in archs.iter().enumerate() {
        if a.unsupported_at.is_some() {
            continue;
        }
        vitems.push((ai, 0, 0));
        if a.bytes.len() < 4096 {
            vitems.push((ai, 1, 0));
            vitems.push((ai, 2, 0));
        }
        if a.bytes.len() <= 600 {
            for cut in 1..a.bytes.len() as u64 {
                vitems.push((ai, 3, cut));
            }
        }
    }
    let s = par_for(vitems.len() as u64, 16, |t, st| {
        let (ai, mode, cut) = vitems[t as usize];
        check_visitor(&archs_r[ai], mode, cut, st, (1 << 50) + t);
    });
    ctx.stats.merge(s);
    ctx.stats.sample(json!({"archive": archs[0].label, "program": archs[0].program}));
    ctx.distinct_counted = ctx.stats.evals;
    ctx.stats.states = ctx.stats.evals;
    ctx.stats.transitions = ctx.stats.evals;
    ctx.stats.traces = ctx.stats.evals;
    ctx.finish()
}

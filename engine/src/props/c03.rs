//! C03 — well-formed archives from other producers are read faithfully.
//! E-PROD over the layout-knob product of the independent builder (and CPython zipfile as a
//! second producer); the builder's own entry table is the oracle.

use crate::reference::cp437;
use crate::reference::zipbuild::{build, extra_block, Dd, ESpec, Layout, Spec};
use crate::util::{fnv, guard, hex, panic_site, par_for, Stats};
use crate::zipapi::*;
use crate::Args;
use serde_json::{json, Value};
use std::io::Cursor;

const METHODS: [u16; 5] = [0, 8, 12, 93, 14];
const DDS: [Dd; 5] = [Dd::None, Dd::Sig32, Dd::NoSig32, Dd::Sig64, Dd::NoSig64];
const MADE_BY: [u16; 3] = [20, (3 << 8) | 20, (10 << 8) | 20];
const ATTRS: [u32; 7] = [0, 0x10, 0x01, 0o100644 << 16, 0o040755 << 16 | 0x10, 0o120777 << 16, 0o100000 << 16];
const TIMES: [(u16, u16); 3] = [(0, 0), (0x5821, 0x6000), (0xffff, 0xffff)];

/// per-entry knob radices
const RAD: [u64; 10] = [5, 5, 16, 2, 2, 3, 3, 3, 7, 3];

fn digits(mut i: u64, radices: &[u64]) -> Vec<usize> {
    let mut out = vec![0; radices.len()];
    for (k, r) in radices.iter().enumerate().rev() {
        out[k] = (i % r) as usize;
        i /= r;
    }
    out
}

fn content_for(method: u16, seed: u64, salt: u64) -> Vec<u8> {
    let mut r = crate::util::Rng(seed ^ salt.wrapping_mul(0x9E37));
    match method {
        0 => r.bytes(24),
        14 => vec![],
        _ => {
            let mut v = b"foreign archive payload ".repeat(3);
            v.extend(r.bytes(12));
            v
        }
    }
}

pub fn entry_from_knobs(d: &[usize], name: &[u8], utf8: bool, seed: u64, salt: u64) -> ESpec {
    let method = METHODS[d[0]];
    let local_extra = if d[4] == 1 { extra_block(0x4c4c, b"loc!") } else { vec![] };
    let central_extra = match d[5] {
        0 => vec![],
        1 => extra_block(0x7777, b"central"),
        _ => {
            let mut v = extra_block(0x7777, b"c1");
            v.extend(extra_block(0x8888, b""));
            v
        }
    };
    let comment = match d[6] {
        0 => vec![],
        1 => b"a file comment".to_vec(),
        _ => vec![0x80, 0xe9, 0xff, b'x'],
    };
    ESpec {
        name: name.to_vec(),
        utf8,
        method,
        content: content_for(method, seed, salt),
        raw_payload: if method == 14 { Some(b"\x5d\x00\x00opaque-lzma-payload".to_vec()) } else { None },
        dd: DDS[d[1]],
        zip64_central: d[2] as u8,
        zip64_local: false,
        zip64_after: d[3] == 1,
        local_extra,
        central_extra,
        comment,
        made_by: MADE_BY[d[7]],
        ext_attr: ATTRS[d[8]],
        time: TIMES[d[9]].1,
        date: TIMES[d[9]].0,
        ..Default::default()
    }
}

/// archive-level variants
#[derive(Clone, Debug)]
pub struct AVar {
    pub prefix: usize,
    pub comment: usize,
    pub trailing: usize,
    pub z64: bool,
}
pub fn avars(full: bool) -> Vec<AVar> {
    let mut v = vec![];
    if !full {
        v.push(AVar { prefix: 0, comment: 0, trailing: 0, z64: false });
        v.push(AVar { prefix: 1000, comment: 1000, trailing: 0, z64: false });
        v.push(AVar { prefix: 0, comment: 1, trailing: 500, z64: false });
        v.push(AVar { prefix: 1, comment: 0, trailing: 0, z64: true });
        return v;
    }
    for &prefix in &[0usize, 1, 1000, 65536] {
        for &comment in &[0usize, 1, 1000] {
            for &(trailing, z64) in &[(0usize, false), (1, false), (500, false), (0, true)] {
                v.push(AVar { prefix, comment, trailing, z64 });
            }
        }
    }
    v
}

pub fn apply_avar(spec: &mut Spec, a: &AVar) {
    spec.prefix = vec![0x5a; a.prefix];
    spec.comment = (0..a.comment).map(|i| b"comment-"[i % 8]).collect();
    spec.trailing = vec![0xee; a.trailing];
    spec.force_zip64_eocd = a.z64;
}

fn decode_name(raw: &[u8], utf8: bool) -> String {
    if utf8 {
        String::from_utf8_lossy(raw).into_owned()
    } else {
        cp437::decode(raw)
    }
}

/// Compare what the crate reports for `bytes` with the builder's tables.
pub fn check_archive(spec: &Spec, bytes: &[u8], lay: &Layout, st: &mut Stats, order: u64, part: &str) {
    st.evals += 1;
    let case = || json!({"kind": "spec", "spec": spec.to_json(), "part": part});
    // (an archive of 65 537 entries that is read wrongly is wrong 65 537 times: a handful of reports per archive is enough,
    // and rendering the case once per report is what would take the time)
    let reported = std::cell::Cell::new(0u32);
    let mut bad = |what: &str, detail: String, st: &mut Stats| {
        if reported.get() < 6 {
            st.viol(format!("{what}/{part}"), detail, case(), order);
        }
        reported.set(reported.get() + 1);
    };
    let obs = match observe(bytes, None, 1 << 22) {
        Ok(o) => o,
        Err(RErr::Panic(p)) => {
            bad(&format!("panic/{}", panic_site(&p)), format!("reader panicked on a well-formed archive: {p}"), st);
            return;
        }
        Err(RErr::Open(e)) => {
            bad(&format!("rejected/{}", panic_site(&e)), format!("well-formed archive rejected: {e}"), st);
            return;
        }
    };
    st.distinct_hash(fnv(bytes));
    let order_idx: Vec<usize> = spec.cd_order.clone().unwrap_or_else(|| (0..spec.entries.len()).collect());
    if obs.entries.len() != order_idx.len() {
        bad("count", format!("{} entries reported, {} in the central directory", obs.entries.len(), order_idx.len()), st);
        return;
    }
    if obs.offset != spec.prefix.len() as u64 {
        bad("offset", format!("offset() = {}, {} bytes were prepended", obs.offset, spec.prefix.len()), st);
    }
    if obs.comment != spec.comment {
        bad("archive-comment", format!("comment() has {} bytes, stored {}", obs.comment.len(), spec.comment.len()), st);
    }
    let mut all_ok = true;
    for (pos, &ei) in order_idx.iter().enumerate() {
        let e = &spec.entries[ei];
        let l = &lay.entries[ei];
        let o = &obs.entries[pos];
        let mut f = |field: &str, detail: String, st: &mut Stats| {
            all_ok = false;
            bad(&format!("field/{field}"), format!("entry {pos}: {detail}"), st);
        };
        let want_name = decode_name(&e.name, e.utf8);
        if o.name != want_name {
            f("name", format!("name {:?}, expected {:?}", o.name, want_name), st);
        }
        if o.name_raw != e.name {
            f("name_raw", format!("name_raw {}, stored {}", hex(&o.name_raw), hex(&e.name)), st);
        }
        let want_comment = decode_name(&e.comment, e.utf8);
        if o.comment != want_comment {
            f("comment", format!("comment {:?}, expected {:?}", o.comment, want_comment), st);
        }
        if o.size != l.usize_ {
            f("size", format!("size() {}, recorded {}", o.size, l.usize_), st);
        }
        if o.csize != l.csize {
            f("compressed_size", format!("compressed_size() {}, recorded {}", o.csize, l.csize), st);
        }
        if o.crc != l.crc {
            f("crc32", format!("crc32() {:#010x}, recorded {:#010x}", o.crc, l.crc), st);
        }
        if o.method != e.method {
            f("method", format!("compression() {}, recorded {}", o.method, e.method), st);
        }
        if (o.date, o.time) != (e.date, e.time) {
            f("timestamp", format!("DOS words ({:#06x},{:#06x}), recorded ({:#06x},{:#06x})", o.date, o.time, e.date, e.time), st);
        }
        if o.extra != l.central_extra {
            f("extra_data", format!("extra_data() {}, central extra field {}", hex(&o.extra), hex(&l.central_extra)), st);
        }
        if o.header_start != l.local_pos {
            f("header_start", format!("header_start() {}, local header at {}", o.header_start, l.local_pos), st);
        }
        if o.central_header_start != l.central_pos {
            f("central_header_start", format!("central_header_start() {}, record at {}", o.central_header_start, l.central_pos), st);
        }
        if o.data_start != l.data_pos {
            f("data_start", format!("data_start() {}, data at {}", o.data_start, l.data_pos), st);
        }
        // attributes / mode
        let sys = e.made_by >> 8;
        match (sys, e.ext_attr, o.mode) {
            (3, a, m) if a != 0 => {
                if m != Some(a >> 16) {
                    f("unix_mode", format!("unix_mode() {:?}, recorded attributes {:#x}", m, a), st);
                }
            }
            (0, a, Some(m)) if a != 0 => {
                let dir = a & 0x10 != 0;
                if dir != (m & 0o170000 == 0o040000) || (a & 1 != 0 && m & 0o222 != 0) {
                    f("dos_mode", format!("unix_mode() {:o} for DOS attributes {:#x}", m, a), st);
                }
            }
            _ => {}
        }
        // raw bytes and content
        let stored = &bytes[l.data_pos as usize..(l.data_pos + l.csize) as usize];
        match &o.raw {
            Ok(r) if r.as_slice() == stored => {}
            Ok(r) => f("raw", format!("raw read gives {} bytes, stored {}", r.len(), stored.len()), st),
            Err(er) => f("raw", format!("raw read failed: {er}"), st),
        }
        if e.method == 14 {
            match &o.content {
                Err(_) => st.count("unsupported_method_refused_per_entry", 1),
                Ok(c) => f("unsupported-method", format!("an entry with method 14 was read ({} bytes) instead of failing", c.len()), st),
            }
        } else {
            match &o.content {
                Ok(c) if *c == e.content => {}
                Ok(c) => f("content", format!("content has {} bytes, original {}", c.len(), e.content.len()), st),
                Err(er) => f("content", format!("read failed: {er}"), st),
            }
        }
    }
    // lookups
    if let Ok(mut ar) = zip::ZipArchive::new(Cursor::new(bytes)) {
        // last position (in central-directory order) of every decoded name
        let mut last_of: std::collections::HashMap<String, usize> = Default::default();
        for (pos, &x) in order_idx.iter().enumerate() {
            last_of.insert(decode_name(&spec.entries[x].name, spec.entries[x].utf8), pos);
        }
        for &ei in &order_idx {
            let n = decode_name(&spec.entries[ei].name, spec.entries[ei].utf8);
            let last = last_of[&n];
            match guard(|| ar.by_name(&n).map(|f| f.central_header_start())) {
                Ok(Ok(c)) => {
                    if c != lay.entries[order_idx[last]].central_pos {
                        all_ok = false;
                        bad("by_name/not-last-duplicate", format!("by_name({n:?}) returned the record at {c}"), st);
                    }
                }
                Ok(Err(e)) => {
                    // an unsupported or otherwise unreadable entry may fail to open; the name must still be found
                    if matches!(e, zip::result::ZipError::FileNotFound) {
                        all_ok = false;
                        bad("by_name/not-found", format!("by_name({n:?}) -> FileNotFound"), st);
                    }
                }
                Err(p) => {
                    all_ok = false;
                    bad(&format!("panic/by_name/{}", panic_site(&p)), p, st);
                }
            }
        }
        // file_names(): exactly the set of decoded names
        match guard(|| ar.file_names().map(|x| x.to_string()).collect::<std::collections::BTreeSet<String>>()) {
            Ok(got) => {
                let want: std::collections::BTreeSet<String> = last_of.keys().cloned().collect();
                if got != want {
                    all_ok = false;
                    let extra: Vec<&String> = got.difference(&want).take(3).collect();
                    let missing: Vec<&String> = want.difference(&got).take(3).collect();
                    bad("file_names/set", format!("file_names() lists {} names, the directory has {} distinct ones; not recorded: {:?}; missing: {:?}", got.len(), want.len(), extra, missing), st);
                }
            }
            Err(p) => bad(&format!("panic/file_names/{}", panic_site(&p)), p, st),
        }
        match guard(|| ar.by_name("no such entry \u{1}").map(|_| ())) {
            Ok(Err(zip::result::ZipError::FileNotFound)) => {}
            Ok(r) => {
                all_ok = false;
                bad("by_name/absent", format!("lookup of an absent name gave {:?}", r.map_err(|e| e.to_string())), st)
            }
            Err(p) => bad(&format!("panic/by_name/{}", panic_site(&p)), p, st),
        }
        // near misses of recorded names: each name with a separator added or taken away at either end, with its case changed,
        // with a space appended, cut by one character - whenever that string is not itself a recorded name, it is absent
        {
            let mut probes: std::collections::BTreeSet<String> = Default::default();
            let mut sorted_names: Vec<&String> = last_of.keys().collect();
            sorted_names.sort();
            for (k, name) in sorted_names.into_iter().enumerate() {
                if k >= 40 {
                    break;
                }
                let mut v = vec![format!("{name}/"), format!("/{name}"), format!("{name} "), format!("./{name}"), name.to_uppercase(), name.to_lowercase(), name.replace('/', "\\"), name.replace('\\', "/")];
                if let Some(t) = name.strip_suffix('/') {
                    v.push(t.to_string());
                }
                if let Some(t) = name.strip_prefix('/') {
                    v.push(t.to_string());
                }
                let mut cs = name.chars();
                if cs.next_back().is_some() {
                    v.push(cs.as_str().to_string());
                }
                probes.extend(v.into_iter().filter(|q| !last_of.contains_key(q)));
            }
            for q in probes {
                match guard(|| ar.by_name(&q).map(|f| f.name().to_string())) {
                    Ok(Err(zip::result::ZipError::FileNotFound)) => {}
                    Ok(r) => {
                        all_ok = false;
                        bad("by_name/absent/near-miss", format!("lookup of the absent name {q:?} gave {:?}", r.map_err(|e| e.to_string())), st)
                    }
                    Err(p) => bad(&format!("panic/by_name/{}", panic_site(&p)), p, st),
                }
            }
        }
        let n = ar.len();
        for idx in [n, n + 1, usize::MAX] {
            for raw in [false, true] {
                let r = guard(|| if raw { ar.by_index_raw(idx).map(|_| ()) } else { ar.by_index(idx).map(|_| ()) });
                match r {
                    Ok(Err(zip::result::ZipError::FileNotFound)) => {}
                    Ok(r) => {
                        all_ok = false;
                        bad("by_index/out-of-range", format!("index {idx} of {n} gave {:?}", r.map_err(|e| e.to_string())), st)
                    }
                    Err(p) => bad(&format!("panic/by_index/{}", panic_site(&p)), p, st),
                }
            }
        }
    }
    st.class(&format!("{}{}", if all_ok { "faithful" } else { "MISMATCH" }, if spec.entries.len() == 1 { format!("/m{}", spec.entries[0].method) } else { format!("/{}-entries", spec.entries.len()) }));
}

pub fn reduced_entries(seed: u64) -> Vec<ESpec> {
    // 8 entries covering every knob value at least once
    let picks: [[usize; 10]; 8] = [
        [0, 0, 0, 0, 0, 0, 0, 1, 3, 1],
        [1, 1, 1, 0, 1, 1, 1, 1, 4, 1],
        [2, 2, 2, 1, 0, 2, 2, 0, 1, 0],
        [3, 3, 4, 0, 1, 0, 0, 2, 0, 2],
        [4, 0, 7, 1, 1, 2, 1, 1, 5, 1],
        [1, 4, 3, 1, 0, 1, 0, 0, 2, 1],
        [0, 2, 5, 0, 1, 2, 2, 1, 6, 2],
        [1, 0, 6, 1, 0, 0, 1, 1, 3, 0],
    ];
    let names: [&[u8]; 8] = [b"a", b"dir/b.txt", "ü☃".as_bytes(), b"a", &[0x80, 0x81, b'.', b'x'], b"dir/", b"a", b"z z"];
    picks.iter().enumerate().map(|(i, d)| entry_from_knobs(d, names[i], i == 2, seed, i as u64)).collect()
}

fn replay(case: &Value, st: &mut Stats) {
    if case["kind"] != "spec" {
        crate::diag!("this replay kind ({}) needs the CPython producer: run the check itself", case["kind"]);
        return;
    }
    let spec = Spec::from_json(&case["spec"]);
    let (bytes, lay) = build(&spec);
    check_archive(&spec, &bytes, &lay, st, 0, case["part"].as_str().unwrap_or("replay"));
}

pub fn run(args: &Args) -> i32 {
    let mut ctx = crate::new_ctx("C03", args);
    let seed = args.seed;
    if let Some(path) = &args.replay {
        return crate::props::replay_file(ctx, path, replay);
    }
    let thorough = args.tier.thorough();
    ctx.rule = "E-PROD over the independent builder's knob product. One-entry archives: method {stored,deflate,bzip2,zstd,14} x data descriptor {none, sig32, nosig32, sig64, nosig64} \
        x all 8 ZIP64 central-field subsets x ZIP64 block before/after other blocks x local-extra {none, unknown block} x central-extra {none, 1, 2 blocks} x file comment {none, ASCII, high bytes} \
        x made-by {DOS, Unix, NTFS} x 7 attribute values x 3 DOS time words = 453 600 entries (ZIP64 subsets include the disk start number as fourth block field), each under 4 (thorough: 48) archive-level variants (prefix junk 0/1/1000/65536, comment 0/1/1000, \
        trailing garbage 0/1/500 without ZIP64 records, forced ZIP64 end records). Comment + trailing-garbage lengths at the edge of the 65 557-byte end-record window (9 splits of 65 513..65 535 bytes x 9 archives x prefix). Two- and three-entry archives over an 8-entry reduced alphabet with duplicate names, reordered central directory \
        and gaps. Second producer: CPython zipfile (stored/deflate/bzip2/lzma x force_zip64 x comments x directories). distinct_nontrivial = distinct archive byte strings (hash set)."
        .into();
    ctx.assume("reference::zipbuild knows what it encoded (its Layout table is the oracle); CPython's manifest is ground truth for its archives");
    ctx.uncovered("multi-disk archives, encrypted central directory, more than 3 distinct entry shapes per archive");

    let av = avars(thorough);
    let total: u64 = RAD.iter().product();
    ctx.bound("one_entry_knob_product", json!(total));
    ctx.bound("archive_level_variants", json!(av.len()));
    let nav = av.len() as u64;
    let s = par_for(total, 64, |i, st| {
        let d = digits(i, &RAD);
        let names: [&[u8]; 3] = [b"plain.txt", "ü/☃".as_bytes(), &[0x9b, b'a']];
        let ni = (i % 3) as usize;
        let e = entry_from_knobs(&d, names[ni], ni == 1, seed, i);
        for (ai, a) in av.iter().enumerate() {
            let mut spec = Spec { entries: vec![e.clone()], ..Default::default() };
            apply_avar(&mut spec, a);
            let (bytes, lay) = build(&spec);
            check_archive(&spec, &bytes, &lay, st, i * nav + ai as u64, "one-entry");
            if i == 100_000 && ai == 1 {
                st.sample(spec.describe());
            }
        }
    });
    ctx.stats.merge(s);
    crate::diag!("  [C03] one-entry product done at {:.1}s", ctx.elapsed());

    // multi-entry
    let red = reduced_entries(seed);
    let av_full = avars(true);
    let n2 = 64u64 * av_full.len() as u64 * 2;
    let s = par_for(n2, 8, |i, st| {
        let reorder = i % 2 == 1;
        let j = i / 2;
        let a = &av_full[(j % av_full.len() as u64) as usize];
        let p = (j / av_full.len() as u64) as usize;
        let mut spec = Spec { entries: vec![red[p / 8].clone(), red[p % 8].clone()], ..Default::default() };
        spec.entries[1].gap_before = if p % 3 == 0 { 7 } else { 0 };
        apply_avar(&mut spec, a);
        if reorder {
            spec.cd_order = Some(vec![1, 0]);
            spec.gap_before_cd = 5;
        }
        let (bytes, lay) = build(&spec);
        check_archive(&spec, &bytes, &lay, st, (1 << 40) + i, "two-entries");
    });
    ctx.stats.merge(s);
    let perms: [[usize; 3]; 6] = [[0, 1, 2], [0, 2, 1], [1, 0, 2], [1, 2, 0], [2, 0, 1], [2, 1, 0]];
    let av8: Vec<AVar> = av_full.iter().step_by(6).cloned().collect();
    let n3 = 512u64 * av8.len() as u64 * if thorough { 6 } else { 2 };
    let np = if thorough { 6 } else { 2 };
    let s = par_for(n3, 8, |i, st| {
        let pi = (i % np) as usize;
        let j = i / np;
        let a = &av8[(j % av8.len() as u64) as usize];
        let p = (j / av8.len() as u64) as usize;
        let mut spec = Spec { entries: vec![red[p / 64].clone(), red[(p / 8) % 8].clone(), red[p % 8].clone()], ..Default::default() };
        apply_avar(&mut spec, a);
        let perm = if np == 6 { perms[pi] } else { [perms[0], perms[5]][pi] };
        if perm != [0, 1, 2] {
            spec.cd_order = Some(perm.to_vec());
        }
        let (bytes, lay) = build(&spec);
        check_archive(&spec, &bytes, &lay, st, (2 << 40) + i, "three-entries");
        if i == 77 {
            st.sample(spec.describe());
        }
    });
    ctx.stats.merge(s);
    // comment + trailing garbage at the edge of the end-record search window (sum up to 65 535 bytes)
    let edge: Vec<(usize, usize)> = vec![(65535, 0), (65514, 0), (65513, 0), (40000, 25535), (0, 65535), (1, 65534), (65534, 1), (30000, 35513), (0, 65514)];
    let edge_r = &edge;
    let s = par_for((edge.len() * 9 * 2) as u64, 1, |i, st| {
        let i = i as usize;
        let (c, t) = edge_r[i % edge_r.len()];
        let k = (i / edge_r.len()) % 9;
        let prefix = if i / (edge_r.len() * 9) == 1 { 1000 } else { 0 };
        let mut spec = Spec { entries: if k == 8 { vec![] } else { vec![red[k].clone()] }, ..Default::default() };
        apply_avar(&mut spec, &AVar { prefix, comment: c, trailing: t, z64: false });
        let (bytes, lay) = build(&spec);
        check_archive(&spec, &bytes, &lay, st, (5 << 40) + i as u64, "window-edge");
    });
    ctx.stats.merge(s);
    ctx.bound("window_edge_comment_plus_garbage", json!(edge));
    // every length of prepended data 0..=8300 (quick) / 0..=65 600 (thorough), and the neighbours of 16 Ki, 32 Ki, 64 Ki:
    // buffer-sized scans for the end records must not depend on where a signature falls
    {
        let mut lens: Vec<usize> = (0..=if thorough { 65_600 } else { 8_300 }).collect();
        if !thorough {
            lens.extend([12_287, 12_288, 12_289, 16_381, 16_382, 16_383, 16_384, 16_385, 32_765, 32_766, 32_767, 32_768, 32_769, 65_533, 65_534, 65_535, 65_536, 65_537, 65_540]);
        }
        let bases: Vec<Spec> = vec![
            Spec { entries: vec![red[1].clone()], force_zip64_eocd: true, ..Default::default() },
            Spec { entries: vec![ESpec { zip64_central: 7, zip64_local: true, ..red[0].clone() }, red[2].clone()], force_zip64_eocd: true, comment: b"cm".to_vec(), ..Default::default() },
            Spec { entries: vec![red[0].clone(), red[3].clone()], comment: b"plain".to_vec(), ..Default::default() },
        ];
        let (lens_r, bases_r) = (&lens, &bases);
        let s = par_for((lens.len() * bases.len()) as u64, 16, |i, st| {
            let i = i as usize;
            let mut spec = bases_r[i % bases_r.len()].clone();
            spec.prefix = vec![0x5a; lens_r[i / bases_r.len()]];
            let (bytes, lay) = build(&spec);
            check_archive(&spec, &bytes, &lay, st, (8 << 40) + i as u64, "prefix-sweep");
        });
        ctx.stats.merge(s);
        ctx.bound("prefix_length_sweep", json!({"lengths": if thorough { "every length 0..=65600".to_string() } else { "every length 0..=8300 and the neighbours of 12 Ki, 16 Ki, 32 Ki, 64 Ki".to_string() },
            "archives": ["one entry + forced ZIP64 end records", "two entries (one with all ZIP64 fields) + forced ZIP64 end records + comment", "two entries + comment, no ZIP64"]}));
    }
    // maximal variable-length fields and a larger entry count
    {
        let big_name: Vec<u8> = (0..65535usize).map(|i| b"abcdefghij/"[i % 11]).collect();
        let mut st = Stats::default();
        let specs: Vec<Spec> = vec![
            Spec { entries: vec![ESpec { name: big_name.clone(), ..red[1].clone() }, red[0].clone()], ..Default::default() },
            Spec { entries: vec![ESpec { comment: vec![b'k'; 65535], ..red[1].clone() }, red[3].clone()], comment: b"x".to_vec(), ..Default::default() },
            Spec { entries: vec![ESpec { central_extra: extra_block(0x7777, &vec![7u8; 65531]), ..red[0].clone() }, red[2].clone()], ..Default::default() },
            Spec { entries: vec![ESpec { local_extra: extra_block(0x6666, &vec![6u8; 65531]), ..red[1].clone() }, red[2].clone()], ..Default::default() },
            Spec { entries: vec![ESpec { name: big_name.clone(), comment: vec![0x80; 65535], central_extra: extra_block(0x7777, &vec![7u8; 65531]), local_extra: extra_block(0x6666, &vec![6u8; 60000]), zip64_central: 0, ..red[6].clone() }], prefix: vec![0x5a; 9], ..Default::default() },
            Spec { entries: (0..300).map(|i| ESpec { name: format!("many/{i:03}").into_bytes(), ..red[i % 8].clone() }).collect(), comment: b"three hundred".to_vec(), ..Default::default() },
            Spec { entries: (0..300).map(|i| ESpec { name: format!("m{}", i % 7).into_bytes(), ..red[(i * 3) % 8].clone() }).collect(), cd_order: Some((0..300).rev().collect()), ..Default::default() },
        ];
        for (k, spec) in specs.iter().enumerate() {
            let (bytes, lay) = build(spec);
            check_archive(spec, &bytes, &lay, &mut st, (6 << 40) + k as u64, "big-fields");
        }
        ctx.stats.merge(st);
        ctx.bound("big_fields", json!("65 535-byte name / file comment / central extra / local extra (singly and together); 300 entries; 300 entries with 7 repeated names in reversed directory order"));
    }
    // entry counts around the 16-bit limit: 65 535 entries need no ZIP64 records (the count field holds 0xFFFF as a real value)
    {
        let counts = [65_534usize, 65_535, 65_536, 65_537];
        let s = par_for(counts.len() as u64 * 4, 1, |t, st| {
            let n = counts[(t / 4) as usize];
            let spec = Spec {
                entries: (0..n).map(|i| ESpec { name: format!("c{i}").into_bytes(), method: 0, content: vec![b'a' + (i % 26) as u8], ..Default::default() }).collect(),
                comment: if t % 2 == 1 { b"count".to_vec() } else { vec![] },
                prefix: if (t / 2) % 2 == 1 { vec![0x5a; 100] } else { vec![] },
                ..Default::default()
            };
            let (bytes, lay) = build(&spec);
            check_archive(&spec, &bytes, &lay, st, (7 << 40) + t, "entry-counts");
        });
        ctx.stats.merge(s);
        ctx.bound("entry_counts", json!("{65534, 65535, 65536, 65537} one-byte entries x comment {none, 5 bytes} x prefix {0, 100}"));
    }
    // name shapes: names that differ only in separator direction, case, a trailing or leading separator, a NUL, a space;
    // unflagged names / comments whose high bytes happen to be well-formed UTF-8; every ordered pair in a two-entry archive
    {
        let raw: Vec<&[u8]> = vec![
            b"a/b", b"a\\b", b"A/B", b"a/b/", b"a\\b\\", b"/a/b", b"a//b", b"./a/b", b"a/b\0", b"a/b ", b"", b" ", b"a", b"a/",
            b"caf\xC3\xA9.txt", b"\xE2\x82\xAC", b"caf\x82", b"\xC3\xA9", b"\xC3", b"\xF0\x9F\x90\xA2", b"\xEF\xBB\xBFbom", b"a\xC2\xA0b",
        ];
        let shapes: Vec<(Vec<u8>, bool)> = raw.iter().flat_map(|n| [(n.to_vec(), false), (n.to_vec(), true)]).collect();
        let ns = shapes.len();
        let shapes_r = &shapes;
        let red_r = &red;
        let s = par_for((ns * ns) as u64, 16, |i, st| {
            let i = i as usize;
            let (a, b) = (&shapes_r[i / ns], &shapes_r[i % ns]);
            let mut e0 = ESpec { name: a.0.clone(), utf8: a.1, comment: b.0.clone(), ..red_r[0].clone() };
            e0.zip64_central = 0;
            let e1 = ESpec { name: b.0.clone(), utf8: b.1, comment: a.0.clone(), ..red_r[1].clone() };
            let spec = Spec { entries: vec![e0, e1], ..Default::default() };
            let (bytes, lay) = build(&spec);
            check_archive(&spec, &bytes, &lay, st, (9 << 40) + i as u64, "name-shapes");
        });
        ctx.stats.merge(s);
        ctx.bound("name_shapes", json!({"names": raw.iter().map(|n| crate::util::show(n)).collect::<Vec<_>>(), "flag": ["clear", "set"], "archives": "every ordered pair of (name, flag) as a two-entry archive; each name also serves as the other entry's comment"}));
    }
    // ZIP64 end records with an extensible data sector (APPNOTE 4.3.14: the record's size field is 44 + sector length)
    {
        let sectors: Vec<Vec<u8>> = vec![vec![], vec![0x11], extra_block(0x0065, b"0123456789ab"), vec![0x22; 33], vec![0x50, 0x4b, 0x06, 0x06, 0, 0, 0, 0], vec![0x33; 4096], vec![0x44; 70_000]];
        let bases: Vec<Spec> = vec![
            Spec { entries: vec![red[1].clone()], force_zip64_eocd: true, ..Default::default() },
            Spec { entries: vec![ESpec { zip64_central: 7, zip64_local: true, ..red[0].clone() }, red[2].clone(), red[3].clone()], force_zip64_eocd: true, comment: b"with a comment".to_vec(), ..Default::default() },
            Spec { entries: vec![], force_zip64_eocd: true, ..Default::default() },
        ];
        let prefixes = [0usize, 15, 4090];
        let mut st = Stats::default();
        let mut k = 0u64;
        for sec in &sectors {
            for b in &bases {
                for &pl in &prefixes {
                    let mut spec = b.clone();
                    spec.zip64_ext = sec.clone();
                    spec.prefix = vec![0x5a; pl];
                    let (bytes, lay) = build(&spec);
                    check_archive(&spec, &bytes, &lay, &mut st, (10 << 40) + k, "zip64-extensible-sector");
                    k += 1;
                }
            }
        }
        ctx.stats.merge(st);
        ctx.bound("zip64_extensible_data_sector", json!({"sector_lengths": sectors.iter().map(|s| s.len()).collect::<Vec<_>>(), "archives": 3, "prefix_lengths": prefixes}));
    }
    // compressed payloads made of several members: a zstd stream of two / many frames (what chunking and multi-threaded
    // compressors emit), between ordinary entries
    {
        let mut st = Stats::default();
        let part = |n: usize, salt: u64| -> Vec<u8> {
            let mut r = crate::util::Rng(seed ^ salt);
            let mut v = vec![];
            while v.len() < n {
                v.extend_from_slice(b"multi-frame payload ");
                v.extend(r.bytes(5));
            }
            v.truncate(n);
            v
        };
        for (k, sizes) in [vec![25_000usize, 25_000], vec![1, 1], vec![0, 300], vec![300, 0, 7], (0..12).map(|i| 16_384 + i).collect::<Vec<_>>()].into_iter().enumerate() {
            let parts: Vec<Vec<u8>> = sizes.iter().enumerate().map(|(i, n)| part(*n, i as u64)).collect();
            let payload: Vec<u8> = parts.iter().flat_map(|p| crate::reference::codec::compress(93, p)).collect();
            let content: Vec<u8> = parts.concat();
            let e = ESpec { name: b"frames.zst".to_vec(), method: 93, content, raw_payload: Some(payload), ..red[0].clone() };
            let mut e = e;
            e.zip64_central = 0;
            e.dd = Dd::None;
            let spec = Spec { entries: vec![red[1].clone(), e, red[2].clone()], ..Default::default() };
            let (bytes, lay) = build(&spec);
            check_archive(&spec, &bytes, &lay, &mut st, (11 << 40) + k as u64, "multi-frame-zstd");
        }
        ctx.stats.merge(st);
        ctx.bound("multi_frame_zstd", json!("zstd payloads of 2, 2 tiny, (empty + 300), (300 + empty + 7) and 12 frames between two ordinary entries"));
    }
    // prepended data that is itself an archive of the same shape (old.zip ++ new.zip: a self-extractor stub, an update glued
    // behind its predecessor): record signatures sit in the prefix exactly where the real archive's offsets, taken without
    // the shift, point
    {
        let mut st = Stats::default();
        // (stored entries of equal lengths: the two archives have byte-for-byte the same layout, only the contents differ)
        let mk = |salt: u64, comment: &[u8]| Spec { entries: (0..3).map(|i| ESpec { method: 0, content: content_for(0, seed, salt + i as u64), zip64_central: 0, dd: Dd::None, ..red[i].clone() }).collect(), comment: comment.to_vec(), ..Default::default() };
        for (k, (old_c, new_c)) in [(&b""[..], &b""[..]), (b"old", b"new"), (b"", b"a longer comment on the new one")].into_iter().enumerate() {
            let old = build(&mk(1000, old_c)).0;
            for copies in [1usize, 2] {
                let mut spec = mk(2000, new_c);
                spec.prefix = old.repeat(copies);
                let (bytes, lay) = build(&spec);
                check_archive(&spec, &bytes, &lay, &mut st, (12 << 40) + (k * 2 + copies) as u64, "archive-behind-an-archive");
            }
        }
        ctx.stats.merge(st);
        ctx.bound("archive_behind_an_archive", json!("a three-entry archive behind one / two copies of another archive of the same shape (other contents), 3 comment combinations"));
    }
    // zero entries
    let mut st0 = Stats::default();
    for (ai, a) in av_full.iter().enumerate() {
        let mut spec = Spec::default();
        apply_avar(&mut spec, a);
        let (bytes, lay) = build(&spec);
        check_archive(&spec, &bytes, &lay, &mut st0, (3 << 40) + ai as u64, "zero-entries");
    }
    ctx.stats.merge(st0);
    crate::diag!("  [C03] multi-entry done at {:.1}s", ctx.elapsed());

    // CPython producer
    cpython_producer(&mut ctx, thorough);
    crate::diag!("  [C03] cpython producer done at {:.1}s", ctx.elapsed());

    ctx.stats.states = ctx.stats.distinct.len() as u64;
    ctx.stats.transitions = ctx.stats.evals;
    ctx.stats.traces = ctx.stats.evals;
    ctx.finish()
}

fn cpython_producer(ctx: &mut crate::util::Ctx, thorough: bool) {
    let dir = crate::foreign::scratch_root().join(format!("zipmc-{}-c03py", std::process::id()));
    let _ = std::fs::remove_dir_all(&dir);
    let mut cmd = std::process::Command::new("python3");
    cmd.arg(format!("{}/pyref/mkforeign.py", crate::util::verif_root())).arg(&dir);
    if thorough {
        cmd.arg("--thorough");
    }
    let out = match cmd.output() {
        Ok(o) => o,
        Err(e) => {
            ctx.machinery(format!("cannot run mkforeign.py: {e}"));
            return;
        }
    };
    if !out.status.success() {
        ctx.machinery(format!("mkforeign.py failed: {}", String::from_utf8_lossy(&out.stderr)));
        let _ = std::fs::remove_dir_all(&dir);
        return;
    }
    let mut files: Vec<_> = std::fs::read_dir(&dir).map(|d| d.filter_map(|e| e.ok()).map(|e| e.path()).filter(|p| p.extension().map_or(false, |x| x == "zip")).collect()).unwrap_or_default();
    files.sort();
    let mut st = Stats::default();
    for (k, f) in files.iter().enumerate() {
        let bytes = std::fs::read(f).unwrap_or_default();
        let man: Value = serde_json::from_str(&std::fs::read_to_string(f.with_extension("json")).unwrap_or_default()).unwrap_or(Value::Null);
        st.evals += 1;
        st.count("cpython_archives", 1);
        let label = man["label"].as_str().unwrap_or("?").to_string();
        let case = json!({"kind":"cpython","label":label});
        let order = (4 << 40) + k as u64;
        let obs = match observe(&bytes, None, 1 << 22) {
            Ok(o) => o,
            Err(e) => {
                st.viol("cpython/rejected", format!("archive '{label}' written by CPython: {e:?}"), case, order);
                continue;
            }
        };
        st.distinct_hash(fnv(&bytes));
        let want = man["entries"].as_array().cloned().unwrap_or_default();
        if obs.entries.len() != want.len() {
            st.viol("cpython/count", format!("'{label}': {} entries reported, CPython wrote {}", obs.entries.len(), want.len()), case, order);
            continue;
        }
        if hex(&obs.comment) != man["comment"].as_str().unwrap_or("") {
            st.viol("cpython/archive-comment", format!("'{label}': comment differs"), case.clone(), order);
        }
        let mut ok = true;
        for (o, w) in obs.entries.iter().zip(&want) {
            let mut f = |field: &str, detail: String, st: &mut Stats| {
                ok = false;
                st.viol(format!("cpython/field/{field}"), format!("'{label}' entry {:?}: {detail}", o.name), case.clone(), order);
            };
            if o.name != w["name"].as_str().unwrap_or("") {
                f("name", format!("expected {:?}", w["name"]), st_ref(&mut st));
            }
            if o.size != w["size"].as_u64().unwrap_or(0) || o.crc as u64 != w["crc"].as_u64().unwrap_or(0) || o.csize != w["csize"].as_u64().unwrap_or(0) {
                f("sizes-crc", format!("size {} csize {} crc {:#x}; expected {} {} {:#x}", o.size, o.csize, o.crc, w["size"], w["csize"], w["crc"].as_u64().unwrap_or(0)), st_ref(&mut st));
            }
            if o.method as u64 != w["method"].as_u64().unwrap_or(0) {
                f("method", format!("method {} expected {}", o.method, w["method"]), st_ref(&mut st));
            }
            if o.date as u64 != w["date"].as_u64().unwrap_or(0) || o.time as u64 != w["time"].as_u64().unwrap_or(0) {
                f("timestamp", format!("({:#x},{:#x}) expected ({},{})", o.date, o.time, w["date"], w["time"]), st_ref(&mut st));
            }
            if w["ext_attr"].as_u64().unwrap_or(0) != 0 && o.mode.map(|m| m as u64) != w["mode"].as_u64() {
                f("unix_mode", format!("{:?} expected {}", o.mode, w["mode"]), st_ref(&mut st));
            }
            let wc = String::from_utf8_lossy(&crate::util::unhex(w["comment"].as_str().unwrap_or(""))).into_owned();
            // CPython writes comments as given bytes; the flag decides how the crate decodes them: compare only pure ASCII ones
            if wc.is_ascii() && o.comment != wc {
                f("comment", format!("{:?} expected {:?}", o.comment, wc), st_ref(&mut st));
            }
            if o.method == 14 {
                if o.content.is_ok() {
                    f("unsupported-method", "an LZMA entry was read instead of failing".into(), st_ref(&mut st));
                }
            } else {
                match (&o.content, w["content"].as_str()) {
                    (Ok(c), Some(h)) => {
                        if hex(c) != h {
                            f("content", format!("{} bytes read, differ from the original", c.len()), st_ref(&mut st));
                        }
                    }
                    (Ok(c), None) => {
                        if crate::reference::crc32::crc32(c) as u64 != w["crc"].as_u64().unwrap_or(0) || c.len() as u64 != w["size"].as_u64().unwrap_or(0) {
                            f("content", "large content differs (crc)".into(), st_ref(&mut st));
                        }
                    }
                    (Err(e), _) => f("content", format!("read failed: {e}"), st_ref(&mut st)),
                }
            }
        }
        st.class(if ok { "cpython-faithful" } else { "cpython-MISMATCH" });
    }
    let _ = std::fs::remove_dir_all(&dir);
    ctx.stats.merge(st);
}

fn st_ref(s: &mut Stats) -> &mut Stats {
    s
}

//! C20 — cloned archive handles are independent and usable in parallel.
//! (a) E-SEQ: every interleaving, at API-call granularity, of per-handle scripts over 2-3 cloned
//!     handles on one thread; oracle = the same script run alone on a fresh archive.
//! (c) Send / Sync of the archive handle, detected at run time.
//! (b) thread interleavings are explored by the separate loom harness (check-loom).

use crate::util::{guard, panic_site, par_for, Stats};
use crate::zipapi::*;
use crate::Args;
use serde_json::{json, Value};
use std::io::{Cursor, Read};
use std::marker::PhantomData;

// --- auto-trait probes (autoref-free inherent-const specialisation) ---------------------------
struct Probe<T>(PhantomData<T>);
trait Fallback {
    const SEND: bool = false;
    const SYNC: bool = false;
}
impl<T> Fallback for Probe<T> {}
impl<T: Send> Probe<T> {
    const SEND: bool = true;
}
struct ProbeSync<T>(PhantomData<T>);
trait FallbackSync {
    const SYNC: bool = false;
}
impl<T> FallbackSync for ProbeSync<T> {}
impl<T: Sync> ProbeSync<T> {
    const SYNC: bool = true;
}

#[derive(Clone, Copy, Debug, PartialEq)]
pub enum Op {
    Open(usize),
    Read(usize),
    ReadToEnd,
    DataStart,
    Meta,
    Close,
    OpenRaw(usize),
    ByName(usize),
    /// by_index_decrypt with the right password
    OpenPw(usize),
    /// by_index_decrypt with a wrong password
    OpenWrongPw(usize),
    /// this handle's own reader fails its k-th I/O call from now (once)
    FailNext(u64),
    /// file_names(), sorted
    Names,
    /// extract() into a fresh scratch directory of this handle's own; the observation is the result and what was created
    Extract,
}

/// Per-handle reader: an in-memory cursor whose next k-th I/O call can be made to fail once. Cloning it (which is what
/// `ZipArchive::clone` does) gives the clone its own, unarmed control block, registered for the harness to reach.
#[derive(Default)]
pub struct Ctl {
    calls: std::cell::Cell<u64>,
    fail_at: std::cell::Cell<Option<u64>>,
    /// the reader has gone dead for good (a dropped connection): every I/O call fails from now on
    dead: std::cell::Cell<bool>,
}
thread_local! {
    static LAST_CTL: std::cell::RefCell<Option<std::rc::Rc<Ctl>>> = const { std::cell::RefCell::new(None) };
}
pub struct FReader {
    cur: Cursor<Vec<u8>>,
    ctl: std::rc::Rc<Ctl>,
}
impl FReader {
    fn new(data: Vec<u8>) -> FReader {
        FReader { cur: Cursor::new(data), ctl: Default::default() }
    }
    fn point(&self) -> std::io::Result<()> {
        if self.ctl.dead.get() {
            return Err(std::io::Error::new(std::io::ErrorKind::BrokenPipe, "this handle's reader is dead"));
        }
        let n = self.ctl.calls.get();
        self.ctl.calls.set(n + 1);
        if self.ctl.fail_at.get() == Some(n) {
            self.ctl.fail_at.set(None);
            return Err(std::io::Error::new(std::io::ErrorKind::Other, "injected failure of this handle's reader"));
        }
        Ok(())
    }
}
impl Clone for FReader {
    fn clone(&self) -> FReader {
        let ctl: std::rc::Rc<Ctl> = Default::default();
        LAST_CTL.with(|l| *l.borrow_mut() = Some(ctl.clone()));
        FReader { cur: self.cur.clone(), ctl }
    }
}
impl Read for FReader {
    fn read(&mut self, buf: &mut [u8]) -> std::io::Result<usize> {
        self.point()?;
        self.cur.read(buf)
    }
}
impl std::io::Seek for FReader {
    fn seek(&mut self, pos: std::io::SeekFrom) -> std::io::Result<u64> {
        self.point()?;
        self.cur.seek(pos)
    }
}

type Ar = zip::ZipArchive<FReader>;
const PW: &[u8] = b"clone-pw";

/// One handle: the archive lives behind a raw pointer so that an open ZipFile (which borrows
/// it mutably) can be kept across steps of other handles.
struct Handle {
    ar: *mut Ar,
    file: Option<zip::read::ZipFile<'static>>,
    log: Vec<String>,
    ctl: Option<std::rc::Rc<Ctl>>,
}
impl Handle {
    fn new(ar: Ar) -> Handle {
        Handle { ar: Box::into_raw(Box::new(ar)), file: None, log: vec![], ctl: None }
    }
    /// a clone of `base`, with the control block of the clone's reader
    fn clone_of(base: &Ar) -> Handle {
        LAST_CTL.with(|l| *l.borrow_mut() = None);
        let a = base.clone();
        let ctl = LAST_CTL.with(|l| l.borrow_mut().take());
        let mut h = Handle::new(a);
        h.ctl = ctl;
        h
    }
    fn step(&mut self, op: Op, names: &[String]) {
        let obs = match op {
            Op::Open(i) | Op::OpenRaw(i) | Op::ByName(i) | Op::OpenPw(i) | Op::OpenWrongPw(i) => {
                self.file = None; // the previous borrow ends here
                // SAFETY: `self.ar` is a live Box; the only reference derived from it is the ZipFile
                // stored in `self.file`, which was just dropped.
                let ar: &'static mut Ar = unsafe { &mut *self.ar };
                let r = match op {
                    Op::Open(_) => ar.by_index(i),
                    Op::OpenRaw(_) => ar.by_index_raw(i),
                    Op::OpenPw(_) | Op::OpenWrongPw(_) => match ar.by_index_decrypt(i, if matches!(op, Op::OpenPw(_)) { PW } else { b"some other password" }) {
                        Ok(Ok(f)) => Ok(f),
                        Ok(Err(_)) => Err(zip::result::ZipError::InvalidArchive("<invalid password>")),
                        Err(e) => Err(e),
                    },
                    _ => ar.by_name(&names[i]),
                };
                match r {
                    Ok(f) => {
                        let s = format!("open({i}) -> {} size {} data_start {}", f.name(), f.size(), f.data_start());
                        self.file = Some(f);
                        s
                    }
                    Err(e) => format!("open({i}) -> Err({e})"),
                }
            }
            Op::Read(k) => match &mut self.file {
                Some(f) => {
                    let mut b = vec![0u8; k];
                    match f.read(&mut b) {
                        Ok(n) => format!("read({k}) -> {}", crate::util::hex(&b[..n])),
                        Err(e) => format!("read({k}) -> Err({e})"),
                    }
                }
                None => "read: no file".into(),
            },
            Op::ReadToEnd => match &mut self.file {
                Some(f) => {
                    let mut v = vec![];
                    match f.read_to_end(&mut v) {
                        Ok(_) => format!("read_to_end -> {} bytes fnv {:x}", v.len(), crate::util::fnv(&v)),
                        Err(e) => format!("read_to_end -> Err({e})"),
                    }
                }
                None => "read_to_end: no file".into(),
            },
            Op::DataStart => match &self.file {
                Some(f) => format!("data_start -> {} header_start {}", f.data_start(), f.header_start()),
                None => "data_start: no file".into(),
            },
            Op::Meta => match &self.file {
                Some(f) => format!("meta -> {:?} crc {:x} csize {} method {:?} mode {:?}", f.name(), f.crc32(), f.compressed_size(), f.compression(), f.unix_mode()),
                None => {
                    let ar: &Ar = unsafe { &*self.ar };
                    format!("archive -> len {} comment {:?} offset {}", ar.len(), ar.comment(), ar.offset())
                }
            },
            Op::Close => {
                self.file = None;
                "close".into()
            }
            Op::Names => {
                let ar: &Ar = unsafe { &*self.ar };
                let mut v: Vec<&str> = ar.file_names().collect();
                v.sort();
                format!("file_names -> {v:?}")
            }
            Op::Extract => {
                self.file = None;
                // SAFETY: as for the opens above
                let ar: &'static mut Ar = unsafe { &mut *self.ar };
                static NEXT: std::sync::atomic::AtomicU64 = std::sync::atomic::AtomicU64::new(0);
                let base = if std::path::Path::new("/dev/shm").is_dir() { std::path::PathBuf::from("/dev/shm") } else { std::env::temp_dir() };
                let dir = base.join(format!("zipmc-c20-{}-{}", std::process::id(), NEXT.fetch_add(1, std::sync::atomic::Ordering::Relaxed)));
                let _ = std::fs::remove_dir_all(&dir);
                let r = std::fs::create_dir_all(&dir).map_err(|e| format!("scratch: {e}")).and_then(|_| ar.extract(&dir).map_err(|e| e.to_string()));
                let mut listing = vec![];
                let mut stack = vec![dir.clone()];
                while let Some(d) = stack.pop() {
                    if let Ok(rd) = std::fs::read_dir(&d) {
                        for e in rd.flatten() {
                            let p = e.path();
                            let rel = p.strip_prefix(&dir).unwrap_or(&p).to_string_lossy().into_owned();
                            match e.metadata() {
                                Ok(m) if m.is_dir() => {
                                    listing.push(format!("{rel}/"));
                                    stack.push(p);
                                }
                                Ok(m) => listing.push(format!("{rel}:{}", m.len())),
                                Err(_) => listing.push(format!("{rel}:?")),
                            }
                        }
                    }
                }
                listing.sort();
                let _ = std::fs::remove_dir_all(&dir);
                format!("extract -> {:?}; created {listing:?}", r)
            }
            Op::FailNext(k) => match &self.ctl {
                Some(c) => {
                    c.fail_at.set(Some(c.calls.get() + k));
                    format!("fail-next({k})")
                }
                None => "fail-next: no control block (reader was not cloned?)".into(),
            },
        };
        self.log.push(obs);
    }
}
impl Drop for Handle {
    fn drop(&mut self) {
        self.file = None;
        // SAFETY: created by Box::into_raw in `new`, no outstanding borrows.
        unsafe { drop(Box::from_raw(self.ar)) };
    }
}

pub fn scripts() -> Vec<Vec<Op>> {
    use Op::*;
    vec![
        vec![Open(0), Read(5), Read(7), ReadToEnd],
        vec![Open(1), ReadToEnd, Close, Open(1)],
        vec![Open(2), Read(3), Open(0), ReadToEnd],
        vec![Meta, Open(1), DataStart, Read(1000)],
        vec![OpenRaw(1), Read(4), DataStart, ReadToEnd],
        vec![ByName(2), ReadToEnd, Read(1), Meta],
        vec![Open(0), Close, Open(2), Read(64)],
        vec![Open(3), DataStart, ReadToEnd, Meta],
        vec![Open(1), Read(1), Read(1), Read(1)],
        vec![OpenRaw(2), ReadToEnd, Open(2), ReadToEnd],
        vec![Open(9), Meta, ByName(0), ReadToEnd],
        vec![Open(2), Read(0), Read(2), Close],
        // the ZipCrypto entry: undecoded and decrypting opens side by side
        vec![OpenRaw(4), DataStart, ReadToEnd, DataStart],
        vec![OpenPw(4), DataStart, ReadToEnd, Meta],
        vec![OpenPw(4), Read(3), OpenRaw(4), DataStart],
        vec![Open(4), OpenPw(4), Read(9), DataStart],
        // a transient failure of ONE handle's reader inside its first open of an entry nobody has opened yet
        vec![FailNext(0), Open(1), Open(1), ReadToEnd],
        vec![FailNext(1), Open(1), DataStart, ReadToEnd],
        vec![FailNext(2), Open(3), Open(3), ReadToEnd],
        vec![FailNext(3), Open(1), Meta, Open(1)],
        vec![FailNext(4), OpenRaw(2), OpenRaw(2), ReadToEnd],
        vec![Open(0), FailNext(1), Read(9), ReadToEnd],
        // entries without data (an empty file, a directory): decoding and undecoded opens must report the same offsets
        vec![OpenRaw(5), DataStart, ReadToEnd, Meta],
        vec![Open(5), DataStart, ReadToEnd, Close],
        vec![ByName(6), DataStart, OpenRaw(6), DataStart],
        vec![Open(6), Meta, Open(5), DataStart],
        // the AES entry: right and wrong passwords side by side (what one handle derived must not help another)
        vec![OpenPw(7), Read(5), ReadToEnd, Meta],
        vec![OpenWrongPw(7), Read(5), OpenWrongPw(4), Read(5)],
        vec![OpenWrongPw(7), Close, OpenPw(7), ReadToEnd],
        vec![Open(7), OpenRaw(7), DataStart, ReadToEnd],
    ]
}

pub fn archive(seed: u64) -> (Vec<u8>, Vec<String>) {
    archive_layout(seed, 0)
}

/// layout 0: central directory in file order; 1: central directory reversed (entry k-1 of the directory lies BEHIND entry k
/// in the file); 2: rotated by three records. by_index / by_name go by directory position, `names` is in that order.
pub fn archive_layout(seed: u64, layout: u8) -> (Vec<u8>, Vec<String>) {
    use crate::reference::zipbuild::{build, extra_block, ESpec, Enc, Spec};
    let mut r = crate::util::Rng(seed ^ 0x20);
    let e = |name: &str, method: u16, content: Vec<u8>| ESpec { name: name.as_bytes().to_vec(), method, content, made_by: (3 << 8) | 20, ext_attr: 0o100644 << 16, ..Default::default() };
    // an independent builder lays the archive out (the crate's writer cannot produce AES entries): stored, deflated,
    // zstd with a local ZIP64 block, bzip2 with local-only extra data, ZipCrypto, an empty file, a directory, AE-2
    let spec = Spec {
        entries: vec![
            e("stored", 0, r.bytes(40)),
            e("deflated", 8, content_class(3, seed)),
            ESpec { zip64_local: true, ..e("zstd", 93, content_class(3, seed ^ 1)) },
            ESpec { local_extra: extra_block(0xbeef, b"only local"), ..e("with-extra", 12, r.bytes(25)) },
            ESpec { enc: Enc::ZipCrypto { pw: PW.to_vec(), infozip: false }, ..e("crypto", 8, content_class(3, seed ^ 2)) },
            e("empty", 0, vec![]),
            ESpec { ext_attr: (0o040755 << 16) | 0x10, ..e("dir/", 0, vec![]) },
            ESpec { enc: Enc::Aes { version: 2, strength: 3, pw: PW.to_vec(), salt_seed: 7 }, ..e("aes", 8, content_class(3, seed ^ 3)) },
        ],
        comment: b"shared".to_vec(),
        ..Default::default()
    };
    let mut spec = spec;
    let n = spec.entries.len();
    let order: Vec<usize> = match layout {
        1 => (0..n).rev().collect(),
        2 => (0..n).map(|i| (i + 3) % n).collect(),
        _ => (0..n).collect(),
    };
    if layout != 0 {
        spec.cd_order = Some(order.clone());
    }
    let (bytes, _) = build(&spec);
    let names: Vec<String> = order.iter().map(|&i| String::from_utf8_lossy(&spec.entries[i].name).into_owned()).collect();
    (bytes, names)
}

/// A second archive for what the first cannot show: the same name twice (lookups by name go to the later record), an absent
/// name (index 6 of `names`), and a ZipCrypto entry in the middle at which extract() - which has no password - stops.
pub fn archive_dup(seed: u64) -> (Vec<u8>, Vec<String>) {
    use crate::reference::zipbuild::{build, ESpec, Enc, Spec};
    let e = |name: &str, method: u16, content: Vec<u8>| ESpec { name: name.as_bytes().to_vec(), method, content, made_by: (3 << 8) | 20, ext_attr: 0o100644 << 16, ..Default::default() };
    let spec = Spec {
        entries: vec![
            e("a", 0, b"first entry".to_vec()),
            e("dup", 8, content_class(3, seed ^ 5)),
            e("sub/b", 0, b"entry in a directory".to_vec()),
            e("dup", 0, b"the later record of the same name".to_vec()),
            ESpec { enc: Enc::ZipCrypto { pw: PW.to_vec(), infozip: false }, ..e("locked", 8, content_class(3, seed ^ 6)) },
            e("c", 8, content_class(3, seed ^ 7)),
        ],
        ..Default::default()
    };
    let mut names: Vec<String> = spec.entries.iter().map(|x| String::from_utf8_lossy(&x.name).into_owned()).collect();
    names.push("no such entry".into());
    (build(&spec).0, names)
}

pub fn scripts_dup() -> Vec<Vec<Op>> {
    use Op::*;
    vec![
        vec![ByName(6), ByName(1), ReadToEnd, Meta],
        vec![ByName(1), ReadToEnd, ByName(3), Meta],
        vec![ByName(2), ByName(1), Read(5), Close],
        vec![Names, ByName(1), Meta, ByName(5)],
        vec![Extract, Open(0), ReadToEnd, Extract],
        vec![Open(1), Read(5), Extract, Meta],
        vec![ByName(5), ReadToEnd, Extract, Names],
        vec![Open(3), ReadToEnd, ByName(6), ByName(3)],
    ]
}

/// layout number under which replay files name the second archive and script set
pub const LAYOUT_DUP: u8 = 100;

/// All interleavings of k sequences with the given lengths, as lists of handle indices.
fn interleavings(lens: &[usize]) -> Vec<Vec<u8>> {
    fn rec(left: &mut Vec<usize>, cur: &mut Vec<u8>, out: &mut Vec<Vec<u8>>) {
        if left.iter().all(|x| *x == 0) {
            out.push(cur.clone());
            return;
        }
        for h in 0..left.len() {
            if left[h] > 0 {
                left[h] -= 1;
                cur.push(h as u8);
                rec(left, cur, out);
                cur.pop();
                left[h] += 1;
            }
        }
    }
    let mut out = vec![];
    rec(&mut lens.to_vec(), &mut vec![], &mut out);
    out
}

fn alone(bytes: &[u8], script: &[Op], names: &[String]) -> Vec<String> {
    let base = zip::ZipArchive::new(FReader::new(bytes.to_vec())).expect("archive");
    let mut h = Handle::clone_of(&base);
    drop(base);
    for op in script {
        h.step(*op, names);
    }
    h.log.clone()
}

fn check_tuple(bytes: &[u8], names: &[String], scr: &[&Vec<Op>], ils: &[Vec<u8>], solo: &[&Vec<String>], st: &mut Stats, order: u64, ids: &[usize]) {
    for (ii, il) in ils.iter().enumerate() {
        st.evals += 1;
        let r = guard(|| {
            let base = zip::ZipArchive::new(FReader::new(bytes.to_vec())).expect("archive");
            let mut hs: Vec<Handle> = (0..scr.len()).map(|_| Handle::clone_of(&base)).collect();
            drop(base);
            let mut pc = vec![0usize; scr.len()];
            for &h in il {
                let h = h as usize;
                let op = scr[h][pc[h]];
                pc[h] += 1;
                hs[h].step(op, names);
            }
            hs.iter().map(|h| h.log.clone()).collect::<Vec<_>>()
        });
        let case = || json!({"scripts": ids, "interleaving": il, "layout": LAYOUT.with(|l| l.get())});
        match r {
            Err(p) => {
                st.class("PANIC");
                st.viol(format!("clones/panic/{}", panic_site(&p)), format!("scripts {ids:?}, interleaving {il:?}: {p}"), case(), order + ii as u64);
            }
            Ok(logs) => {
                let mut same = true;
                for (h, log) in logs.iter().enumerate() {
                    if log != solo[h] {
                        same = false;
                        let k = log.iter().zip(solo[h].iter()).position(|(a, b)| a != b).unwrap_or(0);
                        st.viol(
                            "clones/handle-observes-interference",
                            format!("scripts {ids:?}, interleaving {il:?}: handle {h} step {k} observed '{}', alone it observes '{}'", log.get(k).cloned().unwrap_or_default(), solo[h].get(k).cloned().unwrap_or_default()),
                            case(),
                            order + ii as u64,
                        );
                        break;
                    }
                }
                st.class(if same { "same-as-alone" } else { "INTERFERENCE" });
            }
        }
    }
}

thread_local! {
    /// layout of the archive the current tuple runs on (recorded in replay files)
    static LAYOUT: std::cell::Cell<u8> = const { std::cell::Cell::new(0) };
}

fn replay(case: &Value, st: &mut Stats, seed: u64) {
    let layout = case["layout"].as_u64().unwrap_or(0) as u8;
    LAYOUT.with(|l| l.set(layout));
    let (bytes, names) = if layout == LAYOUT_DUP { archive_dup(seed) } else { archive_layout(seed, layout) };
    let all = if layout == LAYOUT_DUP { scripts_dup() } else { scripts() };
    let ids: Vec<usize> = case["scripts"].as_array().map(|a| a.iter().map(|x| x.as_u64().unwrap_or(0) as usize).collect()).unwrap_or_default();
    let il: Vec<u8> = case["interleaving"].as_array().map(|a| a.iter().map(|x| x.as_u64().unwrap_or(0) as u8).collect()).unwrap_or_default();
    let scr: Vec<&Vec<Op>> = ids.iter().map(|i| &all[*i]).collect();
    let solos: Vec<Vec<String>> = scr.iter().map(|s| alone(&bytes, s, &names)).collect();
    let solo: Vec<&Vec<String>> = solos.iter().collect();
    check_tuple(&bytes, &names, &scr, &[il], &solo, st, 0, &ids);
}

pub fn run(args: &Args) -> i32 {
    let mut ctx = crate::new_ctx("C20", args);
    let seed = args.seed;
    if let Some(path) = &args.replay {
        return crate::props::replay_file(ctx, path, |c, st| replay(c, st, seed));
    }
    let thorough = args.tier.thorough();
    let (bytes, names) = archive(seed);
    let all = scripts();
    let n = all.len();
    let il2 = interleavings(&[4, 4]);
    let il3 = interleavings(&[4, 4, 4]);
    let triple_ids: Vec<usize> = if thorough { vec![0, 1, 2, 3, 4, 5, 12, 13, 14, 16, 17, 19, 22, 23] } else { vec![0, 1, 2, 12, 13, 16] };
    // (the AES scripts cost a key derivation per open: they take part in all pairs, not in the triples)
    let triples = triple_ids.len();
    ctx.rule = format!(
        "E-SEQ at API-call granularity on one thread: handles are archive.clone() (each with its own cloned Cursor) of one 8-entry archive laid out by the independent builder (stored, deflated, zstd with a local ZIP64 block, bzip2 with local-only extra data, ZipCrypto+deflated, an empty file, a directory, AE-2+deflated). {} scripts of 4 operations over {{by_index, by_index_raw, by_name, by_index_decrypt with the right and with a wrong password, a one-shot failure of the handle's own reader at its k-th next I/O call, read(k), read_to_end, data_start/header_start, metadata, close, reopen, out-of-range index}}. \
         ALL {} interleavings of every ordered pair of scripts ({} pairs) and ALL {} interleavings of every ordered triple over {} of the scripts ({} triples). Oracle: each handle's observation log equals that of its script run alone on a freshly opened archive. \
         Plus run-time Send/Sync probes of ZipArchive<Cursor<Vec<u8>>>, ZipArchive<std::fs::File> and &ZipArchive. Thread-level interleavings: separate loom harness (2 threads x 2 entries, 3 threads x 1 entry; all schedules incl. Relaxed visibility). distinct_nontrivial = distinct (script tuple, interleaving) executions (counted).",
        n,
        il2.len(),
        n * n,
        il3.len(),
        triples,
        triples * triples * triples
    );
    ctx.assume("clones share only Arc<Shared> (metadata + the lazily stored data_start); the loom harness covers real threads");
    ctx.uncovered("free-running OS threads with random yields (sampling); more than 3 handles; scripts longer than 4 operations");
    ctx.bound("scripts", json!(all.iter().map(|s| format!("{s:?}")).collect::<Vec<_>>()));

    // (c) auto traits
    let send_cursor = <Probe<zip::ZipArchive<Cursor<Vec<u8>>>>>::SEND;
    let sync_cursor = <ProbeSync<zip::ZipArchive<Cursor<Vec<u8>>>>>::SYNC;
    let send_file = <Probe<zip::ZipArchive<std::fs::File>>>::SEND;
    let sync_file = <ProbeSync<zip::ZipArchive<std::fs::File>>>::SYNC;
    ctx.stats.evals += 4;
    for (ok, what) in [(send_cursor, "ZipArchive<Cursor<Vec<u8>>>: Send"), (sync_cursor, "ZipArchive<Cursor<Vec<u8>>>: Sync"), (send_file, "ZipArchive<File>: Send"), (sync_file, "ZipArchive<File>: Sync")] {
        if ok {
            ctx.stats.class("auto-trait-holds");
        } else {
            ctx.stats.viol(format!("auto-trait/{what}"), format!("{what} does not hold although the reader type is Send + Sync"), json!({"probe": what}), 0);
        }
    }
    // sanity of the probe itself: Rc is neither
    if <Probe<std::rc::Rc<u8>>>::SEND || <ProbeSync<std::cell::Cell<u8>>>::SYNC {
        ctx.machinery("auto-trait probe is broken (reports Send/Sync for Rc/Cell)");
    }

    let solos: Vec<Vec<String>> = all.iter().map(|s| alone(&bytes, s, &names)).collect();
    // determinism of the solo runs
    for (i, s) in all.iter().enumerate() {
        if alone(&bytes, s, &names) != solos[i] {
            ctx.machinery(format!("script {i} is not deterministic when run alone"));
        }
        ctx.determinism_reruns += 1;
    }
    let (bytes_r, names_r, all_r, solos_r, il2_r, il3_r) = (&bytes, &names, &all, &solos, &il2, &il3);
    let s = par_for((n * n) as u64, 1, |t, st| {
        let (a, b) = ((t as usize) / n, (t as usize) % n);
        check_tuple(bytes_r, names_r, &[&all_r[a], &all_r[b]], il2_r, &[&solos_r[a], &solos_r[b]], st, t << 32, &[a, b]);
        if t == 17 {
            st.sample(json!({"scripts": [format!("{:?}", all_r[a]), format!("{:?}", all_r[b])], "interleavings": il2_r.len()}));
        }
    });
    ctx.stats.merge(s);
    let m = triples;
    let s = par_for((m * m * m) as u64, 1, |t, st| {
        let t = t as usize;
        let (a, b, c) = (triple_ids[t / (m * m)], triple_ids[(t / m) % m], triple_ids[t % m]);
        check_tuple(bytes_r, names_r, &[&all_r[a], &all_r[b], &all_r[c]], il3_r, &[&solos_r[a], &solos_r[b], &solos_r[c]], st, (1 << 60) | (t as u64) << 32, &[a, b, c]);
    });
    ctx.stats.merge(s);
    // the second archive (a name twice, an absent name, an entry extract() stops at) under its own scripts: every ordered pair,
    // every interleaving; thorough: every ordered triple over five of them
    {
        let (bytes2, names2) = archive_dup(seed);
        let all2 = scripts_dup();
        let n2 = all2.len();
        let solos2: Vec<Vec<String>> = all2.iter().map(|s| alone(&bytes2, s, &names2)).collect();
        for (i, s) in all2.iter().enumerate() {
            if alone(&bytes2, s, &names2) != solos2[i] {
                ctx.machinery(format!("second-archive script {i} is not deterministic when run alone"));
            }
            ctx.determinism_reruns += 1;
        }
        let (b2, nm2, a2, so2) = (&bytes2, &names2, &all2, &solos2);
        let s = par_for((n2 * n2) as u64, 1, |t, st| {
            LAYOUT.with(|l| l.set(LAYOUT_DUP));
            let (a, b) = ((t as usize) / n2, (t as usize) % n2);
            check_tuple(b2, nm2, &[&a2[a], &a2[b]], il2_r, &[&so2[a], &so2[b]], st, (3 << 60) | t << 32, &[a, b]);
            LAYOUT.with(|l| l.set(0));
        });
        ctx.stats.merge(s);
        if thorough {
            let ids3 = [0usize, 1, 3, 4, 6];
            let m3 = ids3.len();
            let s = par_for((m3 * m3 * m3) as u64, 1, |t, st| {
                LAYOUT.with(|l| l.set(LAYOUT_DUP));
                let t = t as usize;
                let (a, b, c) = (ids3[t / (m3 * m3)], ids3[(t / m3) % m3], ids3[t % m3]);
                check_tuple(b2, nm2, &[&a2[a], &a2[b], &a2[c]], il3_r, &[&so2[a], &so2[b], &so2[c]], st, (3 << 60) | (1 << 59) | (t as u64) << 32, &[a, b, c]);
                LAYOUT.with(|l| l.set(0));
            });
            ctx.stats.merge(s);
        }
        ctx.bound("second_archive", json!({"entries": names2, "scripts": all2.iter().map(|s| format!("{s:?}")).collect::<Vec<_>>(), "tuples": "all ordered pairs x all 70 interleavings; thorough: all ordered triples over 5 scripts x all 34650 interleavings", "operations_added": ["file_names()", "extract() into the handle's own scratch directory (stops at the ZipCrypto entry)", "by_name of a name recorded twice", "by_name of an absent name"]}));
    }
    // Clone::clone_from: a handle whose own reader has died is refreshed from a live handle of the same archive (and of another
    // archive): afterwards it is a clone like any other - its reader is the source's, cloned
    {
        ctx.stats.evals += 2;
        for same_archive in [true, false] {
            let r = guard(|| -> Result<(), String> {
                let a = zip::ZipArchive::new(FReader::new(bytes.clone())).map_err(|e| e.to_string())?;
                let other_bytes = archive_layout(seed, 1).0;
                LAST_CTL.with(|l| *l.borrow_mut() = None);
                let mut b = if same_archive { a.clone() } else { zip::ZipArchive::new(FReader::new(other_bytes)).map_err(|e| e.to_string())?.clone() };
                let ctl = LAST_CTL.with(|l| l.borrow_mut().take()).ok_or("no control block")?;
                ctl.dead.set(true);
                if b.by_index(0).is_ok() {
                    return Err("harness: the dead reader still works".into());
                }
                b.clone_from(&a);
                let mut want = vec![];
                a.clone().by_index(1).map_err(|e| e.to_string())?.read_to_end(&mut want).map_err(|e| e.to_string())?;
                let mut got = vec![];
                b.by_index(1).map_err(|e| format!("by_index on the refreshed handle: {e}"))?.read_to_end(&mut got).map_err(|e| format!("read on the refreshed handle: {e}"))?;
                if got != want || b.len() != a.len() || b.comment() != a.comment() {
                    return Err("the refreshed handle reports other content / metadata than its source".into());
                }
                Ok(())
            });
            match r {
                Ok(Ok(())) => ctx.stats.class("clone_from-gives-a-working-clone"),
                Ok(Err(e)) => ctx.stats.viol("clones/clone_from", format!("a handle with a dead reader refreshed by clone_from (source: {} archive): {e}", if same_archive { "a handle of the same" } else { "a handle of another" }), json!({"clone_from": same_archive}), 0),
                Err(p) => ctx.stats.viol(format!("clones/panic/{}", panic_site(&p)), p, json!({"clone_from": same_archive}), 0),
            }
        }
    }
    // the same pairs on archives whose central directory is not in file order (reversed; rotated by three): what a handle
    // observes for entry k must not depend on which other entries any handle has located before
    for layout in [1u8, 2] {
        let (bytes_l, names_l) = archive_layout(seed, layout);
        let ids: Vec<usize> = (0..n).filter(|i| !all[*i].iter().any(|o| matches!(o, Op::OpenPw(7) | Op::OpenWrongPw(7)))).collect();
        let solos_l: Vec<Vec<String>> = all.iter().map(|s| alone(&bytes_l, s, &names_l)).collect();
        let m = ids.len();
        let (bytes_lr, names_lr, solos_lr, ids_r) = (&bytes_l, &names_l, &solos_l, &ids);
        let s = par_for((m * m) as u64, 1, |t, st| {
            LAYOUT.with(|l| l.set(layout));
            let (a, b) = (ids_r[(t as usize) / m], ids_r[(t as usize) % m]);
            check_tuple(bytes_lr, names_lr, &[&all_r[a], &all_r[b]], il2_r, &[&solos_lr[a], &solos_lr[b]], st, (2 << 60) | ((layout as u64) << 56) | t << 32, &[a, b]);
            LAYOUT.with(|l| l.set(0));
        });
        ctx.stats.merge(s);
    }
    ctx.bound("archive_layouts", json!(["central directory in file order (all pairs, triples)", "central directory reversed (all pairs of the scripts without AES opens)", "central directory rotated by three records (same)"]));
    ctx.stats.sample(json!({"solo_log_of_script_0": solos[0]}));
    // loom harness result, if it ran
    let loom_ev = format!("{}/evidence/C20-loom.json", crate::util::verif_root());
    if let Ok(t) = std::fs::read_to_string(&loom_ev) {
        if let Ok(v) = serde_json::from_str::<Value>(&t) {
            ctx.bound("loom", v);
        }
    }
    ctx.distinct_counted = ctx.stats.evals;
    ctx.stats.states = ctx.stats.evals;
    ctx.stats.transitions = ctx.stats.evals * 12;
    ctx.stats.traces = ctx.stats.evals;
    ctx.finish()
}

//! C14 — raw copy transfers an entry bit-exactly without recompression.
//! E-SEQ over interleavings of raw copies and ordinary entries: all sequences of length <= L
//! over {ordinary file, raw copy of each source entry (both ways of opening it), renamed copy}.

use crate::reference::zipbuild::{build, extra_block, Dd, ESpec, Spec};
use crate::reference::zipparse::{self, Opts, PEntry};
use crate::util::{fnv, panic_site, par_for, Stats};
use crate::zipapi::*;
use crate::Args;
use serde_json::{json, Value};

pub struct Src {
    pub bytes: Vec<u8>,
    pub parsed: zipparse::Parsed,
    pub obs: ObsArchive,
}

pub fn sources(seed: u64) -> Vec<Src> {
    // source 0: written by the crate, every method x {min, default, max} level x content class
    let mls: [(u16, Option<i32>); 10] = [(0, None), (8, Some(0)), (8, None), (8, Some(9)), (12, Some(1)), (12, None), (12, Some(9)), (93, Some(-7)), (93, None), (93, Some(22))];
    let mut calls = vec![Call::SetComment(b"source".to_vec())];
    let mut k = 0u32;
    for (m, l) in mls {
        for c in 0..5 {
            let opts = FOpts { method: m, level: l, date: 0x5821 + (k as u16 % 7), time: 0x6000 + k as u16, perm: [None, Some(0o755), Some(0o600), Some(0)][k as usize % 4], large: k % 9 == 8, password: None };
            calls.push(Call::StartFile { name: format!("m{m}-l{}-c{c}", l.map_or("d".to_string(), |x| x.to_string())), opts });
            calls.push(Call::Write(content_class(c, seed)));
            k += 1;
        }
    }
    // contents whose compressed form is exactly as long as they are
    for (m, c) in neutral_contents() {
        calls.push(Call::StartFile { name: format!("neutral-m{m}"), opts: FOpts::m(m) });
        calls.push(Call::Write(c));
    }
    calls.push(Call::AddDir { name: "adir".into(), opts: FOpts { perm: Some(0o700), ..FOpts::m(0) } });
    calls.push(Call::AddSymlink { name: "alink".into(), target: "adir".into(), opts: FOpts::m(0) });
    calls.push(Call::Finish);
    let (r, b0) = exec(&calls, &[]);
    assert!(r.iter().all(|x| x.is_ok()));
    // source 1: other producers' layouts
    let c = content_class(3, seed);
    let e = |name: &[u8], m: u16| ESpec { name: name.to_vec(), method: m, content: c.clone(), time: 0x7123, date: 0x4a21, ..Default::default() };
    let spec = Spec {
        entries: vec![
            ESpec { dd: Dd::Sig32, ..e(b"dd-deflated", 8) },
            ESpec { dd: Dd::NoSig32, ..e(b"dd-stored", 0) },
            ESpec { raw_payload: Some(b"\x5d\0\0\x80\0opaque lzma bytes".to_vec()), content: vec![], crc_override: Some(0xdeadbeef), ..e(b"method14", 14) },
            ESpec { made_by: 20, ext_attr: 0x21, ..e(b"DOS.TXT", 8) },
            ESpec { made_by: (3 << 8) | 20, ext_attr: 0, ..e(b"no-attr", 0) },
            ESpec { content: vec![], ..e(b"empty", 8) },
            ESpec { zip64_local: true, zip64_central: 7, ..e(b"zip64-fields", 93) },
            ESpec { utf8: true, comment: b"fc".to_vec(), central_extra: extra_block(0x7777, b"ce"), local_extra: extra_block(0x6666, b"le"), ext_attr: 0o104755 << 16, ..e("ü-name".as_bytes(), 12) },
            ESpec { ext_attr: 0o040755 << 16 | 0x10, content: vec![], ..e(b"bdir/", 0) },
            // names that look like directories on entries that are not plain empty stored records: a jar-style folder
            // (deflated, two compressed bytes), a folder name with real content, a file whose name ends in a backslash
            ESpec { ext_attr: 0o040755 << 16 | 0x10, content: vec![], ..e(b"assets/", 8) },
            ESpec { ..e(b"payload/", 8) },
            ESpec { ..e(b"blob\\", 0) },
        ],
        prefix: vec![0x5a; 30],
        ..Default::default()
    };
    let b1 = build(&spec).0;
    // source 2: one deflated entry that claims 5 GiB + 17 bytes through ZIP64 fields (9 stored bytes): a raw copy never
    // decodes, so the claim must travel into the copy's local header and central record alike
    let b2 = crate::props::c08::claimed_size_source((5u64 << 30) + 17);
    // source 3: the central directory lists the entries in another order than they lie in the file (and with gaps)
    let spec3 = Spec {
        entries: vec![
            ESpec { ..e(b"one.bin", 0) },
            ESpec { gap_before: 5, ..e(b"two.bin", 8) },
            ESpec { ..e(b"three.bin", 12) },
            ESpec { gap_before: 1, content: content_class(4, seed), ..e(b"four.bin", 93) },
        ],
        cd_order: Some(vec![3, 1, 0, 2]),
        gap_before_cd: 3,
        ..Default::default()
    };
    let b3 = build(&spec3).0;
    [b0, b1, b2, b3]
        .into_iter()
        .map(|b| {
            let parsed = zipparse::parse(&b, &Opts::lenient()).expect("source does not parse");
            let obs = observe(&b, None, 1 << 22).expect("source unreadable");
            Src { bytes: b, parsed, obs }
        })
        .collect()
}

#[derive(Clone)]
pub enum Op {
    /// a start_file call whose name is one byte too long for the format: refused, and nothing else may change
    Rejected,
    Normal(u8),
    Copy { src: usize, idx: usize, raw_open: bool, rename: Option<String> },
}

pub fn alphabet(srcs: &[Src], reduced: bool) -> Vec<Op> {
    let mut v = vec![Op::Normal(0), Op::Rejected];
    let renames = ["r".to_string(), "ü/☃".to_string(), "n".repeat(255)];
    for (si, s) in srcs.iter().enumerate() {
        for (i, e) in s.parsed.entries.iter().enumerate() {
            if reduced && si == 0 && !(i % 5 == 3 || i % 5 == 0 && i % 10 == 0 || i >= 50) {
                continue;
            }
            let supported = matches!(e.method, 0 | 8 | 12 | 93);
            if supported {
                v.push(Op::Copy { src: si, idx: i, raw_open: false, rename: None });
            }
            v.push(Op::Copy { src: si, idx: i, raw_open: true, rename: None });
            if si == 1 || si == 3 || i % 17 == 3 {
                v.push(Op::Copy { src: si, idx: i, raw_open: !supported || i % 2 == 0, rename: Some(renames[i % 3].clone()) });
            }
        }
    }
    v
}

fn op_json(o: &Op) -> Value {
    match o {
        Op::Normal(k) => json!({"normal": k}),
        Op::Rejected => json!({"rejected": true}),
        Op::Copy { src, idx, raw_open, rename } => json!({"copy": [src, idx], "raw_open": raw_open, "rename": rename}),
    }
}
fn op_from(v: &Value) -> Op {
    if let Some(k) = v["normal"].as_u64() {
        Op::Normal(k as u8)
    } else if v["rejected"].as_bool() == Some(true) {
        Op::Rejected
    } else {
        Op::Copy { src: v["copy"][0].as_u64().unwrap_or(0) as usize, idx: v["copy"][1].as_u64().unwrap_or(0) as usize, raw_open: v["raw_open"].as_bool().unwrap_or(false), rename: v["rename"].as_str().map(|s| s.to_string()) }
    }
}

pub fn check_seq(ops: &[Op], srcs: &[Src], src_bytes: &[Vec<u8>], seed: u64, st: &mut Stats, order: u64) {
    check_seq_io(ops, srcs, src_bytes, seed, st, order, 0, 0)
}

/// `sink_chunk` / `src_chunk`: the destination accepts / the source delivers at most that many bytes per call (0 = unlimited)
pub fn check_seq_io(ops: &[Op], srcs: &[Src], src_bytes: &[Vec<u8>], seed: u64, st: &mut Stats, order: u64, sink_chunk: usize, src_chunk: usize) {
    st.evals += 1;
    let case = || json!({"ops": ops.iter().map(op_json).collect::<Vec<_>>(), "sink_chunk": sink_chunk, "src_chunk": src_chunk});
    let normal_content = content_class(2, seed);
    let mut calls = vec![];
    for (k, o) in ops.iter().enumerate() {
        match o {
            Op::Normal(_) => {
                calls.push(Call::StartFile { name: format!("normal-{k}"), opts: FOpts { perm: Some(0o640), ..FOpts::m(if k % 2 == 0 { 8 } else { 0 }) } });
                calls.push(Call::Write(normal_content.clone()));
            }
            Op::Copy { src, idx, raw_open, rename } => calls.push(Call::RawCopy { src: *src, idx: *idx, rename: rename.clone(), raw_open: *raw_open }),
            Op::Rejected => calls.push(Call::StartFile { name: "n".repeat(65536), opts: FOpts::m(8) }),
        }
    }
    calls.push(Call::Finish);
    let (res, bytes) = if sink_chunk == 0 && src_chunk == 0 { exec(&calls, src_bytes) } else { exec_chunked(&calls, src_bytes, sink_chunk, src_chunk) };
    // the over-long name must be refused (C02 judges that); if it was accepted the sequence says nothing about copies
    let is_rejected_call = |c: &Call| matches!(c, Call::StartFile { name, .. } if name.len() > 65535);
    if calls.iter().zip(&res).any(|(c, r)| is_rejected_call(c) && r.is_ok()) {
        st.class("over-long-name-accepted(C02)");
        return;
    }
    let ops_all = ops;
    let kept: Vec<Op> = ops.iter().filter(|o| !matches!(o, Op::Rejected)).cloned().collect();
    let ops: &[Op] = &kept;
    // entry k of the archive belongs to kept op k; `k` in the names of ordinary entries is the position in the full list
    let pos: Vec<usize> = ops_all.iter().enumerate().filter(|(_, o)| !matches!(o, Op::Rejected)).map(|(i, _)| i).collect();
    if let Some((c, r)) = calls.iter().zip(&res).find(|(c, r)| !r.is_ok() && !(is_rejected_call(c) && r.is_err())) {
        let kind = if r.is_panic() { "panic" } else { "call-failed" };
        st.class("CALL-FAILED");
        st.viol(format!("rawcopy/{kind}/{}/{}", c.opname(), panic_site(&r.show())), format!("{} returned {} in sequence {:?}", c.opname(), r.show(), ops.iter().map(op_json).collect::<Vec<_>>()), case(), order);
        return;
    }
    st.distinct_hash(fnv(&bytes));
    // structural validity of the destination is C02's statement: counted here, judged there
    if zipparse::validate(&bytes, &Opts::strict()).is_err() {
        st.count("note_destination_not_strictly_valid(C02)", 1);
    }
    let parsed = match zipparse::parse(&bytes, &Opts::lenient()) {
        Ok(p) => p,
        Err(e) => {
            st.class("UNPARSABLE");
            st.viol(format!("rawcopy/unparsable/{}", e.clause), format!("destination archive cannot be parsed independently: {e}"), case(), order);
            return;
        }
    };
    let obs = match observe(&bytes, None, 1 << 22) {
        Ok(o) => o,
        Err(e) => {
            st.viol("rawcopy/unreadable", format!("destination archive cannot be read: {e:?}"), case(), order);
            return;
        }
    };
    if obs.entries.len() != ops.len() || parsed.entries.len() != ops.len() {
        st.viol("rawcopy/entry-count", format!("{} entries in the destination, {} operations", obs.entries.len(), ops.len()), case(), order);
        return;
    }
    let mut ok = true;
    let mut bad = |what: &str, detail: String, st: &mut Stats| {
        ok = false;
        st.viol(format!("rawcopy/{what}"), detail, case(), order);
    };
    for (k, o) in ops.iter().enumerate() {
        let g = &obs.entries[k];
        let p: &PEntry = &parsed.entries[k];
        match o {
            Op::Rejected => {}
            Op::Normal(_) => {
                let k = pos[k];
                if g.name != format!("normal-{k}") || g.content.as_ref().ok() != Some(&normal_content) || g.mode != Some(0o100640) {
                    bad("neighbour-damaged", format!("ordinary entry {k} next to a raw copy reads back as name {:?}, mode {:?}, content ok: {}", g.name, g.mode, g.content.as_ref().ok() == Some(&normal_content)), st);
                }
                // ... and its recorded sizes and CRC are its own (central record, local header, crate reader)
                let n = normal_content.len() as u64;
                let crc = crate::reference::crc32::crc32(&normal_content);
                let rawlen = zipparse::raw_data(&bytes, p).map(|r| r.len() as u64).unwrap_or(u64::MAX);
                if (g.size, g.crc, g.csize) != (n, crc, rawlen) || (p.usize_, p.crc, p.csize) != (n, crc, rawlen) || (p.l_usize, p.l_crc, p.l_csize) != (n, crc, rawlen) {
                    bad(
                        "neighbour-metadata",
                        format!("ordinary entry {k} ({n} bytes, crc {crc:#x}, {rawlen} stored) next to a raw copy records size/crc/compressed {:?} centrally and {:?} in its local header", (p.usize_, p.crc, p.csize), (p.l_usize, p.l_crc, p.l_csize)),
                        st,
                    );
                }
            }
            Op::Copy { src, idx, rename, raw_open } => {
                let sp = &srcs[*src].parsed.entries[*idx];
                let so = &srcs[*src].obs.entries[*idx];
                let tag = format!("source {src}:{idx} ({}), opened {}", so.name, if *raw_open { "raw" } else { "decoding" });
                let want_name = rename.clone().unwrap_or_else(|| so.name.clone());
                if g.name != want_name {
                    bad("name", format!("{tag}: copy is named {:?}, expected {:?}", g.name, want_name), st);
                }
                let sraw = zipparse::raw_data(&srcs[*src].bytes, sp).unwrap_or_default();
                let draw = zipparse::raw_data(&bytes, p).unwrap_or_default();
                if sraw != draw || g.raw.as_ref().ok() != Some(&sraw) {
                    bad("compressed-bytes", format!("{tag}: stored bytes of the copy differ from the source's ({} vs {} bytes)", draw.len(), sraw.len()), st);
                }
                if (p.method, p.crc, p.csize, p.usize_) != (sp.method, sp.crc, sp.csize, sp.usize_) || (g.method, g.crc, g.csize, g.size) != (sp.method, sp.crc, sp.csize, sp.usize_) {
                    bad("method-crc-sizes", format!("{tag}: copy has method {} crc {:#x} csize {} size {}, source {} {:#x} {} {}", p.method, p.crc, p.csize, p.usize_, sp.method, sp.crc, sp.csize, sp.usize_), st);
                }
                // the copy's local header is part of the entry: the crate writes no data descriptors, so it must carry the values itself
                if (p.l_method, p.l_crc, p.l_csize, p.l_usize) != (sp.method, sp.crc, sp.csize, sp.usize_) {
                    bad("local-header-method-crc-sizes", format!("{tag}: the copy's local header has method {} crc {:#x} csize {} size {}, source {} {:#x} {} {}", p.l_method, p.l_crc, p.l_csize, p.l_usize, sp.method, sp.crc, sp.csize, sp.usize_), st);
                }
                if (p.date, p.time) != (sp.date, sp.time) || (g.date, g.time) != (sp.date, sp.time) {
                    bad("timestamp", format!("{tag}: copy has DOS words {:#06x}/{:#06x}, source {:#06x}/{:#06x}", p.date, p.time, sp.date, sp.time), st);
                }
                if let Some(sm) = so.mode {
                    if g.mode.map(|m| m & 0o7777) != Some(sm & 0o7777) {
                        bad("permission-bits", format!("{tag}: copy has mode {:?}, source {:o}", g.mode.map(|m| format!("{m:o}")), sm), st);
                    }
                }
                if matches!(sp.method, 0 | 8 | 12 | 93) && so.content.is_ok() {
                    if g.content != so.content || g.content.is_err() {
                        bad("content", format!("{tag}: copy decodes to {:?} bytes, source to {:?}", g.content.as_ref().map(|c| c.len()), so.content.as_ref().map(|c| c.len())), st);
                    }
                }
            }
        }
    }
    if ok {
        let kinds: Vec<String> = ops
            .iter()
            .map(|o| match o {
                Op::Normal(_) => "N".to_string(),
                Op::Rejected => "X".to_string(),
                Op::Copy { src, idx, rename, .. } => format!("R{}m{}", if rename.is_some() { "'" } else { "" }, srcs[*src].parsed.entries[*idx].method),
            })
            .collect();
        st.class(&format!("copied-exactly/{}", kinds.join("+")));
    } else {
        st.class("MISMATCH");
    }
}

fn replay(case: &Value, st: &mut Stats, seed: u64) {
    if let Some(c) = case.get("sink_fault_after_copy") {
        let srcs = sources(seed);
        let sb: Vec<Vec<u8>> = srcs.iter().map(|s| s.bytes.clone()).collect();
        let si = c["source"].as_u64().unwrap_or(0) as usize;
        check_copy_then_sink_fault(&srcs[si], &sb, si, c["entry"].as_u64().unwrap_or(0) as usize, c["tail"].as_u64().unwrap_or(0) as usize, seed, st, 0);
        return;
    }
    if let Some(c) = case.get("failed_copy") {
        let srcs = sources(seed);
        let si = c["source"].as_u64().unwrap_or(0) as usize;
        check_failed_copy(&srcs[si], c["entry"].as_u64().unwrap_or(0) as usize, c["fail_at_read"].as_u64().unwrap_or(0), c["raw_open"].as_bool().unwrap_or(false), seed, st, 0, si);
        return;
    }
    if case["kind"] == "sparse-copy" {
        check_sparse_copy(case["csize"].as_u64().unwrap_or(0), case["usize"].as_u64().unwrap_or(0), case["method"].as_u64().unwrap_or(0) as u16, st, 0);
        return;
    }
    let srcs = sources(seed);
    let sb: Vec<Vec<u8>> = srcs.iter().map(|s| s.bytes.clone()).collect();
    let ops: Vec<Op> = case["ops"].as_array().map(|a| a.iter().map(op_from).collect()).unwrap_or_default();
    check_seq_io(&ops, &srcs, &sb, seed, st, 0, case["sink_chunk"].as_u64().unwrap_or(0) as usize, case["src_chunk"].as_u64().unwrap_or(0) as usize);
}

pub fn run(args: &Args) -> i32 {
    let mut ctx = crate::new_ctx("C14", args);
    let seed = args.seed;
    if let Some(path) = &args.replay {
        return crate::props::replay_file(ctx, path, |c, st| replay(c, st, seed));
    }
    let thorough = args.tier.thorough();
    let srcs = sources(seed);
    let sb: Vec<Vec<u8>> = srcs.iter().map(|s| s.bytes.clone()).collect();
    let full = alphabet(&srcs, false);
    let red = alphabet(&srcs, true);
    ctx.rule = format!(
        "E-SEQ over interleavings: sources = 52 entries written by the crate (every method x {{min, default, max}} level x 5 content classes incl. empty and 70 001 bytes, varying permissions/timestamps/large_file, a directory and a symlink) and 9 entries of an independent builder \
         (data descriptors, opaque method 14, DOS made-by, no attributes, empty, forced ZIP64 fields, UTF-8 name with comment/extras, directory; behind a 30-byte prefix). Alphabet: an ordinary file, the raw copy of every source entry opened by by_index and by by_index_raw, renamed copies \
         ({} operations; reduced {}). ALL sequences of length 1 and 2 over the full alphabet{}; every single copy again with a destination that accepts and a source that delivers only 1 / 5 / 7 / 4095 / 4096 bytes per call. Oracle: stored bytes, method, CRC, sizes, DOS words identical to the source (independent parser on both sides and the crate reader), permission bits equal, decoded content equal, neighbours intact, strict validation of the destination. \
         distinct_nontrivial = distinct destination archives (hash set).",
        full.len(),
        red.len(),
        " and of length 3 over the reduced alphabet"
    );
    ctx.assume("the source's stored bytes and metadata are taken from the independent parser, not from the crate reader");
    ctx.uncovered("sources with more than 4 GiB of real data (C08's sparse raw copy; here one source only claims such a size); encrypted sources (excluded by the statement)");
    ctx.bound("alphabet_full", json!(full.len()));
    ctx.bound("alphabet_reduced", json!(red.len()));
    let n = full.len() as u64;
    let (srcs_r, sb_r, full_r) = (&srcs, &sb, &full);
    let s = par_for(n + n * n, 16, |t, st| {
        let ops: Vec<Op> = if t < n { vec![full_r[t as usize].clone()] } else { vec![full_r[((t - n) / n) as usize].clone(), full_r[((t - n) % n) as usize].clone()] };
        check_seq(&ops, srcs_r, sb_r, seed, st, t);
        if t == n + 777 {
            st.sample(json!({"ops": ops.iter().map(op_json).collect::<Vec<_>>()}));
        }
    });
    ctx.stats.merge(s);
    ctx.stats.max_depth = 2;
    // the same copies through a destination that accepts, and a source that delivers, only a few bytes per call
    let io: [(usize, usize); 6] = [(1, 0), (7, 0), (4096, 0), (0, 1), (0, 4095), (5, 3)];
    let m = red.len() as u64;
    let red_r = &red;
    let s = par_for(n * 6 + if thorough { m * m * 2 } else { 0 }, 4, |t, st| {
        if t < n * 6 {
            let (sc, rc) = io[(t % 6) as usize];
            // 1-byte transfers only for sources that are not huge
            check_seq_io(&[full_r[(t / 6) as usize].clone()], srcs_r, sb_r, seed, st, (2 << 40) + t, sc, rc);
        } else {
            let u = t - n * 6;
            let (sc, rc) = [(7, 0), (0, 5)][(u % 2) as usize];
            let u = u / 2;
            check_seq_io(&[red_r[(u / m) as usize].clone(), red_r[(u % m) as usize].clone()], srcs_r, sb_r, seed, st, (3 << 40) + t, sc, rc);
        }
    });
    ctx.stats.merge(s);
    ctx.bound("chunked_io", json!("every length-1 sequence x (sink chunk, source chunk) in {(1,-),(7,-),(4096,-),(-,1),(-,4095),(5,3)}; thorough: every length-2 sequence over the reduced alphabet x {(7,-),(-,5)}"));
    {
        // length 3 over the reduced alphabet: both tiers
        let m = red.len() as u64;
        let red_r = &red;
        let s = par_for(m * m * m, 16, |t, st| {
            let ops = vec![red_r[(t / (m * m)) as usize].clone(), red_r[((t / m) % m) as usize].clone(), red_r[(t % m) as usize].clone()];
            check_seq(&ops, srcs_r, sb_r, seed, st, (1 << 40) + t);
        });
        ctx.stats.merge(s);
        ctx.stats.max_depth = 3;
    }
    // zero-length reads on a decoding handle before it is raw-copied: they transfer nothing and change nothing
    {
        let mut items: Vec<(usize, usize)> = vec![];
        for (si, sr) in srcs.iter().enumerate() {
            for i in 0..sr.parsed.entries.len() {
                if si != 0 || i % 5 == 3 || i >= 50 {
                    items.push((si, i));
                }
            }
        }
        let (items_r, sb_r2) = (&items, &sb);
        let s = par_for(items.len() as u64 * 2, 8, |t, st| {
            let (si, i) = items_r[(t / 2) as usize];
            crate::props::c09::rawcopy_after_empty_reads(sb_r2, si, i, 1 + (t % 2) as usize * 2, false, st, (7 << 40) + t);
        });
        ctx.stats.merge(s);
    }
    // a copy whose source reader fails part-way: every read index 0..=10 x 8 source entries x {decoding, raw} handles
    {
        let picks: Vec<(usize, usize)> = vec![(0, 0), (0, 4), (0, 13), (0, 29), (0, 44), (1, 0), (1, 6), (3, 0)];
        let (picks_r, srcs_r2) = (&picks, &srcs);
        let s = par_for((picks.len() * 11 * 2) as u64, 4, |t, st| {
            let t = t as usize;
            let (si, idx) = picks_r[t / 22];
            let k = ((t / 2) % 11) as u64;
            check_failed_copy(&srcs_r2[si], idx, k, t % 2 == 1, seed, st, (6 << 40) + t as u64, si);
        });
        ctx.stats.merge(s);
        ctx.bound("failed_source_reads", json!({"source_entries": picks, "failing_read_index": "0..=10", "handles": ["by_index", "by_index_raw"], "oracle": "no panic; the error is reported; if finish() then succeeds the ordinary entries before and after read back as written"}));
    }
    // a copy that SUCCEEDED, then one failing sink call somewhere in what follows (the next entry's header or data, the
    // directory, the end record), the caller carrying on to a finish() that succeeds (or to drop): the copy stays what it was
    {
        let picks: Vec<(usize, usize)> = vec![(0, 0), (0, 13), (0, 29), (1, 0), (3, 0)];
        let (picks_r, srcs_r2, sb) = (&picks, &srcs, &sb);
        let s = par_for((picks.len() * 4) as u64, 1, |t, st| {
            let (si, idx) = picks_r[t as usize / 4];
            check_copy_then_sink_fault(&srcs_r2[si], sb, si, idx, (t % 4) as usize, seed, st, (7 << 40) + t);
        });
        ctx.stats.merge(s);
        ctx.bound("sink_fault_after_a_copy", json!({"source_entries": picks, "tails": TAILS, "fault": "one Err at every sink call index after the copy has returned Ok", "oracle": "no panic; whenever a later finish() returns Ok (or the writer is dropped after a failed finish), the copy is listed and its method, sizes, CRC, stored bytes and content equal the source entry's; the ordinary entry before it reads back as written"}));
    }
    // sparse sources with more than 4 GiB of real stored bytes: compressed size beyond 32 bits with an uncompressed size that
    // fits, both beyond, and (thorough) a stored one; copied between two ordinary entries
    {
        let g4: u64 = 1 << 32;
        let mut cases: Vec<(u64, u64, u16)> = vec![(g4 + 16, 0xffff_ff00, 8)];
        if thorough {
            cases.push((g4 + 16, g4 + 1000, 8));
            cases.push((g4 + 1, g4 + 1, 0));
            cases.push((g4 - 1, g4 - 2, 93));
        }
        let cases_r = &cases;
        let s = par_for(cases.len() as u64, 1, |t, st| {
            let (cs, us, m) = cases_r[t as usize];
            check_sparse_copy(cs, us, m, st, (5 << 40) + t);
        });
        ctx.stats.merge(s);
        ctx.bound("sparse_sources", json!(cases.iter().map(|c| format!("compressed {} / uncompressed {} / method {}", c.0, c.1, c.2)).collect::<Vec<_>>()));
    }
    ctx.stats.states = ctx.stats.distinct.len() as u64;
    ctx.stats.transitions = ctx.stats.evals;
    ctx.stats.traces = ctx.stats.evals;
    ctx.finish()
}

pub const TAILS: [&str; 4] = ["file, finish, finish", "finish, finish", "finish, drop", "directory, file, finish, finish"];

/// [file, raw copy, tail] over a sink that fails ONE call; every sink call index is tried, the cases where the fault lands
/// after the copy returned Ok are judged.
fn check_copy_then_sink_fault(src: &Src, src_bytes: &[Vec<u8>], si: usize, idx: usize, tail: usize, seed: u64, st: &mut Stats, order: u64) {
    use crate::sio::inst::{plan, Dev};
    let normal = content_class(2, seed);
    let mut calls = vec![Call::StartFile { name: "normal-0".into(), opts: FOpts { perm: Some(0o640), ..FOpts::m(8) } }, Call::Write(normal.clone()), Call::RawCopy { src: si, idx, rename: Some("the-copy".into()), raw_open: false }];
    let copy_at = 2usize;
    let file = |n: &str| vec![Call::StartFile { name: n.into(), opts: FOpts { perm: Some(0o600), ..FOpts::m(0) } }, Call::Write(normal.clone())];
    match tail {
        0 => {
            calls.extend(file("normal-2"));
            calls.extend([Call::Finish, Call::Finish]);
        }
        1 => calls.extend([Call::Finish, Call::Finish]),
        2 => calls.extend([Call::Finish, Call::Drop]),
        _ => {
            calls.push(Call::AddDir { name: "dir-2".into(), opts: FOpts::m(0) });
            calls.extend(file("normal-3"));
            calls.extend([Call::Finish, Call::Finish]);
        }
    }
    let p0 = plan();
    let (r0, _) = exec_plan(&calls, src_bytes, p0.clone());
    let total = p0.borrow().kinds.len() as u64;
    if !r0[..calls.len() - 1].iter().all(|r| r.is_ok()) {
        st.viol("machinery/sink-fault-program", format!("the fault-free program fails: {:?}", r0.iter().map(|r| r.show()).collect::<Vec<_>>()), json!({"kind": "sink-fault-after-copy"}), order);
        return;
    }
    let want = &src.obs.entries[idx];
    for k in 0..total {
        st.evals += 1;
        let case = || json!({"sink_fault_after_copy": {"source": si, "entry": idx, "tail": tail, "sink_call": k}});
        let pk = plan();
        pk.borrow_mut().record_kinds = false;
        pk.borrow_mut().devs.insert(k, Dev::Err);
        let (res, bytes) = exec_plan(&calls, src_bytes, pk);
        if let Some((c, r)) = calls.iter().zip(&res).find(|(_, r)| r.is_panic()) {
            st.viol(format!("sink-fault-after-copy/panic/{}/{}", c.opname(), panic_site(&r.show())), format!("source {si} entry {idx}, tail '{}', sink call {k} fails: {} panicked: {}", TAILS[tail], c.opname(), r.show()), case(), order);
            continue;
        }
        if !res[..=copy_at].iter().all(|r| r.is_ok()) {
            st.class("sink-fault/at-or-before-the-copy");
            continue;
        }
        if res.iter().all(|r| r.is_ok() || matches!(r, Res::Err(e) if e.contains("already closed") || e.contains("gone"))) && res[calls.len() - 2].is_ok() {
            // (the fault was absorbed or never reached: the first finish() succeeded)
        }
        let finished = calls.iter().zip(&res).any(|(c, r)| matches!(c, Call::Finish) && r.is_ok());
        let dropped_after_failed_finish = matches!(calls.last(), Some(Call::Drop)) && !res[calls.len() - 2].is_ok();
        if !finished && !dropped_after_failed_finish {
            st.class("sink-fault/no-finish-succeeded");
            continue;
        }
        let label = format!("source {si} entry {idx} copied (Ok), tail '{}', sink call {k} of {total} failed once, the caller carried on{}", TAILS[tail], if finished { " and a finish() returned Ok" } else { " and dropped the writer" });
        match observe(&bytes, None, 1 << 22) {
            Err(e) => {
                if finished {
                    st.viol("sink-fault-after-copy/archive-unreadable", format!("{label}: {e:?}"), case(), order);
                } else {
                    st.class("sink-fault/dropped:unreadable");
                }
            }
            Ok(o) => {
                let mut ok = true;
                match o.entries.iter().find(|e| e.name == "the-copy") {
                    None => {
                        ok = false;
                        st.viol("sink-fault-after-copy/copy-missing", format!("{label}: the copy is not listed"), case(), order);
                    }
                    Some(g) => {
                        if (g.method, g.size, g.csize, g.crc) != (want.method, want.size, want.csize, want.crc) || g.raw != want.raw || g.content != want.content {
                            ok = false;
                            st.viol(
                                "sink-fault-after-copy/copy-changed",
                                format!("{label}: the copy records method {} size {} compressed {} crc {:#010x} (source: {} {} {} {:#010x}); stored bytes equal: {}; content equal: {}", g.method, g.size, g.csize, g.crc, want.method, want.size, want.csize, want.crc, g.raw == want.raw, g.content == want.content),
                                case(),
                                order,
                            );
                        }
                    }
                }
                match o.entries.iter().find(|e| e.name == "normal-0") {
                    Some(g) if g.content.as_ref().ok() == Some(&normal) && g.size == normal.len() as u64 => {}
                    _ => {
                        ok = false;
                        st.viol("sink-fault-after-copy/neighbour-damaged", format!("{label}: the ordinary entry before the copy does not read back as written"), case(), order);
                    }
                }
                st.class(if ok { "sink-fault/copy-intact" } else { "SINK-FAULT-CHANGES-COPY" });
            }
        }
    }
}

/// A raw copy whose SOURCE reader fails at its k-th read call during the copy, between two ordinary entries; the caller
/// carries on and finishes. Whatever becomes of the failed copy, the ordinary entries around it are unaffected.
fn check_failed_copy(src: &Src, idx: usize, k: u64, raw_open: bool, seed: u64, st: &mut Stats, order: u64, si: usize) {
    use std::io::{Read, Seek, SeekFrom, Write};
    st.evals += 1;
    struct Failing {
        cur: std::io::Cursor<Vec<u8>>,
        armed: std::rc::Rc<std::cell::Cell<Option<u64>>>,
    }
    impl Read for Failing {
        fn read(&mut self, buf: &mut [u8]) -> std::io::Result<usize> {
            if let Some(n) = self.armed.get() {
                if n == 0 {
                    self.armed.set(None);
                    return Err(std::io::Error::new(std::io::ErrorKind::Other, "injected failure of the source reader"));
                }
                self.armed.set(Some(n - 1));
            }
            self.cur.read(buf)
        }
    }
    impl Seek for Failing {
        fn seek(&mut self, p: SeekFrom) -> std::io::Result<u64> {
            self.cur.seek(p)
        }
    }
    let case = || json!({"failed_copy": {"source": si, "entry": idx, "fail_at_read": k, "raw_open": raw_open}});
    let normal = content_class(2, seed);
    let armed = std::rc::Rc::new(std::cell::Cell::new(None));
    let sink = SharedBuf::default();
    let r = crate::util::guard(|| {
        let mut zw = zip::ZipWriter::new(sink.clone());
        zw.start_file("normal-0", FOpts { perm: Some(0o640), ..FOpts::m(8) }.to_zip()).map_err(|e| e.to_string())?;
        zw.write_all(&normal).map_err(|e| e.to_string())?;
        let copy_result = {
            let mut ar = zip::ZipArchive::new(Failing { cur: std::io::Cursor::new(src.bytes.clone()), armed: armed.clone() }).map_err(|e| format!("source open: {e}"))?;
            let f = if raw_open { ar.by_index_raw(idx) } else { ar.by_index(idx) }.map_err(|e| format!("source entry: {e}"))?;
            armed.set(Some(k));
            zw.raw_copy_file(f).map_err(|e| e.to_string())
        };
        let reached = armed.get().is_none();
        armed.set(None);
        let later = zw.start_file("normal-2", FOpts { perm: Some(0o640), ..FOpts::m(0) }.to_zip()).map_err(|e| e.to_string()).and_then(|_| zw.write_all(&normal).map_err(|e| e.to_string()));
        let fin = zw.finish().map(|_| ()).map_err(|e| e.to_string());
        Ok::<_, String>((copy_result, reached, later, fin))
    });
    let (copy_result, reached, later, fin) = match r {
        Err(p) => {
            st.viol(format!("failed-copy/panic/{}", panic_site(&p)), format!("source {si} entry {idx}, source read {k} fails: {p}"), case(), order);
            return;
        }
        Ok(Err(e)) => {
            st.class(&format!("failed-copy/setup:{}", &e[..e.len().min(20)]));
            return;
        }
        Ok(Ok(x)) => x,
    };
    if !reached {
        st.class("failed-copy/fault-not-reached");
        return;
    }
    if copy_result.is_ok() {
        st.viol("failed-copy/error-swallowed", format!("source {si} entry {idx}: the source reader failed at read {k} during the copy and raw_copy_file returned Ok"), case(), order);
        return;
    }
    if later.is_err() || fin.is_err() {
        st.class("failed-copy/writer-refuses-to-go-on");
        return;
    }
    // finish() succeeded: the ordinary entries must be what was written to them
    let bytes = sink.snapshot();
    let crc = crate::reference::crc32::crc32(&normal);
    let got = crate::util::guard(|| {
        let mut ar = zip::ZipArchive::new(std::io::Cursor::new(&bytes[..])).map_err(|e| format!("open: {e}"))?;
        let mut out = vec![];
        for n in ["normal-0", "normal-2"] {
            let mut f = ar.by_name(n).map_err(|e| format!("{n}: {e}"))?;
            let meta = (f.size(), f.crc32(), f.unix_mode());
            let mut v = vec![];
            let rd = f.read_to_end(&mut v).map(|_| v).map_err(|e| e.to_string());
            out.push((n, meta, rd));
        }
        Ok::<_, String>(out)
    });
    match got {
        Ok(Ok(list)) => {
            let mut ok = true;
            for (n, meta, rd) in list {
                if meta != (normal.len() as u64, crc, Some(0o100640)) || rd.as_ref().ok() != Some(&normal) {
                    ok = false;
                    st.viol("failed-copy/neighbour-damaged", format!("source {si} entry {idx}, source read {k} failed, the caller carried on and finish() succeeded: ordinary entry {n} now records size {} crc {:#x} mode {:?} and reads {:?} (written: {} bytes, crc {crc:#x})", meta.0, meta.1, meta.2, rd.as_ref().map(|v| v.len()), normal.len()), case(), order);
                    break;
                }
            }
            st.class(if ok { "failed-copy/neighbours-intact" } else { "FAILED-COPY-DAMAGES-NEIGHBOUR" });
        }
        Ok(Err(e)) => st.viol("failed-copy/neighbours-unreadable", format!("source {si} entry {idx}, source read {k} failed, finish() succeeded, then: {e}"), case(), order),
        Err(p) => st.viol(format!("failed-copy/panic/{}", panic_site(&p)), p, case(), order),
    }
}

/// Raw copy of a sparse source entry with `csize` stored (zero) bytes claiming `usize_` uncompressed bytes under `method`,
/// between two ordinary entries; the copy's recorded values and stored byte count must equal the source's.
fn check_sparse_copy(csize: u64, usize_: u64, method: u16, st: &mut Stats, order: u64) {
    use crate::reference::zipparse::{self, Opts};
    use crate::sio::sparse::SparseFile;
    use std::io::{Read, Write};
    st.evals += 1;
    let case = || json!({"kind": "sparse-copy", "csize": csize, "usize": usize_, "method": method});
    let label = format!("sparse source: {csize} stored bytes, claims {usize_} uncompressed, method {method}");
    let src = crate::props::c08::foreign_big_m(0, csize, usize_, method, false);
    let sp = match zipparse::parse(&src, &Opts::lenient()) {
        Ok(p) => p,
        Err(e) => {
            st.viol("machinery/sparse-source", format!("{label}: the independent parser rejects the source: {e}"), case(), order);
            return;
        }
    };
    let mut dst = SparseFile::new();
    let r = crate::util::guard(|| {
        let mut zw = zip::ZipWriter::new(&mut dst);
        zw.start_file("before", FOpts::m(8).to_zip()).map_err(|e| e.to_string())?;
        zw.write_all(b"an ordinary entry before the copy").map_err(|e| e.to_string())?;
        {
            let mut ar = zip::ZipArchive::new(src.clone()).map_err(|e| format!("source open: {e}"))?;
            let f = ar.by_index_raw(0).map_err(|e| format!("source entry: {e}"))?;
            zw.raw_copy_file(f).map_err(|e| format!("raw_copy_file: {e}"))?;
        }
        zw.start_file("after", FOpts::m(0).to_zip()).map_err(|e| format!("start_file after the copy: {e}"))?;
        zw.write_all(b"after").map_err(|e| e.to_string())?;
        zw.finish().map(|_| ()).map_err(|e| format!("finish: {e}"))
    });
    match r {
        Err(p) => {
            st.viol(format!("sparse-copy/panic/{}", crate::util::panic_site(&p)), format!("{label}: {p}"), case(), order);
            return;
        }
        Ok(Err(e)) => {
            st.class("SPARSE-COPY-REFUSED");
            st.viol("sparse-copy/failed", format!("{label}: the copy does not yield an entry: {e}"), case(), order);
            return;
        }
        Ok(Ok(())) => {}
    }
    let dp = match zipparse::parse(&dst, &Opts::lenient()) {
        Ok(p) => p,
        Err(e) => {
            st.viol(format!("sparse-copy/unreadable/{}", e.clause), format!("{label}: the independent parser rejects the destination: {e}"), case(), order);
            return;
        }
    };
    let (s0, d1) = (&sp.entries[0], dp.entries.get(1));
    let Some(d1) = d1 else {
        st.viol("sparse-copy/missing", format!("{label}: destination lists {} entries", dp.entries.len()), case(), order);
        return;
    };
    let mut ok = true;
    if (d1.csize, d1.usize_, d1.crc, d1.method, d1.date, d1.time) != (s0.csize, s0.usize_, s0.crc, s0.method, s0.date, s0.time) || (d1.l_csize, d1.l_usize) != (s0.csize, s0.usize_) {
        ok = false;
        st.viol("sparse-copy/metadata", format!("{label}: copy records csize {} size {} crc {:#x} method {} (local sizes {} / {}), source {} {} {:#x} {}", d1.csize, d1.usize_, d1.crc, d1.method, d1.l_csize, d1.l_usize, s0.csize, s0.usize_, s0.crc, s0.method), case(), order);
    }
    // through the crate reader: sizes and the stored byte count (all zero)
    let rr = crate::util::guard(|| {
        let mut ar = zip::ZipArchive::new(dst.clone()).map_err(|e| format!("open: {e}"))?;
        let names: Vec<String> = (0..ar.len()).map(|i| ar.by_index_raw(i).map(|f| f.name().to_string()).unwrap_or_default()).collect();
        let (cs, us, n, zero) = {
            let mut f = ar.by_index_raw(1).map_err(|e| format!("by_index_raw: {e}"))?;
            let (cs, us) = (f.compressed_size(), f.size());
            let mut buf = vec![0u8; 4 << 20];
            let (mut n, mut zero) = (0u64, true);
            loop {
                let k = f.read(&mut buf).map_err(|e| format!("raw read: {e}"))?;
                if k == 0 {
                    break;
                }
                n += k as u64;
                zero &= buf[..k].iter().all(|b| *b == 0);
            }
            (cs, us, n, zero)
        };
        let mut after = vec![];
        ar.by_index(2).map_err(|e| format!("neighbour: {e}"))?.read_to_end(&mut after).map_err(|e| format!("neighbour read: {e}"))?;
        let mut before = vec![];
        ar.by_index(0).map_err(|e| format!("neighbour: {e}"))?.read_to_end(&mut before).map_err(|e| format!("neighbour read: {e}"))?;
        Ok::<_, String>((names, cs, us, n, zero, before, after))
    });
    match rr {
        Ok(Ok((names, cs, us, n, zero, before, after))) => {
            if names != ["before", "big", "after"] || cs != csize || us != usize_ || n != csize || !zero {
                ok = false;
                st.viol("sparse-copy/reader", format!("{label}: crate reader lists {names:?}, copy has compressed_size {cs}, size {us}, {n} stored bytes (all zero: {zero})"), case(), order);
            }
            if before != b"an ordinary entry before the copy" || after != b"after" {
                ok = false;
                st.viol("sparse-copy/neighbour-damaged", format!("{label}: the ordinary entries around the copy read back differently"), case(), order);
            }
        }
        Ok(Err(e)) => {
            ok = false;
            st.viol("sparse-copy/reader-failed", format!("{label}: {e}"), case(), order)
        }
        Err(p) => {
            ok = false;
            st.viol(format!("sparse-copy/panic/{}", crate::util::panic_site(&p)), format!("{label}: {p}"), case(), order)
        }
    }
    st.distinct_hash(csize ^ usize_.rotate_left(7) ^ method as u64);
    st.class(if ok { "sparse-copy-exact" } else { "SPARSE-COPY-MISMATCH" });
}

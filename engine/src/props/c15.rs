//! C15 — ZipCrypto entries: right password decrypts, none/wrong is refused.
//! E-PROD: password x content x method x position (writer side, judged by an independent
//! cipher and CPython); foreign PKWARE / Info-ZIP style entries; all 256 check-byte values;
//! wrong passwords bucketed over all 256 decrypted check bytes.

use crate::foreign::Batch;
use crate::reference::zipbuild::{build, Dd, ESpec, Enc, Spec};
use crate::reference::zipparse::{self, Opts};
use crate::reference::{crc32, zipcrypto};
use crate::util::{fnv, guard, hex, panic_site, par_for, Stats};
use crate::zipapi::*;
use crate::Args;
use serde_json::{json, Value};
use std::io::{Cursor, Read};
use std::sync::Mutex;

fn passwords() -> Vec<Vec<u8>> {
    vec![vec![], b"p".to_vec(), b"password".to_vec(), vec![0x00, 0xff, 0x80], (0..300u32).map(|i| (i * 7 + 1) as u8).collect()]
}

#[derive(Debug, PartialEq)]
enum Attempt {
    /// open refused with the password-required error
    PasswordRequired,
    InvalidPassword,
    OtherOpenErr(String),
    ReadErr,
    /// read to a clean EOF
    Clean(Vec<u8>),
    Panic(String),
}

fn attempt(bytes: &[u8], idx: usize, pw: Option<&[u8]>, bufsize: usize, by_name: Option<&str>) -> Attempt {
    attempt_on(Cursor::new(bytes), idx, pw, bufsize, by_name)
}

/// The same over an instrumented stream: `chunk` > 0 limits every underlying read; `interrupt_at` makes that
/// I/O call return ErrorKind::Interrupted once (the caller retries, as std's read_to_end does). Returns the I/O call count too.
fn attempt_io(bytes: &[u8], idx: usize, pw: Option<&[u8]>, bufsize: usize, chunk: usize, interrupt_at: Option<u64>) -> (Attempt, u64) {
    let p = crate::sio::inst::plan();
    p.borrow_mut().record_kinds = false;
    if chunk > 0 {
        p.borrow_mut().chunk = Some(chunk);
    }
    if let Some(k) = interrupt_at {
        p.borrow_mut().devs.insert(k, crate::sio::inst::Dev::Interrupted);
    }
    let a = attempt_on(crate::sio::inst::Inst::new(bytes.to_vec(), p.clone()), idx, pw, bufsize, None);
    let n = p.borrow().calls;
    (a, n)
}

fn attempt_on<R: Read + std::io::Seek>(reader: R, idx: usize, pw: Option<&[u8]>, bufsize: usize, by_name: Option<&str>) -> Attempt {
    let r = guard(|| {
        let mut ar = match zip::ZipArchive::new(reader) {
            Ok(a) => a,
            Err(e) => return Attempt::OtherOpenErr(e.to_string()),
        };
        let opened = match (pw, by_name) {
            (Some(p), None) => ar.by_index_decrypt(idx, p),
            (Some(p), Some(n)) => ar.by_name_decrypt(n, p),
            (None, None) => ar.by_index(idx).map(Ok),
            (None, Some(n)) => ar.by_name(n).map(Ok),
        };
        let mut f = match opened {
            Ok(Ok(f)) => f,
            Ok(Err(_)) => return Attempt::InvalidPassword,
            Err(zip::result::ZipError::UnsupportedArchive(m)) if m == zip::result::ZipError::PASSWORD_REQUIRED => return Attempt::PasswordRequired,
            Err(e) => return Attempt::OtherOpenErr(e.to_string()),
        };
        let mut out = vec![];
        if bufsize == 0 {
            return match f.read_to_end(&mut out) {
                Ok(_) => Attempt::Clean(out),
                Err(_) => Attempt::ReadErr,
            };
        }
        let mut b = vec![0u8; bufsize];
        loop {
            match f.read(&mut b) {
                Ok(0) => return Attempt::Clean(out),
                Ok(n) => out.extend_from_slice(&b[..n]),
                Err(e) if e.kind() == std::io::ErrorKind::Interrupted => continue,
                Err(_) => return Attempt::ReadErr,
            }
        }
    });
    match r {
        Ok(a) => a,
        Err(p) => Attempt::Panic(p),
    }
}

/// All reader-side obligations for one encrypted entry.
fn check_entry(bytes: &[u8], idx: usize, name: &str, pw: &[u8], content: &[u8], what: &str, st: &mut Stats, case: &dyn Fn() -> Value, order: u64) {
    let mut bad = |sig: &str, detail: String, st: &mut Stats| st.viol(format!("{sig}/{}", what.split(':').next().unwrap_or("")), format!("{what}: {detail}"), case(), order);
    for &b in &[1usize, 2, 7, 64, 4096, 0] {
        st.evals += 1;
        match attempt(bytes, idx, Some(pw), b, None) {
            Attempt::Clean(c) if c == content => st.class("right-password:content"),
            Attempt::Panic(p) => bad(&format!("panic/{}", panic_site(&p)), format!("panicked: {p}"), st),
            other => bad(
                "right-password-fails",
                format!("with the correct password (caller buffer {b}) the entry gives {}", match &other { Attempt::Clean(c) => format!("{} bytes that differ from the {} written", c.len(), content.len()), o => format!("{o:?}") }),
                st,
            ),
        }
    }
    // the same through an underlying stream that returns short reads
    let mut calls_at_5 = 0;
    for &(b, ch) in &[(0usize, 1usize), (7, 1), (4096, 3), (0, 5), (64, 13), (1, 4095)] {
        if ch == 1 && bytes.len() > 8192 {
            continue;
        }
        st.evals += 1;
        let (a, n) = attempt_io(bytes, idx, Some(pw), b, ch, None);
        if (b, ch) == (0, 5) {
            calls_at_5 = n;
        }
        match a {
            Attempt::Clean(c) if c == content => st.class("right-password:content(short underlying reads)"),
            Attempt::Panic(p) => bad(&format!("panic/{}", panic_site(&p)), format!("panicked: {p}"), st),
            other => bad(
                "right-password-fails/short-underlying-reads",
                format!("with the correct password (caller buffer {b}, underlying reads of at most {ch} bytes) the entry gives {}", match &other { Attempt::Clean(c) => format!("{} bytes that differ from the {} written", c.len(), content.len()), o => format!("{o:?}") }),
                st,
            ),
        }
    }
    // a retryable ErrorKind::Interrupted at every I/O call index (caller retries): nothing may be lost or duplicated
    if bytes.len() <= 2048 {
        for ch in [0usize, 5] {
            let n = if ch == 5 { calls_at_5 } else { attempt_io(bytes, idx, Some(pw), 0, 0, None).1 };
            for k in 0..n {
                for b in [0usize, 9] {
                    st.evals += 1;
                    match attempt_io(bytes, idx, Some(pw), b, ch, Some(k)).0 {
                        Attempt::Clean(c) if c == content => st.class("right-password:content(EINTR retried)"),
                        // an open that surfaces the EINTR instead of retrying is an error reported, not a wrong result
                        Attempt::OtherOpenErr(_) => st.class("EINTR-surfaced-at-open"),
                        Attempt::Panic(p) => bad(&format!("panic/{}", panic_site(&p)), format!("panicked: {p}"), st),
                        other => bad(
                            "right-password-fails/interrupted-read-retried",
                            format!("underlying reads of at most {ch} bytes, I/O call {k} returns ErrorKind::Interrupted once and the caller (buffer {b}) retries: the entry gives {}", match &other { Attempt::Clean(c) => format!("{} bytes that differ from the {} written", c.len(), content.len()), o => format!("{o:?}") }),
                            st,
                        ),
                    }
                }
            }
        }
    }
    st.evals += 1;
    match attempt(bytes, idx, Some(pw), 0, Some(name)) {
        Attempt::Clean(c) if c == content => {}
        other => bad("by_name_decrypt", format!("by_name_decrypt gives {}", short(&other)), st),
    }
    // one archive handle, the same entry opened again and again (by index, by name, by index; a refused open without a
    // password and one with a wrong password in between; through a clone too): every open with the right password
    // yields the content
    {
        st.evals += 1;
        let r = guard(|| -> Result<(), String> {
            let mut ar = zip::ZipArchive::new(Cursor::new(bytes)).map_err(|e| format!("open: {e}"))?;
            let mut read_ok = |ar: &mut zip::ZipArchive<Cursor<&[u8]>>, how: u8, step: usize| -> Result<(), String> {
                let f = match how {
                    0 => ar.by_index_decrypt(idx, pw),
                    _ => ar.by_name_decrypt(name, pw),
                };
                let mut f = match f {
                    Ok(Ok(f)) => f,
                    Ok(Err(_)) => return Err(format!("open #{step} ({}) with the right password: InvalidPassword", if how == 0 { "by index" } else { "by name" })),
                    Err(e) => return Err(format!("open #{step} with the right password: {e}")),
                };
                let mut v = vec![];
                f.read_to_end(&mut v).map_err(|e| format!("read after open #{step}: {e}"))?;
                if v != content {
                    return Err(format!("open #{step}: {} bytes that differ from the {} written", v.len(), content.len()));
                }
                Ok(())
            };
            read_ok(&mut ar, 0, 1)?;
            read_ok(&mut ar, 1, 2)?;
            let _ = ar.by_index(idx).map(|_| ());
            let _ = ar.by_index_decrypt(idx, b"certainly not the password").map(|_| ());
            read_ok(&mut ar, 0, 3)?;
            let mut other = ar.clone();
            read_ok(&mut other, 1, 4)?;
            read_ok(&mut ar, 1, 5)?;
            Ok(())
        });
        match r {
            Ok(Ok(())) => st.class("right-password:content(repeated opens on one handle)"),
            Ok(Err(e)) => bad("right-password-fails/repeated-opens", format!("repeated opens of the entry on one archive handle: {e}"), st),
            Err(p) => bad(&format!("panic/{}", panic_site(&p)), format!("panicked: {p}"), st),
        }
    }
    for by_name in [None, Some(name)] {
        st.evals += 1;
        match attempt(bytes, idx, None, 0, by_name) {
            Attempt::PasswordRequired => st.class("no-password:password-required"),
            Attempt::Panic(p) => bad(&format!("panic/{}", panic_site(&p)), format!("panicked without password: {p}"), st),
            other => bad("no-password-not-refused", format!("opening without a password gives {} instead of the password-required error", short(&other)), st),
        }
    }
}

fn short(a: &Attempt) -> String {
    match a {
        Attempt::Clean(c) => format!("a completed read of {} bytes", c.len()),
        o => format!("{o:?}"),
    }
}

/// A wrong password must be rejected up front or end in a read error — never a completed read.
fn check_wrong(bytes: &[u8], idx: usize, wrong: &[u8], what: &str, st: &mut Stats, case: &dyn Fn() -> Value, order: u64) -> bool {
    st.evals += 1;
    match attempt(bytes, idx, Some(wrong), 4096, None) {
        Attempt::InvalidPassword => {
            st.class("wrong-password:rejected-at-open");
            false
        }
        Attempt::ReadErr => {
            st.class("wrong-password:read-error");
            true
        }
        Attempt::Panic(p) => {
            st.viol(format!("panic/{}", panic_site(&p)), format!("{what}: wrong password panicked: {p}"), case(), order);
            true
        }
        other => {
            st.class("WRONG-PASSWORD-COMPLETED");
            st.viol(format!("wrong-password-completed/{}", what.split(':').next().unwrap_or("")), format!("{what}: password {} gives {}", hex(wrong), short(&other)), case(), order);
            true
        }
    }
}

/// Four bytes that take the raw CRC-32 register from `state` to `want` (table method, backwards then forwards).
fn forge_tail(state: u32, want: u32) -> [u8; 4] {
    let t = |i: usize| crc32::step(0, i as u8);
    let mut r = want;
    let mut idx = [0usize; 4];
    for i in (0..4).rev() {
        let k = (0..256).find(|&k| t(k) >> 24 == r >> 24).unwrap_or(0);
        idx[i] = k;
        r = (r ^ t(k)) << 8;
    }
    let mut s = state;
    let mut out = [0u8; 4];
    for i in 0..4 {
        out[i] = (idx[i] as u32 ^ (s & 0xff)) as u8;
        s = crc32::step(s, out[i]);
    }
    out
}

fn replay(case: &Value, st: &mut Stats) {
    let bytes = crate::util::unhex(case["archive"].as_str().unwrap_or(""));
    let pw = crate::util::unhex(case["password"].as_str().unwrap_or(""));
    let idx = case["idx"].as_u64().unwrap_or(0) as usize;
    let content = crate::util::unhex(case["content"].as_str().unwrap_or(""));
    let c = case.clone();
    let cf = move || c.clone();
    if let Some(w) = case["wrong"].as_str() {
        check_wrong(&bytes, idx, &crate::util::unhex(w), "replay", st, &cf, 0);
    } else {
        let name = case["name"].as_str().unwrap_or("e").to_string();
        check_entry(&bytes, idx, &name, &pw, &content, "replay", st, &cf, 0);
    }
}

pub fn run(args: &Args) -> i32 {
    let mut ctx = crate::new_ctx("C15", args);
    let seed = args.seed;
    if let Some(path) = &args.replay {
        return crate::props::replay_file(ctx, path, replay);
    }
    let thorough = args.tier.thorough();
    ctx.rule = "E-PROD. Writer side: passwords {empty, 'p', 'password', bytes 00 FF 80, 300 bytes} x 5 (thorough 6) content classes x {stored, deflate, bzip2, zstd} x position {only, first, last of 3 plain entries, last and middle of 3 entries encrypted through the same writer}: the stored bytes must decrypt with an independent \
        PKWARE cipher to data that decodes to the content with the recorded CRC (strict parser), CPython must read them with the password, the plaintext must not occur in the file, and the crate reader must return the content under 6 caller buffer sizes, refuse a missing password with the \
        password-required error (by index and by name) and never complete a read under a wrong password. Foreign side: builder-encrypted PKWARE entries and Info-ZIP style entries (bit 3, check byte from the time word, data descriptor) for every method; \
        256 contents chosen so that the CRC high byte (the check byte) takes every value 0..=255; 4096 wrong passwords per method, bucketed until every one of the 256 decrypted check-byte values has been seen. distinct_nontrivial = distinct (archive, password) pairs exercised (hash set)."
        .into();
    ctx.assume("reference::zipcrypto is an independent implementation from APPNOTE 6.1; CPython zipfile as a second decryptor (stored/deflate/bzip2)");
    ctx.uncovered("passwords beyond the five listed; ZipCrypto combined with extra-data/aligned starts (excluded by the statement)");
    let pws = passwords();
    let n_content = if thorough { 6 } else { 5 };
    let methods = [0u16, 8, 12, 93];
    let collected: Mutex<Vec<(Vec<u8>, Value)>> = Mutex::new(vec![]);

    // writer side
    let variants: [(&str, bool, Option<u32>); 3] = [("secret", false, None), ("s\u{e9}cret-\u{fc}\u{2603}", false, Some(0o600)), ("dir/secret.large", true, None)];
    // positions: only / first of 3 / last of 3 (plain neighbours) / last of 3 and middle of 3 whose neighbours are encrypted
    // with the same password through the same writer
    const NPOS: usize = 5;
    let total = pws.len() * n_content * methods.len() * NPOS * variants.len();
    let pws_r = &pws;
    let col = &collected;
    let s = par_for(total as u64, 2, |t, st| {
        let (ename, large, perm) = variants[t as usize % variants.len()];
        let t = t as usize / variants.len();
        let pos = t % NPOS;
        let m = methods[(t / NPOS) % 4];
        let c = (t / (4 * NPOS)) % n_content;
        let pw = &pws_r[t / (4 * NPOS * n_content)];
        let content = content_class(c, seed);
        let enc = FOpts { password: Some(pw.clone()), large, perm, ..FOpts::m(m) };
        let other = |n: &str| vec![Call::StartFile { name: n.into(), opts: FOpts::m(8) }, Call::Write(b"plain neighbour".to_vec())];
        let other_enc = |n: &str, m2: u16| vec![Call::StartFile { name: n.into(), opts: FOpts { password: Some(pw.clone()), ..FOpts::m(m2) } }, Call::Write(b"an encrypted neighbour, an encrypted neighbour".to_vec())];
        let mut calls = vec![];
        let idx = match pos {
            0 => 0,
            1 => 0,
            4 => 1,
            _ => 2,
        };
        if pos == 2 {
            calls.extend(other("n1"));
            calls.extend(other("n2"));
        }
        if pos == 3 {
            calls.extend(other_enc("e1", 0));
            calls.extend(other_enc("e2", 8));
        }
        if pos == 4 {
            calls.extend(other_enc("e1", 8));
        }
        calls.push(Call::StartFile { name: ename.into(), opts: enc });
        calls.push(Call::Write(content.clone()));
        if pos == 1 {
            calls.extend(other("n1"));
            calls.extend(other("n2"));
        }
        if pos == 4 {
            calls.extend(other_enc("e2", 0));
        }
        calls.push(Call::Finish);
        let (res, bytes) = exec(&calls, &[]);
        let what = format!("writer:m{m}/content-class-{c}/password-{}B/position-{pos}/name-{}{}", pw.len(), if ename.is_ascii() { "ascii" } else { "non-ascii" }, if large { "/large_file" } else { "" });
        let b2 = bytes.clone();
        let (pw2, c2) = (pw.clone(), content.clone());
        let case = move || json!({"archive": if b2.len() <= 8192 { hex(&b2) } else { String::new() }, "password": hex(&pw2), "idx": idx, "name": ename, "content": if c2.len() <= 4096 { hex(&c2) } else { String::new() }, "what": format!("m{m} class {c} pos {pos}")});
        let order = t as u64;
        if let Some((cl, r)) = calls.iter().zip(&res).find(|(_, r)| !r.is_ok()) {
            st.viol(format!("writer/call-failed/{}", cl.opname()), format!("{what}: {} gave {}", cl.opname(), r.show()), case(), order);
            return;
        }
        st.distinct_hash(fnv(&bytes) ^ fnv(pw));
        // independent decryption + structure
        let opts = Opts { password: Some(pw.clone()), ..Opts::strict() };
        match zipparse::validate(&bytes, &opts) {
            Ok(p) => {
                let e = &p.entries[idx];
                if e.flags & 1 == 0 {
                    st.viol("writer/not-flagged-encrypted", format!("{what}: entry written with a password has flag bit 0 clear"), case(), order);
                }
                match zipparse::content(&bytes, e, &opts) {
                    Ok(cc) if cc == content => st.class("independent-cipher:decrypts"),
                    Ok(_) | Err(_) => st.viol("writer/independent-decrypt-differs", format!("{what}: the independent PKWARE cipher does not recover the content"), case(), order),
                }
                // ciphertext really is PKWARE output: 12-byte header + data
                let raw = zipparse::raw_data(&bytes, e).unwrap_or_default();
                let plain_stored = crate::reference::codec::compress(m, &content);
                if m == 0 && raw.len() != content.len() + 12 {
                    st.viol("writer/header-length", format!("{what}: stored encrypted entry has {} bytes for {} bytes of content", raw.len(), content.len()), case(), order);
                }
                let _ = plain_stored;
            }
            Err(e) => {
                st.viol(format!("writer/independent-judge/{}", e.clause), format!("{what}: {e}"), case(), order);
            }
        }
        // plaintext must not be visible (incompressible 17+ bytes, stored)
        if m == 0 && content.len() >= 17 && bytes.windows(content.len().min(32)).any(|w| w == &content[..content.len().min(32)]) {
            st.viol("writer/plaintext-visible", format!("{what}: the plaintext occurs in the archive"), case(), order);
        }
        check_entry(&bytes, idx, ename, pw, &content, &what, st, &case, order);
        // the same program with every option setter called twice (another method / level / time / flag / password first):
        // the last call decides, the archive is byte-identical
        {
            let (res2, bytes2) = with_setters_twice(|| exec(&calls, &[]));
            st.evals += 1;
            if res2 != res || bytes2 != bytes {
                st.viol("writer/options-set-twice-change-archive", format!("{what}: with every FileOptions setter (password included) called twice, the earlier value first, the {}", if res2 != res { "call results differ" } else { "archive bytes differ: the earlier values are not fully replaced" }), case(), order);
            }
        }
        // a few wrong passwords right away
        for w in [&b"wrong"[..], &b""[..], &b"P"[..]] {
            if w != &pw[..] {
                check_wrong(&bytes, idx, w, &what, st, &case, order);
            }
        }
        if bytes.len() < 1 << 20 && m != 93 {
            if let Ok(p) = zipparse::parse(&bytes, &Opts::lenient()) {
                col.lock().unwrap().push((bytes.clone(), crate::foreign::expect_from_parsed(&p, Some(pw))));
            }
        }
        if t == 100 {
            st.sample(json!({"what": what}));
        }
    });
    ctx.stats.merge(s);
    // the password on options handed to add_symlink (the target is the entry's content) and add_directory
    {
        let mut st = Stats::default();
        for (pi, pw) in pws.iter().enumerate() {
            let target = "target/of-the-link-\u{e9}-0123456789-0123456789";
            let o = FOpts { password: Some(pw.clone()), ..FOpts::m(0) };
            let calls = vec![
                Call::StartFile { name: "plain".into(), opts: FOpts::m(8) },
                Call::Write(b"plain neighbour".to_vec()),
                Call::AddSymlink { name: "link".into(), target: target.into(), opts: o.clone() },
                Call::AddDir { name: "encdir".into(), opts: o.clone() },
                Call::StartFile { name: "after".into(), opts: FOpts::m(0) },
                Call::Write(b"after".to_vec()),
                Call::Finish,
            ];
            let (res, bytes) = exec(&calls, &[]);
            let what = format!("writer:add_symlink+add_directory/password-{}B", pw.len());
            let (b2, pw2) = (bytes.clone(), pw.clone());
            let case = move || json!({"archive": hex(&b2), "password": hex(&pw2), "idx": 1, "name": "link", "content": hex(target.as_bytes())});
            let order = (3 << 50) + pi as u64;
            if let Some(r) = res.iter().find(|r| !r.is_ok()) {
                st.viol("writer/call-failed/symlink-or-directory-with-password", format!("{what}: {}", r.show()), case(), order);
                continue;
            }
            st.distinct_hash(fnv(&bytes));
            if bytes.windows(24).any(|w| w == &target.as_bytes()[..24]) {
                st.viol("writer/plaintext-visible", format!("{what}: the link target occurs in the archive in the clear"), case(), order);
            }
            match zipparse::validate(&bytes, &Opts { password: Some(pw.clone()), ..Opts::strict() }) {
                Ok(p) => {
                    for (i, want) in [(1usize, target.as_bytes()), (2, &b""[..])] {
                        if !p.entries[i].encrypted() {
                            st.viol("writer/not-flagged-encrypted", format!("{what}: entry {i} written with a password has flag bit 0 clear"), case(), order);
                        }
                        if zipparse::content(&bytes, &p.entries[i], &Opts { password: Some(pw.clone()), ..Opts::strict() }).ok().as_deref() != Some(want) {
                            st.viol("writer/independent-decrypt-differs", format!("{what}: the independent PKWARE cipher does not recover entry {i}"), case(), order);
                        }
                    }
                }
                Err(e) => st.viol(format!("writer/independent-judge/{}", e.clause), format!("{what}: {e}"), case(), order),
            }
            check_entry(&bytes, 1, "link", pw, target.as_bytes(), &what, &mut st, &case, order);
            check_entry(&bytes, 2, "encdir/", pw, b"", &what, &mut st, &case, order);
        }
        ctx.stats.merge(st);
    }
    crate::diag!("  [C15] writer side done at {:.1}s", ctx.elapsed());

    // CPython judge. (CPython refuses an empty password: pwd=b'' means "none", so those archives are left out.)
    let items: Vec<(Vec<u8>, Value)> = std::mem::take(&mut *collected.lock().unwrap()).into_iter().filter(|(_, e)| e["password"].as_str().map_or(false, |p| !p.is_empty())).collect();
    match Batch::new("c15") {
        Err(e) => ctx.machinery(format!("scratch directory: {e}")),
        Ok(mut b) => {
            for (bytes, exp) in &items {
                if b.add(bytes, exp).is_err() {
                    ctx.machinery("scratch write failed");
                    break;
                }
            }
            match b.run_cpython() {
                Err(e) => ctx.machinery(format!("CPython judge: {e}")),
                Ok((lines, na, ne, nr)) => {
                    ctx.stats.count("cpython_archives", na);
                    ctx.stats.count("cpython_entries", ne);
                    ctx.stats.count("cpython_entries_decrypted", nr);
                    for l in lines {
                        let mut it = l.splitn(4, ' ');
                        let (_, k, clause, detail) = (it.next(), it.next().unwrap_or(""), it.next().unwrap_or(""), it.next().unwrap_or(""));
                        let idx: usize = k.parse().unwrap_or(0);
                        ctx.stats.viol(format!("cpython-disagrees/{clause}"), format!("CPython zipfile with the password: {detail}"), json!({"archive": items.get(idx).map(|x| hex(&x.0)), "password": items.get(idx).map(|x| x.1["password"].clone())}), (1 << 50) + idx as u64);
                    }
                }
            }
        }
    }
    crate::diag!("  [C15] cpython done at {:.1}s", ctx.elapsed());

    // foreign side
    let content = content_class(3, seed);
    let mut st = Stats::default();
    // what other producers put next to such entries: the "version needed to extract" they stamp (1.0 .. 6.3: APPNOTE asks for
    // 6.3 with Zstandard), Info-ZIP's extended timestamp (UT, 0x5455) and NTFS (0x000a) blocks carrying ANOTHER instant than
    // the DOS words (producers outside UTC), an odd DOS date
    let ut = |secs: u32| {
        let mut b = vec![0x03u8];
        b.extend_from_slice(&secs.to_le_bytes());
        b.extend_from_slice(&(secs + 7).to_le_bytes());
        crate::reference::zipbuild::extra_block(0x5455, &b)
    };
    let dressings: Vec<(&str, Option<u16>, Vec<u8>, u16)> = vec![
        ("plain", None, vec![], 0x5821),
        ("version-10", Some(10), vec![], 0x5821),
        ("version-45", Some(45), vec![], 0x5821),
        ("version-51", Some(51), vec![], 0x5821),
        ("version-63", Some(63), vec![], 0x5821),
        ("UT-block-other-instant", None, ut(1_000_000_000), 0x5821),
        ("UT+NTFS-blocks", Some(20), [ut(1_234_567_890), crate::reference::zipbuild::extra_block(0x000a, &[0, 0, 0, 0, 1, 0, 24, 0, 0, 0x80, 0x3e, 0xd5, 0xde, 0xb1, 0x9d, 1, 0, 0x80, 0x3e, 0xd5, 0xde, 0xb1, 0x9d, 1, 0, 0x80, 0x3e, 0xd5, 0xde, 0xb1, 0x9d, 1])].concat(), 0x5821),
        ("date-word-0", None, vec![], 0),
    ];
    for &m in &methods {
        for infozip in [false, true] {
            for (pi, pw) in pws.iter().enumerate() {
              for (dname, vn, xblocks, date) in &dressings {
                // every dressing with the first two passwords; the plain one with all
                if *dname != "plain" && pi >= 2 {
                    continue;
                }
                let spec = Spec {
                    entries: vec![
                        ESpec { name: b"plain".to_vec(), method: 8, content: b"neighbour".to_vec(), ..Default::default() },
                        ESpec { name: b"f".to_vec(), method: m, content: content.clone(), time: 0x7abc + pi as u16, date: *date, dd: if infozip { Dd::Sig32 } else { Dd::None }, enc: Enc::ZipCrypto { pw: pw.clone(), infozip }, version_needed: *vn, local_extra: xblocks.clone(), central_extra: xblocks.clone(), ..Default::default() },
                    ],
                    ..Default::default()
                };
                let bytes = build(&spec).0;
                let what = format!("foreign-{}:m{m}/password-{}B/{dname}", if infozip { "infozip" } else { "pkware" }, pw.len());
                let (b2, pw2, c2) = (bytes.clone(), pw.clone(), content.clone());
                let case = move || json!({"archive": hex(&b2), "password": hex(&pw2), "idx": 1, "name": "f", "content": hex(&c2)});
                st.distinct_hash(fnv(&bytes) ^ fnv(pw));
                check_entry(&bytes, 1, "f", pw, &content, &what, &mut st, &case, 2 << 50);
                check_wrong(&bytes, 1, b"not it", &what, &mut st, &case, 2 << 50);
              }
            }
        }
    }
    st.sample(json!({"what": "foreign-infozip:m8/password-8B"}));
    ctx.stats.merge(st);

    // all 256 check bytes via chosen CRCs
    let mut by_high: Vec<Option<Vec<u8>>> = vec![None; 256];
    let mut k = 0u32;
    while by_high.iter().any(|x| x.is_none()) {
        let c = format!("content #{k}").into_bytes();
        let h = (crc32::crc32(&c) >> 24) as usize;
        if by_high[h].is_none() {
            by_high[h] = Some(c);
        }
        k += 1;
    }
    let by_high_r = &by_high;
    let s = par_for(256 * 2, 4, |t, st| {
        let h = (t % 256) as usize;
        let foreign = t >= 256;
        let content = by_high_r[h].clone().unwrap();
        let pw = b"check-byte".to_vec();
        let bytes = if foreign {
            build(&Spec { entries: vec![ESpec { name: b"f".to_vec(), method: 0, content: content.clone(), enc: Enc::ZipCrypto { pw: pw.clone(), infozip: false }, ..Default::default() }], ..Default::default() }).0
        } else {
            exec(&[Call::StartFile { name: "f".into(), opts: FOpts { password: Some(pw.clone()), ..FOpts::m(0) } }, Call::Write(content.clone()), Call::Finish], &[]).1
        };
        let what = format!("check-byte-{}:{h:#04x}", if foreign { "foreign" } else { "writer" });
        let (b2, c2) = (bytes.clone(), content.clone());
        let case = move || json!({"archive": hex(&b2), "password": hex(b"check-byte"), "idx": 0, "name": "f", "content": hex(&c2)});
        st.distinct_hash(fnv(&bytes));
        // the header's last byte must decrypt to the CRC high byte (PKWARE rule)
        if let Ok(p) = zipparse::parse(&bytes, &Opts::lenient()) {
            let raw = zipparse::raw_data(&bytes, &p.entries[0]).unwrap_or_default();
            if zipcrypto::check_byte(&pw, &raw) != Some(h as u8) {
                st.viol("writer/check-byte", format!("{what}: the encryption header's check byte is {:?}, the CRC's high byte is {h:#04x}", zipcrypto::check_byte(&pw, &raw)), case(), (3 << 50) + t);
            }
        }
        check_entry(&bytes, 0, "f", &pw, &content, &what, st, &case, (3 << 50) + t);
    });
    ctx.stats.merge(s);
    ctx.bound("check_byte_values", json!("all 256, writer-made and builder-made"));

    // contents whose CRC-32 is a value that code might take for "no checksum recorded": 0 and 0xFFFFFFFF (four forged closing
    // bytes). The right password reads them exactly; wrong passwords that pass the one-byte check must still end in an error.
    {
        let mut st = Stats::default();
        for (k, target) in [0u32, 0xffff_ffff, 0x0000_00ff, 0xff00_0000].into_iter().enumerate() {
            for m in [0u16, 8] {
                let mut content = format!("content with a forged checksum #{k}, {}", "padding ".repeat(40)).into_bytes();
                let tail = forge_tail(crc32::update(!0, &content), !target);
                content.extend_from_slice(&tail);
                if crc32::crc32(&content) != target {
                    ctx.machinery(format!("CRC forging failed for {target:#010x}"));
                    continue;
                }
                let pw = b"forged".to_vec();
                for foreign in [false, true] {
                    let bytes = if foreign {
                        build(&Spec { entries: vec![ESpec { name: b"f".to_vec(), method: m, content: content.clone(), enc: Enc::ZipCrypto { pw: pw.clone(), infozip: false }, ..Default::default() }], ..Default::default() }).0
                    } else {
                        exec(&[Call::StartFile { name: "f".into(), opts: FOpts { password: Some(pw.clone()), ..FOpts::m(m) } }, Call::Write(content.clone()), Call::Finish], &[]).1
                    };
                    let what = format!("forged-crc-{target:#010x}:m{m}/{}", if foreign { "foreign" } else { "writer" });
                    let (b2, c2, pw2) = (bytes.clone(), content.clone(), pw.clone());
                    let case = move || json!({"archive": hex(&b2), "password": hex(&pw2), "idx": 0, "name": "f", "content": hex(&c2)});
                    st.distinct_hash(fnv(&bytes));
                    check_entry(&bytes, 0, "f", &pw, &content, &what, &mut st, &case, (6 << 50) + k as u64);
                    let mut passed = 0u64;
                    for w in 0..2048u32 {
                        let wrong = format!("wrong-{w}").into_bytes();
                        let (b3, w2) = (bytes.clone(), wrong.clone());
                        let case = move || json!({"archive": hex(&b3), "idx": 0, "wrong": hex(&w2)});
                        if check_wrong(&bytes, 0, &wrong, &what, &mut st, &case, (6 << 50) + ((k as u64) << 20) + w as u64) {
                            passed += 1;
                        }
                    }
                    st.count("wrong_passwords_passing_the_check_byte(forged CRCs)", passed);
                }
            }
        }
        ctx.stats.merge(st);
        ctx.bound("forged_crcs", json!("contents with CRC-32 0, 0xFFFFFFFF, 0x000000FF, 0xFF000000 x {Stored, Deflated} x {writer, builder}; 2048 wrong passwords each"));
    }

    // wrong passwords over all 256 decrypted check bytes
    let s = par_for(4, 1, |mi, st| {
        let m = methods[mi as usize];
        let pw = b"the right one".to_vec();
        let bytes = exec(&[Call::StartFile { name: "f".into(), opts: FOpts { password: Some(pw.clone()), ..FOpts::m(m) } }, Call::Write(content_class(3, seed)), Call::Finish], &[]).1;
        let p = match zipparse::parse(&bytes, &Opts::lenient()) {
            Ok(p) => p,
            Err(_) => return,
        };
        let raw = zipparse::raw_data(&bytes, &p.entries[0]).unwrap_or_default();
        let mut seen = [false; 256];
        let mut passed = 0u64;
        let b2 = bytes.clone();
        for k in 0..4096u32 {
            let w = format!("w{k}").into_bytes();
            if let Some(cb) = zipcrypto::check_byte(&w, &raw) {
                seen[cb as usize] = true;
            }
            let b3 = b2.clone();
            let w2 = w.clone();
            let case = move || json!({"archive": hex(&b3), "idx": 0, "wrong": hex(&w2)});
            if check_wrong(&bytes, 0, &w, &format!("wrong-password-sweep:m{m}"), st, &case, (4 << 50) + k as u64) {
                passed += 1;
            }
            st.distinct_hash(fnv(&w) ^ m as u64);
        }
        st.count("wrong_passwords_passing_the_check_byte", passed);
        st.count(&format!("check_byte_values_seen_m{m}"), seen.iter().filter(|x| **x).count() as u64);
    });
    for m in methods {
        if s.extra.get(&format!("check_byte_values_seen_m{m}")) != Some(&256) {
            ctx.cap(format!("wrong-password sweep for method {m} saw only {:?} of 256 check-byte values", s.extra.get(&format!("check_byte_values_seen_m{m}"))));
        }
    }
    ctx.stats.merge(s);

    // a sink that fails ONE call while protected entries are written and closed, and a caller who calls finish() again:
    // whenever a finish() then reports success, every protected entry whose calls had succeeded reads back exactly with its
    // password (nothing is encrypted twice, nothing is lost from the buffered cipher text)
    {
        use crate::sio::inst::{plan, Dev};
        let s = par_for((methods.len() * 2 * 2) as u64, 1, |t, st| {
            let m = methods[t as usize % methods.len()];
            let class = 2 + (t as usize / methods.len()) % 2;
            let two = t as usize / (methods.len() * 2) == 1;
            let pw = b"retry".to_vec();
            let (c1, c2) = (content_class(class, seed), content_class(5 - class, seed));
            let mut calls = vec![Call::StartFile { name: "f".into(), opts: FOpts { password: Some(pw.clone()), ..FOpts::m(m) } }, Call::Write(c1.clone())];
            if two {
                calls.extend([Call::StartFile { name: "g".into(), opts: FOpts { password: Some(pw.clone()), ..FOpts::m(0) } }, Call::Write(c2.clone())]);
            }
            calls.extend([Call::Finish, Call::Finish]);
            let p0 = plan();
            let _ = exec_plan(&calls, &[], p0.clone());
            let total = p0.borrow().kinds.len() as u64;
            for k in 0..total {
                for dev in [Dev::Err, Dev::Interrupted] {
                    st.evals += 1;
                    let pk = plan();
                    pk.borrow_mut().record_kinds = false;
                    pk.borrow_mut().devs.insert(k, dev.clone());
                    let (res, bytes) = exec_plan(&calls, &[], pk);
                    let what = format!("sink-fault+retry:m{m}/class{class}/{}: sink call {k} of {total} answered {dev:?} once, finish() called twice", if two { "two entries" } else { "one entry" });
                    if let Some((c, r)) = calls.iter().zip(&res).find(|(_, r)| r.is_panic()) {
                        st.viol(format!("panic/{}/{}", c.opname(), panic_site(&r.show())), format!("{what}: {} panicked: {}", c.opname(), r.show()), json!({"kind": "sink-fault+retry", "calls": calls_json(&calls), "sink_call": k}), (5 << 50) + t);
                        continue;
                    }
                    let finished = calls.iter().zip(&res).any(|(c, r)| matches!(c, Call::Finish) && r.is_ok());
                    if !finished {
                        st.class("sink-fault+retry:no-finish-succeeded");
                        continue;
                    }
                    st.distinct_hash(fnv(&bytes));
                    let listed = observe(&bytes, Some(&pw), 1 << 22);
                    for (name, content, ci) in [("f", &c1, 0usize), ("g", &c2, 2)] {
                        if name == "g" && !two {
                            continue;
                        }
                        if !(res[ci].is_ok() && res[ci + 1].is_ok()) {
                            continue;
                        }
                        let b3 = bytes.clone();
                        let (pw2, content2) = (pw.clone(), content.clone());
                        match &listed {
                            Ok(o) => match o.entries.iter().position(|e| e.name == name) {
                                Some(idx) => {
                                    let case = move || json!({"archive": hex(&b3), "idx": idx, "password": hex(&pw2), "content": hex(&content2), "name": name});
                                    match attempt(&bytes, idx, Some(&pw), 4096, None) {
                                        Attempt::Clean(c) if c == **content => st.class("sink-fault+retry:entry-exact"),
                                        other => st.viol("right-password-fails/after-sink-fault-and-second-finish", format!("{what}: finish() reported success; entry {name} read with its password gives {}", short(&other)), case(), (5 << 50) + t),
                                    }
                                }
                                None => st.viol("entry-lost/after-sink-fault-and-second-finish", format!("{what}: finish() reported success; entry {name}, whose calls all succeeded, is not listed"), json!({"archive": hex(&b3), "idx": 0, "password": hex(&pw2), "content": hex(&content2), "name": name}), (5 << 50) + t),
                            },
                            Err(e) => st.viol("archive-unreadable/after-sink-fault-and-second-finish", format!("{what}: finish() reported success; the archive does not open: {e:?}"), json!({"archive": hex(&b3), "idx": 0, "password": hex(&pw2), "content": hex(&content2), "name": name}), (5 << 50) + t),
                        }
                    }
                }
            }
        });
        ctx.stats.merge(s);
        ctx.bound("sink_fault_then_second_finish", json!("{4 methods} x {2 contents} x {one, two protected entries}; one Err or one Interrupted at every sink call index; finish() called twice"));
    }

    ctx.stats.states = ctx.stats.distinct.len() as u64;
    ctx.stats.transitions = ctx.stats.evals;
    ctx.stats.traces = ctx.stats.evals;
    ctx.finish()
}

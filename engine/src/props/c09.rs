//! C09 — results do not depend on how I/O is chunked.
//! E-DEV: deviation-bounded exploration of fragmentation schedules of the underlying stream
//! (uniform chunk limits, one short read at every byte position, pairs of cuts, BufReader
//! refills, short writes at every write call) crossed with caller-side buffer sizes and
//! interposed empty reads; differential oracle against the 0-deviation execution.

use crate::reference::zipbuild::{build, ESpec, Enc, Spec};
use crate::reference::zipparse::{self, Opts};
use crate::sio::inst::{plan, Dev, Inst, InstRead, Kind, PlanRef};
use crate::util::{guard, panic_site, par_for, Stats};
use crate::zipapi::*;
use crate::Args;
use serde_json::{json, Value};
use std::io::{BufReader, Read, Seek};

const PW: &[u8] = b"pw";
static BIG: std::sync::atomic::AtomicUsize = std::sync::atomic::AtomicUsize::new(700);

#[derive(Clone, Debug, PartialEq)]
pub struct EObs {
    /// name, size, csize, crc, method, date, time, header_start, central_header_start, data_start, mode
    pub meta: (String, u64, u64, u32, u16, u16, u16, u64, u64, u64, Option<u32>),
    pub content: Result<Vec<u8>, String>,
    /// three reads after EOF all returned Ok(0)
    pub post_eof_zero: bool,
    /// extra_data() and comment() of the entry as the reader reports them
    pub extra: Vec<u8>,
    pub comment: String,
}
#[derive(Clone, Debug, PartialEq)]
pub struct RObs {
    pub open: Result<(), String>,
    pub comment: Vec<u8>,
    pub entries: Vec<EObs>,
}

/// caller pattern: one byte taken with read() into a vector, the rest appended to the same vector with read_to_end
pub const P_PREFIX_THEN_READ_TO_END: usize = usize::MAX - 1;
/// caller pattern: read_vectored into two 8-byte slices
pub const P_READ_VECTORED: usize = usize::MAX - 2;

/// Caller-side reading pattern. bufsize 0 = read_to_end.
fn read_entry<R: Read>(f: &mut R, bufsize: usize, zero: bool) -> (Result<Vec<u8>, String>, bool) {
    let mut out = vec![];
    let mut calls = 0u32;
    let res = if bufsize == P_READ_VECTORED {
        // scatter reads into two 8-byte slices; a short count says how far the slices were filled, in order
        let (mut a, mut b) = ([0u8; 8], [0u8; 8]);
        loop {
            if zero && calls % 2 == 0 {
                let _ = f.read(&mut []);
            }
            calls += 1;
            match f.read_vectored(&mut [std::io::IoSliceMut::new(&mut a), std::io::IoSliceMut::new(&mut b)]) {
                Ok(0) => break Ok(()),
                Ok(n) if n > 16 => break Err(format!("read_vectored returned {n} for 16 bytes of buffers")),
                Ok(n) => {
                    out.extend_from_slice(&a[..n.min(8)]);
                    if n > 8 {
                        out.extend_from_slice(&b[..n - 8]);
                    }
                }
                Err(e) if e.kind() == std::io::ErrorKind::Interrupted => continue,
                Err(e) => break Err(e.to_string()),
            }
            if out.len() > 1 << 24 {
                break Err("<runaway>".into());
            }
        }
    } else if bufsize == P_PREFIX_THEN_READ_TO_END {
        out.push(0u8);
        loop {
            match f.read(&mut out[..1]) {
                Ok(0) => {
                    out.clear();
                    break Ok(());
                }
                Ok(_) => break f.read_to_end(&mut out).map(|_| ()).map_err(|e| e.to_string()),
                Err(e) if e.kind() == std::io::ErrorKind::Interrupted => continue,
                Err(e) => break Err(e.to_string()),
            }
        }
    } else if bufsize == 0 {
        if zero {
            loop {
                match f.read(&mut []) {
                    Err(e) if e.kind() == std::io::ErrorKind::Interrupted => continue,
                    Err(e) => return (Err(format!("empty read: {e}")), false),
                    Ok(_) => break,
                }
            }
        }
        f.read_to_end(&mut out).map(|_| ()).map_err(|e| e.to_string())
    } else {
        let mut buf = vec![0u8; bufsize];
        loop {
            if zero && calls % 2 == 0 {
                match f.read(&mut []) {
                    Ok(0) => {}
                    Ok(n) => break Err(format!("empty read returned {n}")),
                    Err(e) if e.kind() == std::io::ErrorKind::Interrupted => continue,
                    Err(e) => break Err(format!("empty read: {e}")),
                }
            }
            calls += 1;
            match f.read(&mut buf) {
                Ok(0) => break Ok(()),
                Ok(n) => out.extend_from_slice(&buf[..n]),
                // the retryable non-failure of the Read contract: retry, as std's read_to_end / read_exact do
                Err(e) if e.kind() == std::io::ErrorKind::Interrupted => continue,
                Err(e) => {
                    // a caller may try again after an error: whatever those calls return, they must return
                    for _ in 0..3 {
                        let _ = f.read(&mut buf);
                    }
                    break Err(e.to_string());
                }
            }
            if out.len() > 1 << 24 {
                break Err("<runaway>".into());
            }
        }
    };
    let mut post = true;
    if res.is_ok() {
        let mut b = [0u8; 5];
        for _ in 0..3 {
            if !matches!(f.read(&mut b), Ok(0)) {
                post = false;
            }
        }
    }
    (res.map(|_| out), post)
}

pub fn run_seekable<R: Read + Seek>(r: R, pw: Option<&[u8]>, bufsize: usize, zero: bool) -> Result<RObs, String> {
    guard(|| {
        let mut ar = match zip::ZipArchive::new(r) {
            Ok(a) => a,
            Err(e) => return RObs { open: Err(e.to_string()), comment: vec![], entries: vec![] },
        };
        let mut o = RObs { open: Ok(()), comment: ar.comment().to_vec(), entries: vec![] };
        for i in 0..ar.len() {
            let opened = match pw {
                Some(p) => match ar.by_index_decrypt(i, p) {
                    Ok(Ok(f)) => Ok(f),
                    Ok(Err(_)) => Err("invalid password".to_string()),
                    Err(e) => Err(e.to_string()),
                },
                None => ar.by_index(i).map_err(|e| e.to_string()),
            };
            match opened {
                Ok(mut f) => {
                    let meta = (f.name().to_string(), f.size(), f.compressed_size(), f.crc32(), method_id(f.compression()), f.last_modified().datepart(), f.last_modified().timepart(), f.header_start(), f.central_header_start(), f.data_start(), f.unix_mode());
                    let (extra, fcomment) = (f.extra_data().to_vec(), f.comment().to_string());
                    let (content, post) = read_entry(&mut f, bufsize, zero);
                    o.entries.push(EObs { meta, content, post_eof_zero: post, extra, comment: fcomment });
                }
                Err(e) => o.entries.push(EObs { meta: Default::default(), content: Err(format!("open: {e}")), post_eof_zero: false, extra: vec![], comment: String::new() }),
            }
        }
        o
    })
}

pub fn run_stream<R: Read>(mut r: R, bufsize: usize, zero: bool) -> Result<RObs, String> {
    guard(|| {
        let mut o = RObs { open: Ok(()), comment: vec![], entries: vec![] };
        loop {
            match zip::read::read_zipfile_from_stream(&mut r) {
                Ok(Some(mut f)) => {
                    let meta = (f.name().to_string(), f.size(), f.compressed_size(), f.crc32(), method_id(f.compression()), f.last_modified().datepart(), f.last_modified().timepart(), f.header_start(), f.central_header_start(), f.data_start(), f.unix_mode());
                    let (extra, fcomment) = (f.extra_data().to_vec(), f.comment().to_string());
                    let (content, post) = read_entry(&mut f, bufsize, zero);
                    o.entries.push(EObs { meta, content, post_eof_zero: post, extra, comment: fcomment });
                }
                Ok(None) => break,
                Err(e) => {
                    o.entries.push(EObs { meta: Default::default(), content: Err(format!("next entry: {e}")), post_eof_zero: false, extra: vec![], comment: String::new() });
                    break;
                }
            }
            if o.entries.len() > 16 {
                break;
            }
        }
        o
    })
}

/// Streaming route where the caller takes only the first `k` bytes of every entry and then releases it: the reader
/// has to skip the rest by itself, whatever the underlying stream does.
thread_local! {
    /// I/O call counter probe for `run_stream_partial` (set by a caller that wants to know which calls happen while an entry
    /// is being released) and the spans [first, last) of call indices it recorded during the last run
    pub static CALL_PROBE: std::cell::RefCell<Option<Box<dyn Fn() -> u64>>> = const { std::cell::RefCell::new(None) };
    pub static RELEASE_SPANS: std::cell::RefCell<Vec<(u64, u64)>> = const { std::cell::RefCell::new(Vec::new()) };
}
fn probe_calls() -> Option<u64> {
    CALL_PROBE.with(|p| p.borrow().as_ref().map(|f| f()))
}

pub fn run_stream_partial<R: Read>(mut r: R, k: usize) -> Result<RObs, String> {
    RELEASE_SPANS.with(|s| s.borrow_mut().clear());
    guard(|| {
        let mut o = RObs { open: Ok(()), comment: vec![], entries: vec![] };
        loop {
            match zip::read::read_zipfile_from_stream(&mut r) {
                Ok(Some(mut f)) => {
                    let meta = (f.name().to_string(), f.size(), f.compressed_size(), f.crc32(), method_id(f.compression()), f.last_modified().datepart(), f.last_modified().timepart(), f.header_start(), f.central_header_start(), f.data_start(), f.unix_mode());
                    let mut buf = vec![0u8; k];
                    let mut got = 0;
                    let mut res = Ok(());
                    while got < k {
                        match f.read(&mut buf[got..]) {
                            Ok(0) => break,
                            Ok(n) => got += n,
                            Err(e) if e.kind() == std::io::ErrorKind::Interrupted => continue,
                            Err(e) => {
                                res = Err(e.to_string());
                                break;
                            }
                        }
                    }
                    buf.truncate(got);
                    o.entries.push(EObs { meta, content: res.map(|_| buf), post_eof_zero: true, extra: vec![], comment: String::new() });
                    // the entry is released here: the reader skips what was not consumed
                    let before = probe_calls();
                    drop(f);
                    if let (Some(a), Some(b)) = (before, probe_calls()) {
                        RELEASE_SPANS.with(|s| s.borrow_mut().push((a, b)));
                    }
                }
                Ok(None) => break,
                Err(e) => {
                    o.entries.push(EObs { meta: Default::default(), content: Err(format!("next entry: {e}")), post_eof_zero: false, extra: vec![], comment: String::new() });
                    break;
                }
            }
            if o.entries.len() > 16 {
                break;
            }
        }
        o
    })
}

#[derive(Clone)]
pub struct Scn {
    pub label: String,
    pub bytes: Vec<u8>,
    pub pw: Option<Vec<u8>>,
    pub stream: bool,
    pub aes: bool,
    /// an entry's data, checksum or authentication code was damaged on purpose: whether (and where) the read fails must
    /// not depend on the schedule either; error texts are not compared
    pub damaged: bool,
}

/// For damaged archives: keep whether each read ended in an error, drop the error text.
fn norm(mut o: RObs, damaged: bool) -> RObs {
    if damaged {
        for e in o.entries.iter_mut() {
            if e.content.is_err() {
                e.content = Err("<error>".into());
                e.post_eof_zero = false;
            }
        }
        if o.open.is_err() {
            o.open = Err("<error>".into());
        }
    }
    o
}

pub fn contents(seed: u64, big: usize) -> (Vec<u8>, Vec<u8>) {
    let mut r = crate::util::Rng(seed ^ 0x09);
    let a = r.bytes(40);
    let mut b = vec![];
    while b.len() < big {
        b.extend_from_slice(b"chunk-independent ");
        b.extend(r.bytes(6));
    }
    b.truncate(big);
    (a, b)
}

pub fn scenarios(seed: u64, big: usize) -> Vec<Scn> {
    let (a, b) = contents(seed, big);
    let mut v = vec![];
    let w = |m1: u16, m2: u16, pw: Option<&[u8]>| {
        let o = |m: u16| FOpts { password: pw.map(|p| p.to_vec()), ..FOpts::m(m) };
        let calls = vec![
            Call::SetComment(b"the archive comment".to_vec()),
            Call::StartFile { name: "first".into(), opts: o(m1) },
            Call::Write(a.clone()),
            Call::StartFile { name: "dir/second-ü".into(), opts: o(m2) },
            Call::Write(b.clone()),
            Call::Finish,
        ];
        let (r, bytes) = exec(&calls, &[]);
        assert!(r.iter().all(|x| x.is_ok()));
        bytes
    };
    v.push(Scn { label: "stored+deflated".into(), bytes: w(0, 8, None), pw: None, stream: true, aes: false, damaged: false });
    v.push(Scn { label: "bzip2+zstd".into(), bytes: w(12, 93, None), pw: None, stream: true, aes: false, damaged: false });
    v.push(Scn { label: "zipcrypto-stored+deflated".into(), bytes: w(0, 8, Some(PW)), pw: Some(PW.to_vec()), stream: false, aes: false, damaged: false });
    v.push(Scn { label: "zipcrypto-zstd+bzip2".into(), bytes: w(93, 12, Some(PW)), pw: Some(PW.to_vec()), stream: false, aes: false, damaged: false });
    for (ver, m1, m2) in [(1u16, 0u16, 8u16), (2, 93, 0)] {
        let spec = Spec {
            entries: vec![
                ESpec { name: b"first".to_vec(), method: m1, content: a.clone(), enc: Enc::Aes { version: ver, strength: 1, pw: PW.to_vec(), salt_seed: 1 }, ..Default::default() },
                ESpec { name: b"second".to_vec(), method: m2, content: b.clone(), enc: Enc::Aes { version: ver, strength: 3, pw: PW.to_vec(), salt_seed: 2 }, ..Default::default() },
            ],
            comment: b"aes".to_vec(),
            ..Default::default()
        };
        v.push(Scn { label: format!("ae{ver}-m{m1}+m{m2}"), bytes: build(&spec).0, pw: Some(PW.to_vec()), stream: false, aes: true, damaged: false });
    }
    // metadata-heavy: prefix junk, forced ZIP64 end records and per-entry ZIP64 fields, comments
    let spec = Spec {
        prefix: vec![0x5a; 300],
        entries: vec![
            ESpec { name: b"first".to_vec(), method: 8, content: a.clone(), zip64_central: 7, central_extra: crate::reference::zipbuild::extra_block(0x7777, b"zz"), comment: b"fc".to_vec(), ..Default::default() },
            ESpec { name: b"second".to_vec(), method: 0, content: b[..b.len().min(200)].to_vec(), local_extra: crate::reference::zipbuild::extra_block(0x6666, b"local only"), ..Default::default() },
        ],
        comment: b"zip64 + prefix".to_vec(),
        force_zip64_eocd: true,
        ..Default::default()
    };
    v.push(Scn { label: "builder-prefix-zip64".into(), bytes: build(&spec).0, pw: None, stream: false, aes: false, damaged: false });
    v
}

fn bufname(b: usize) -> String {
    if b == P_PREFIX_THEN_READ_TO_END {
        "read(1) then read_to_end into the same vector".into()
    } else if b == P_READ_VECTORED {
        "read_vectored into two 8-byte slices".into()
    } else if b == 0 {
        "read_to_end".into()
    } else {
        b.to_string()
    }
}

enum Frag {
    /// underlying reads limited to `chunk` bytes (0 = unlimited) and I/O call `at` returns ErrorKind::Interrupted once
    Interrupt { chunk: usize, at: u64 },
    Chunk(usize),
    Cuts(Vec<u64>),
    BufReader(usize),
}
impl Frag {
    fn describe(&self) -> String {
        match self {
            Frag::Interrupt { chunk, at } => format!("underlying reads limited to {chunk} bytes (0 = unlimited), I/O call {at} returns ErrorKind::Interrupted once (callers retry)"),
            Frag::Chunk(c) => format!("every underlying read limited to {c} bytes"),
            Frag::Cuts(v) => format!("underlying reads cut at absolute positions {v:?}"),
            Frag::BufReader(c) => format!("std BufReader with capacity {c}"),
        }
    }
    fn class(&self) -> &'static str {
        match self {
            Frag::Interrupt { .. } => "interrupted-read",
            Frag::Chunk(_) => "uniform-chunk",
            Frag::Cuts(v) if v.len() == 1 => "one-cut",
            Frag::Cuts(_) => "two-cuts",
            Frag::BufReader(_) => "bufreader",
        }
    }
}

fn run_frag(s: &Scn, stream: bool, frag: &Frag, bufsize: usize, zero: bool) -> Result<RObs, String> {
    let p: PlanRef = plan();
    p.borrow_mut().record_kinds = false;
    match frag {
        Frag::Chunk(c) => p.borrow_mut().chunk = Some(*c),
        Frag::Interrupt { chunk, at } => {
            if *chunk > 0 {
                p.borrow_mut().chunk = Some(*chunk);
            }
            p.borrow_mut().devs.insert(*at, Dev::Interrupted);
        }
        Frag::Cuts(v) => p.borrow_mut().cuts = v.clone(),
        Frag::BufReader(_) => {}
    }
    let inst = Inst::new(s.bytes.clone(), p);
    match (stream, frag) {
        (false, Frag::BufReader(c)) => run_seekable(BufReader::with_capacity(*c, inst), s.pw.as_deref(), bufsize, zero),
        (false, _) => run_seekable(inst, s.pw.as_deref(), bufsize, zero),
        (true, Frag::BufReader(c)) => run_stream(BufReader::with_capacity(*c, InstRead { inner: inst }), bufsize, zero),
        (true, _) => run_stream(InstRead { inner: inst }, bufsize, zero),
    }
}

fn compare(s: &Scn, stream: bool, frag: &Frag, bufsize: usize, zero: bool, base: &RObs, st: &mut Stats, order: u64) {
    st.evals += 1;
    let route = if stream { "stream" } else { "seekable" };
    let got = run_frag(s, stream, frag, bufsize, zero);
    let case = || json!({"scenario": s.label, "route": route, "fragmentation": frag.describe(), "caller_buffer": bufname(bufsize), "empty_reads": zero, "big": BIG.load(std::sync::atomic::Ordering::Relaxed),
        "frag": match frag { Frag::Interrupt { chunk, at } => json!({"interrupt": [chunk, at]}), Frag::Chunk(c) => json!({"chunk": c}), Frag::Cuts(v) => json!({"cuts": v}), Frag::BufReader(c) => json!({"bufreader": c}) }, "bufsize": bufsize});
    match got {
        Err(p) => {
            st.class("panic");
            st.viol(format!("panic/{route}/{}", panic_site(&p)), format!("{}: reader panicked under {}: {p}", s.label, frag.describe()), case(), order)
        }
        Ok(o) => {
            let o = norm(o, s.damaged);
            if o == *base {
                st.class(&format!("same-as-unfragmented/{}{}", frag.class(), if s.damaged { "/damaged" } else { "" }));
                return;
            }
            st.class("DIFFERS");
            // find the first difference
            let what = if o.open != base.open {
                format!("open: {:?}", o.open)
            } else if o.comment != base.comment {
                "archive comment differs".to_string()
            } else if o.entries.len() != base.entries.len() {
                format!("{} entries instead of {}", o.entries.len(), base.entries.len())
            } else {
                let mut w = String::new();
                for (i, (x, y)) in o.entries.iter().zip(&base.entries).enumerate() {
                    if x.meta != y.meta {
                        w = format!("entry {i}: metadata {:?} instead of {:?}{}", x.meta, y.meta, x.content.as_ref().err().map(|e| format!(" ({e})")).unwrap_or_default());
                    } else if x.content != y.content {
                        w = match &x.content {
                            Err(e) => format!("entry {i}: read fails with '{e}'"),
                            Ok(c) => format!("entry {i}: {} bytes returned, differ from the {} of the unfragmented run", c.len(), y.content.as_ref().map(|c| c.len()).unwrap_or(0)),
                        };
                    } else if x.post_eof_zero != y.post_eof_zero {
                        w = format!("entry {i}: reads after end-of-file do not keep returning 0");
                    }
                    if !w.is_empty() {
                        break;
                    }
                }
                w
            };
            let kind = if what.contains("empty read") {
                "empty-read-fails"
            } else if what.contains("read fails") {
                "read-fails"
            } else if what.contains("bytes returned") {
                "different-bytes"
            } else {
                "other"
            };
            st.viol(
                format!("reader/{kind}/{}/{route}/{}", s.label, if zero && kind == "empty-read-fails" { "empty-reads" } else { frag.class() }),
                format!("{} via {route}, caller buffer {}, empty reads {zero}, {}: {what}", s.label, bufname(bufsize), frag.describe()),
                case(),
                order,
            );
        }
    }
}

// ---------------------------------------------------------------------------------------------
// writer side

pub fn writer_programs(seed: u64) -> Vec<(String, Vec<Call>, Option<Vec<u8>>)> {
    let (a, b) = contents(seed, 700);
    let comps = crate::props::c02::composites(seed);
    let mut v: Vec<(String, Vec<Call>, Option<Vec<u8>>)> = vec![];
    let pick = ["file-stored", "file-deflated", "file-utf8-zstd-2writes", "file-bzip2-large", "extra-local-central", "aligned-64-deflated", "zipcrypto-deflated", "rawcopy-deflated-renamed", "dir", "symlink"];
    let mut all = vec![Call::SetComment(b"w".to_vec())];
    for (l, c) in &comps {
        if pick.contains(l) {
            let mut calls = c.clone();
            calls.push(Call::Finish);
            v.push((l.to_string(), calls, if l.starts_with("zipcrypto") { Some(PW.to_vec()) } else { None }));
            all.extend(c.iter().cloned());
        }
    }
    all.push(Call::Finish);
    v.push(("all-composites".into(), all, Some(PW.to_vec())));
    v.push((
        "two-files-700".into(),
        vec![
            Call::StartFile { name: "first".into(), opts: FOpts::m(8) },
            Call::Write(a),
            Call::StartFile { name: "second".into(), opts: FOpts::m(0) },
            Call::Write(b),
            Call::Finish,
        ],
        None,
    ));
    v
}

fn run_writer(calls: &[Call], sources: &[Vec<u8>], p: PlanRef) -> (Vec<Res>, Vec<u8>) {
    let sink = SharedBuf::default();
    let mut w = W::new(Inst::over(sink.clone(), p));
    let mut out = vec![];
    for c in calls {
        out.push(w.call(c, sources));
    }
    drop(w);
    (out, sink.snapshot())
}

/// One bit flipped in the middle / last byte of each entry's stored data, in the recorded CRC (plain, ZipCrypto), in the
/// authentication code and the byte before it (AES).
pub fn damaged_scenarios(scns: &[Scn]) -> Vec<Scn> {
    use crate::reference::zipparse;
    let mut dscn: Vec<Scn> = vec![];
    for s in scns {
        let parsed = match zipparse::parse(&s.bytes, &zipparse::Opts::lenient()) {
            Ok(p) => p,
            Err(_) => continue,
        };
        for (ei, en) in parsed.entries.iter().enumerate() {
            let (d0, d1) = (en.data_pos as usize, (en.data_pos + en.csize) as usize);
            let mut spots: Vec<(String, usize)> = vec![(format!("data-middle-e{ei}"), (d0 + d1) / 2), (format!("data-last-e{ei}"), d1 - 1)];
            if !s.aes {
                spots.push((format!("central-crc-e{ei}"), en.central_pos as usize + 16));
            } else {
                spots.push((format!("mac-first-e{ei}"), d1 - 10));
                spots.push((format!("data-before-mac-e{ei}"), d1 - 11));
            }
            for (what, pos) in spots {
                let mut b = s.bytes.clone();
                b[pos] ^= 0x04;
                dscn.push(Scn { label: format!("{}/damaged:{what}", s.label), bytes: b, pw: s.pw.clone(), stream: false, aes: s.aes, damaged: true });
            }
        }
    }
    dscn
}

pub fn rawcopy_after_empty_reads(src: &[Vec<u8>], si: usize, i: usize, k: usize, raw_open: bool, st: &mut Stats, order: u64) {
            st.evals += 1;
            let run = |empty_reads: usize| -> Result<Vec<u8>, String> {
                crate::util::guard(|| {
                    let sink = SharedBuf::default();
                    {
                        let mut zw = zip::ZipWriter::new(sink.clone());
                        let mut ar = zip::ZipArchive::new(std::io::Cursor::new(&src[si][..])).map_err(|e| e.to_string())?;
                        let mut f = if raw_open { ar.by_index_raw(i) } else { ar.by_index(i) }.map_err(|e| format!("open: {e}"))?;
                        for _ in 0..empty_reads {
                            let n = f.read(&mut []).map_err(|e| format!("empty read: {e}"))?;
                            if n != 0 {
                                return Err(format!("empty read returned {n}"));
                            }
                        }
                        zw.raw_copy_file(f).map_err(|e| format!("raw_copy_file: {e}"))?;
                        zw.finish().map_err(|e| format!("finish: {e}"))?;
                    }
                    Ok(sink.snapshot())
                })
                .unwrap_or_else(|p| Err(format!("PANIC {p}")))
            };
            let (base, got) = (run(0), run(k));
            let case = json!({"rawcopy_after_empty_reads": {"source": si, "entry": i, "empty_reads": k, "raw_open": raw_open}});
            match (base, got) {
                (Ok(b), Ok(g)) if b == g => st.class("writer-same/raw-copy-after-empty-reads"),
                (Err(b), Err(g)) if b == g => st.class("raw-copy-refused-either-way"),
                (b, g) => {
                    st.class("WRITER-OUTPUT-DIFFERS");
                    st.viol(
                        "writer/empty-reads-before-raw-copy-change-output",
                        format!("source {si} entry {i} (opened {}): after {k} zero-length read(s) on the handle the raw copy gives {}, without them {}", if raw_open { "raw" } else { "decoding" }, g.map(|v| format!("{} bytes (fnv {:x})", v.len(), crate::util::fnv(&v))).unwrap_or_else(|e| e), b.map(|v| format!("{} bytes (fnv {:x})", v.len(), crate::util::fnv(&v))).unwrap_or_else(|e| e)),
                        case,
                        order,
                    );
                }
            }
}

fn replay(case: &Value, st: &mut Stats, seed: u64) {
    if let Some(c) = case.get("rawcopy_after_empty_reads") {
        let src = crate::props::c02::sources(seed);
        rawcopy_after_empty_reads(&src, c["source"].as_u64().unwrap_or(0) as usize, c["entry"].as_u64().unwrap_or(0) as usize, c["empty_reads"].as_u64().unwrap_or(1) as usize, c["raw_open"].as_bool().unwrap_or(false), st, 0);
        return;
    }
    if case.get("writer").is_some() {
        let progs = writer_programs(seed);
        let src = crate::props::c02::sources(seed);
        let label = case["writer"].as_str().unwrap_or("");
        if let Some((_, calls, _)) = progs.iter().find(|p| p.0 == label) {
            let base = run_writer(calls, &src, plan());
            let p = plan();
            if let Some(c) = case["source_chunk"].as_u64() {
                SRC_CHUNK.with(|x| x.set(c as usize));
            }
            if let Some(c) = case["chunk"].as_u64() {
                p.borrow_mut().chunk = Some(c as usize);
            }
            if let (Some(k), Some(j)) = (case["call"].as_u64(), case["accept"].as_u64()) {
                p.borrow_mut().devs.insert(k, Dev::Short(j as usize));
            } else if let (Some(k), Some("interrupted")) = (case["call"].as_u64(), case["accept"].as_str()) {
                p.borrow_mut().devs.insert(k, Dev::Interrupted);
            }
            let got = run_writer(calls, &src, p);
            SRC_CHUNK.with(|x| x.set(0));
            if got != base {
                st.viol("writer/short-writes-change-output", "sink bytes or results differ from the run without short writes", case.clone(), 0);
            }
        }
        return;
    }
    let big = case["big"].as_u64().unwrap_or(700) as usize;
    let mut scns = scenarios(seed, big);
    let damaged = damaged_scenarios(&scns);
    scns.extend(damaged);
    let Some(s) = scns.iter().find(|s| s.label == case["scenario"].as_str().unwrap_or("")) else {
        crate::diag!("replay: no scenario named {}", case["scenario"]);
        return;
    };
    if case["route"] == "stream-partial" {
        let k = case["take"].as_u64().unwrap_or(0) as usize;
        let p: PlanRef = plan();
        if let Some(c) = case["frag"]["chunk"].as_u64() {
            p.borrow_mut().chunk = Some(c as usize);
        }
        if let Some(v) = case["frag"]["cuts"].as_array() {
            p.borrow_mut().cuts = v.iter().filter_map(|x| x.as_u64()).collect();
        }
        let inst = InstRead { inner: Inst::new(s.bytes.clone(), p) };
        let got = match case["frag"]["bufreader"].as_u64() {
            Some(c) => run_stream_partial(BufReader::with_capacity(c as usize, inst), k),
            None => run_stream_partial(inst, k),
        };
        if got != run_stream_partial(std::io::Cursor::new(&s.bytes[..]), k) {
            st.viol("reader/partial-consumption", "the partially consumed stream differs from the unfragmented run", case.clone(), 0);
        }
        return;
    }
    let stream = case["route"] == "stream";
    let frag = if let Some(a) = case["frag"]["interrupt"].as_array() {
        Frag::Interrupt { chunk: a[0].as_u64().unwrap_or(0) as usize, at: a[1].as_u64().unwrap_or(0) }
    } else if let Some(c) = case["frag"]["chunk"].as_u64() {
        Frag::Chunk(c as usize)
    } else if let Some(c) = case["frag"]["bufreader"].as_u64() {
        Frag::BufReader(c as usize)
    } else {
        Frag::Cuts(case["frag"]["cuts"].as_array().map(|a| a.iter().filter_map(|x| x.as_u64()).collect()).unwrap_or_default())
    };
    let base = if stream { run_stream(std::io::Cursor::new(&s.bytes[..]), 0, false) } else { run_seekable(std::io::Cursor::new(&s.bytes[..]), s.pw.as_deref(), 0, false) };
    if let Ok(base) = base {
        let base = norm(base, s.damaged);
        compare(s, stream, &frag, case["bufsize"].as_u64().unwrap_or(0) as usize, case["empty_reads"].as_bool().unwrap_or(false), &base, st, 0);
    }
}

pub fn run(args: &Args) -> i32 {
    let mut ctx = crate::new_ctx("C09", args);
    let seed = args.seed;
    if let Some(path) = &args.replay {
        return crate::props::replay_file(ctx, path, |c, st| replay(c, st, seed));
    }
    let thorough = args.tier.thorough();
    let big = if thorough { 70_001 } else { 5_000 };
    BIG.store(big, std::sync::atomic::Ordering::Relaxed);
    let scns = scenarios(seed, big);
    let chunks: Vec<usize> = (1..=17).chain([4095, 4096, 4097]).collect();
    let cbufs_all = [1usize, 2, 3, 7, 64, 4096, 0, P_PREFIX_THEN_READ_TO_END, P_READ_VECTORED];
    let cbufs_cut = [1usize, 7, 0, P_READ_VECTORED];
    ctx.rule = format!(
        "E-DEV over fragmentation schedules, differential against the 0-deviation run (which is itself required to return the written content). Reader: 7 archives \
         (stored+deflated, bzip2+zstd, ZipCrypto x2, AE-1, AE-2, prefixed+ZIP64), entries of 40 and {big} bytes; seekable route for all, streaming route for the two plain ones; plus ~45 DAMAGED variants of them (one bit in an entry's data, recorded CRC or authentication code) whose reads must end in an error under every schedule, exactly as without fragmentation. \
         Deviations: every uniform chunk limit in 1..=17 and {{4095,4096,4097}} and std BufReader capacities {{1,7,64}} x caller buffers {{1,2,3,7,64,4096,read_to_end, read(1)+read_to_end into one vector, read_vectored into two slices}} x empty reads {{no,yes}}; \
         a retryable ErrorKind::Interrupted at every read call (plain and with 5-byte underlying reads; callers retry as std does), and at every write call on the writer side; ONE cut at EVERY byte position of every archive x caller buffers {{1,7,read_to_end}}; all PAIRS of cut positions (bound 2) on a 40+60-byte archive. After EOF three more reads must return 0. Streaming route also with every entry released after 0/1/10/41 bytes (the reader skips the rest) under 9 chunk limits, 3 BufReader capacities and one cut at every (quick: every 5th) position. \
         Writer: 12 programs; sink accepting at most c bytes per write for the same c set; one short write at every write-call index with 1, n/2, n-1 bytes accepted: sink bytes must be identical; \
         zero-length reads on a handle before it is raw-copied change nothing; raw-copy sources delivering 1..17, 33, 100, 1000, 4095..4097, 65535, 65536 bytes per read: sink bytes identical; caller splitting a 700-byte content at every position and in uniform pieces 1..17: archive must decode to the same entries. distinct_nontrivial = distinct (scenario, route, schedule, caller pattern) tuples (counted; never repeated)."
    );
    ctx.assume("the 0-deviation execution is a valid baseline: it is checked against the known written content before use");
    ctx.uncovered("random schedules (sampling); more than 2 independent cuts; archives other than the listed scenarios");
    ctx.bound("scenarios", json!(scns.iter().map(|s| format!("{} ({} bytes)", s.label, s.bytes.len())).collect::<Vec<_>>()));
    ctx.bound("deviation_bound_completed", json!(2));

    // baselines, validated against the known content
    let (a, b) = contents(seed, big);
    let mut bases: Vec<(Option<RObs>, Option<RObs>)> = vec![];
    for s in &scns {
        let bs = run_seekable(std::io::Cursor::new(&s.bytes[..]), s.pw.as_deref(), 0, false).ok();
        let ok = bs.as_ref().map_or(false, |o| {
            o.open.is_ok() && o.entries.len() == 2 && o.entries[0].content.as_ref().ok() == Some(&a) && o.entries[1].content.as_ref().map(|c| c[..] == b[..c.len()] && (c.len() == b.len() || s.label.starts_with("builder"))).unwrap_or(false)
        });
        if !ok {
            ctx.machinery(format!("baseline of scenario {} does not return the written content", s.label));
        }
        let bt = if s.stream { run_stream(std::io::Cursor::new(&s.bytes[..]), 0, false).ok() } else { None };
        if s.stream && bt.as_ref().map_or(true, |o| o.entries.len() != 2 || o.entries.iter().any(|e| e.content.is_err())) {
            ctx.machinery(format!("stream baseline of scenario {} is not clean", s.label));
        }
        bases.push((bs, bt));
    }
    if !ctx.machinery_errors.is_empty() {
        return ctx.finish();
    }
    // the baseline must not depend on the caller pattern either: compare all patterns at 0 deviations through `compare` with a no-op fragmentation
    let mut counted = 0u64;

    // work list
    struct Item {
        si: usize,
        stream: bool,
        frag: Frag,
        cbufs: Vec<usize>,
        zeros: Vec<bool>,
    }
    let mut items: Vec<Item> = vec![];
    for (si, s) in scns.iter().enumerate() {
        for stream in [false, true] {
            if stream && !s.stream {
                continue;
            }
            // 0 deviations under every caller pattern
            items.push(Item { si, stream, frag: Frag::Cuts(vec![]), cbufs: cbufs_all.to_vec(), zeros: vec![false, true] });
            for &c in &chunks {
                items.push(Item { si, stream, frag: Frag::Chunk(c), cbufs: cbufs_all.to_vec(), zeros: vec![false, true] });
            }
            for c in [1usize, 7, 64] {
                items.push(Item { si, stream, frag: Frag::BufReader(c), cbufs: cbufs_all.to_vec(), zeros: vec![false, true] });
            }
            let step = if thorough && s.aes { 1 } else { 1 };
            let mut p = 1u64;
            while p < s.bytes.len() as u64 {
                items.push(Item { si, stream, frag: Frag::Cuts(vec![p]), cbufs: if s.aes && thorough { vec![7] } else { cbufs_cut.to_vec() }, zeros: vec![false] });
                p += step;
            }
        }
    }
    // a retryable Interrupted at every read call of the failure-free run (plain and with 5-byte underlying reads)
    for (si, s) in scns.iter().enumerate() {
        for stream in [false, true] {
            if stream && !s.stream {
                continue;
            }
            for chunk in [0usize, 5] {
                for cb in [7usize, 0] {
                    // the call numbering depends on the caller pattern: number the calls of exactly this configuration
                    let p: PlanRef = plan();
                    if chunk > 0 {
                        p.borrow_mut().chunk = Some(chunk);
                    }
                    let inst = Inst::new(s.bytes.clone(), p.clone());
                    let _ = if stream { run_stream(InstRead { inner: inst }, cb, false) } else { run_seekable(inst, s.pw.as_deref(), cb, false) };
                    let kinds = p.borrow().kinds.clone();
                    // with 5-byte reads the big entry alone takes thousands of calls: every call in quick up to 600, then every 7th
                    for (k, kind) in kinds.iter().enumerate() {
                        if *kind != Kind::Read || (!thorough && k > 600 && k % 7 != 0) {
                            continue;
                        }
                        items.push(Item { si, stream, frag: Frag::Interrupt { chunk, at: k as u64 }, cbufs: vec![cb], zeros: vec![false] });
                    }
                }
            }
        }
    }
    // damaged archives: one bit flipped in an entry's data / ciphertext / authentication code / recorded CRC. The unfragmented
    // read ends in an error; under every schedule and caller pattern it must end in an error too (never a completed read)
    let mut all_scns = scns.clone();
    {
        let dscn = damaged_scenarios(&scns);
        let mut vacuous = 0;
        for d in dscn {
            let b = run_seekable(std::io::Cursor::new(&d.bytes[..]), d.pw.as_deref(), 0, false).ok().map(|o| norm(o, true));
            // damage the decoder does not notice (and that is not covered by a checksum: none here) would make the scenario vacuous
            if b.as_ref().map_or(true, |o| o.open.is_ok() && o.entries.iter().all(|e| e.content.is_ok())) {
                vacuous += 1;
                continue;
            }
            let si = all_scns.len();
            all_scns.push(d);
            bases.push((b, None));
            let n = all_scns[si].bytes.len() as u64;
            items.push(Item { si, stream: false, frag: Frag::Cuts(vec![]), cbufs: cbufs_all.to_vec(), zeros: vec![false, true] });
            for &c in &chunks {
                items.push(Item { si, stream: false, frag: Frag::Chunk(c), cbufs: cbufs_all.to_vec(), zeros: vec![false] });
            }
            for c in [1usize, 7, 64] {
                items.push(Item { si, stream: false, frag: Frag::BufReader(c), cbufs: cbufs_all.to_vec(), zeros: vec![false] });
            }
            let step = if thorough { 1 } else { 3 };
            let mut p = 1u64;
            while p < n {
                items.push(Item { si, stream: false, frag: Frag::Cuts(vec![p]), cbufs: vec![3, 64, 0], zeros: vec![false] });
                p += step;
            }
        }
        ctx.bound("damaged_scenarios", json!({"count": all_scns.len() - scns.len(), "unnoticed_damage_skipped": vacuous, "damage": "one bit in the middle / last byte of each entry's stored data, in the recorded CRC (plain, ZipCrypto), in the authentication code and the byte before it (AES)",
            "schedules": "every uniform chunk, BufReader capacity and caller buffer; one cut at every (quick: every 3rd) position x caller buffers {3, 64, read_to_end}"}));
    }
    // pairs of cuts on a small archive
    let small = {
        let mut r = crate::util::Rng(seed ^ 0x99);
        let calls = vec![
            Call::StartFile { name: "s".into(), opts: FOpts::m(0) },
            Call::Write(r.bytes(40)),
            Call::StartFile { name: "d".into(), opts: FOpts::m(8) },
            Call::Write(b"compress me compress me compress me ".to_vec()),
            Call::Finish,
        ];
        exec(&calls, &[]).1
    };
    let small_scn = Scn { label: "small-stored+deflated".into(), bytes: small.clone(), pw: None, stream: true, aes: false, damaged: false };
    all_scns.push(small_scn);
    let small_i = all_scns.len() - 1;
    let sb = (run_seekable(std::io::Cursor::new(&small[..]), None, 0, false).ok(), run_stream(std::io::Cursor::new(&small[..]), 0, false).ok());
    bases.push(sb);
    let pair_step = 1;
    for stream in [false, true] {
        let n = small.len() as u64;
        let mut p1 = 1;
        while p1 < n {
            let mut p2 = p1 + 1;
            while p2 < n {
                items.push(Item { si: small_i, stream, frag: Frag::Cuts(vec![p1, p2]), cbufs: vec![7], zeros: vec![false] });
                p2 += pair_step;
            }
            p1 += pair_step;
        }
    }
    ctx.bound("small_archive_len_for_pairs", json!(small.len()));
    ctx.bound("pair_position_step", json!(pair_step));
    for it in &items {
        counted += (it.cbufs.len() * it.zeros.len()) as u64;
    }
    let scn_ref = &all_scns;
    let bases_ref = &bases;
    let s = par_for(items.len() as u64, 4, |t, st| {
        let it = &items[t as usize];
        let s = &scn_ref[it.si];
        let base = if it.stream { bases_ref[it.si].1.as_ref() } else { bases_ref[it.si].0.as_ref() };
        let Some(base) = base else { return };
        for &cb in &it.cbufs {
            for &z in &it.zeros {
                compare(s, it.stream, &it.frag, cb, z, base, st, t << 8 | (cb as u64 & 0xff));
            }
        }
        if t == 40 {
            st.sample(json!({"scenario": s.label, "fragmentation": it.frag.describe(), "caller_buffers": it.cbufs.iter().map(|b| bufname(*b)).collect::<Vec<_>>()}));
        }
    });
    ctx.stats.merge(s);
    // streaming route, entries released after 0 / 1 / 10 / 41 bytes: the skip of the rest must not depend on the chunking either
    {
        let mut pitems: Vec<(usize, usize, Frag)> = vec![];
        for (si, s) in scns.iter().enumerate() {
            if !s.stream {
                continue;
            }
            for k in [0usize, 1, 10, 41] {
                for c in [1usize, 2, 3, 7, 64, 4095, 4096, 65535, 65536] {
                    pitems.push((si, k, Frag::Chunk(c)));
                }
                for c in [1usize, 7, 64] {
                    pitems.push((si, k, Frag::BufReader(c)));
                }
                // one cut at every position of the archive (every 5th in the quick tier)
                let mut p = 1u64;
                while p < s.bytes.len() as u64 {
                    pitems.push((si, k, Frag::Cuts(vec![p])));
                    p += if thorough { 1 } else { 5 };
                }
            }
        }
        counted += pitems.len() as u64;
        let (scns_r, pitems_r) = (&scns, &pitems);
        let s = par_for(pitems.len() as u64, 8, |t, st| {
            let (si, k, frag) = &pitems_r[t as usize];
            let s = &scns_r[*si];
            st.evals += 1;
            let base = run_stream_partial(std::io::Cursor::new(&s.bytes[..]), *k);
            let p: PlanRef = plan();
            p.borrow_mut().record_kinds = false;
            match frag {
                Frag::Chunk(c) => p.borrow_mut().chunk = Some(*c),
                Frag::Cuts(v) => p.borrow_mut().cuts = v.clone(),
                _ => {}
            }
            let inst = InstRead { inner: Inst::new(s.bytes.clone(), p) };
            let got = match frag {
                Frag::BufReader(c) => run_stream_partial(BufReader::with_capacity(*c, inst), *k),
                _ => run_stream_partial(inst, *k),
            };
            let case = json!({"scenario": s.label, "route": "stream-partial", "take": k, "fragmentation": frag.describe(), "big": BIG.load(std::sync::atomic::Ordering::Relaxed),
                "frag": match frag { Frag::Chunk(c) => json!({"chunk": c}), Frag::Cuts(v) => json!({"cuts": v}), Frag::BufReader(c) => json!({"bufreader": c}), Frag::Interrupt { chunk, at } => json!({"interrupt": [chunk, at]}) }});
            match (base, got) {
                (Ok(b), Ok(g)) if b == g && b.entries.len() == 2 && b.entries.iter().all(|e| e.content.is_ok()) => st.class(&format!("same-as-unfragmented/stream-partial/{}", frag.class())),
                (Ok(b), Ok(g)) if b == g => st.viol("machinery/partial-baseline", format!("{}: the unfragmented partial run is not clean", s.label), case, (3 << 50) + t),
                (_, Err(pn)) | (Err(pn), _) => st.viol(format!("panic/stream-partial/{}", panic_site(&pn)), format!("{}: {pn}", s.label), case, (3 << 50) + t),
                (Ok(b), Ok(g)) => {
                    st.class("DIFFERS");
                    let i = g.entries.iter().zip(&b.entries).position(|(x, y)| x != y).unwrap_or(g.entries.len().min(b.entries.len()));
                    st.viol(
                        format!("reader/partial-consumption/{}/stream/{}", s.label, frag.class()),
                        format!("{} via the streaming reader, {k} bytes taken from every entry, {}: entry {i} is {:?}, with an unfragmented stream {:?}", s.label, frag.describe(), g.entries.get(i).map(|e| (&e.meta.0, e.content.as_ref().map(|c| c.len()).map_err(|e| e.clone()))), b.entries.get(i).map(|e| (&e.meta.0, e.content.as_ref().map(|c| c.len()).map_err(|e| e.clone())))),
                        case,
                        (3 << 50) + t,
                    );
                }
            }
        });
        ctx.stats.merge(s);
    }
    crate::diag!("  [C09] reader side done at {:.1}s ({} schedules)", ctx.elapsed(), items.len());

    // writer side
    let progs = writer_programs(seed);
    let src = crate::props::c02::sources(seed);
    // (program, sink chunk, one short write (call, accepted)); accepted == usize::MAX means: that call returns Interrupted once
    let mut witems: Vec<(usize, Option<usize>, Option<(u64, usize)>)> = vec![];
    let mut wbase = vec![];
    for (pi, (label, calls, pw)) in progs.iter().enumerate() {
        let p = plan();
        let base = run_writer(calls, &src, p.clone());
        if !base.0.iter().all(|r| r.is_ok()) {
            ctx.machinery(format!("writer baseline {label} has failing calls"));
        }
        // the baseline must decode
        let opts = Opts { password: pw.clone(), ..Opts::strict() };
        if let Err(e) = zipparse::validate(&base.1, &opts) {
            ctx.machinery(format!("writer baseline {label} is not a valid archive: {e}"));
        }
        for &c in &chunks {
            witems.push((pi, Some(c), None));
        }
        let pl = p.borrow();
        for (k, (kind, n)) in pl.kinds.iter().zip(&pl.sizes).enumerate() {
            if *kind == Kind::Write {
                witems.push((pi, None, Some((k as u64, usize::MAX))));
            }
            if *kind == Kind::Write && *n >= 2 {
                let mut js = vec![1, n / 2, n - 1];
                js.dedup();
                for j in js {
                    witems.push((pi, None, Some((k as u64, j))));
                }
            }
        }
        drop(pl);
        wbase.push(base);
    }
    counted += witems.len() as u64;
    let progs_ref = &progs;
    let wbase_ref = &wbase;
    let src_ref = &src;
    let s = par_for(witems.len() as u64, 8, |t, st| {
        let (pi, chunk, short) = witems[t as usize];
        let (label, calls, _) = &progs_ref[pi];
        st.evals += 1;
        let p = plan();
        p.borrow_mut().record_kinds = false;
        if let Some(c) = chunk {
            p.borrow_mut().chunk = Some(c);
        }
        if let Some((k, j)) = short {
            p.borrow_mut().devs.insert(k, if j == usize::MAX { Dev::Interrupted } else { Dev::Short(j) });
        }
        let got = run_writer(calls, src_ref, p);
        let case = json!({"writer": label, "chunk": chunk, "call": short.map(|s| s.0), "accept": short.map(|s| if s.1 == usize::MAX { json!("interrupted") } else { json!(s.1) })});
        if let Some((c, r)) = calls.iter().zip(&got.0).find(|(_, r)| r.is_panic()) {
            st.viol(format!("writer/panic/{}", c.opname()), format!("{label}: {} panicked under short writes: {}", c.opname(), r.show()), case, (1 << 50) + t);
            return;
        }
        if matches!(short, Some((_, usize::MAX))) && got.0.iter().any(|r| r.is_err()) {
            // compressor back ends hand an Interrupted from the sink to the caller as an error: reported, not absorbed
            st.class("writer/interrupted-write-surfaced-as-error");
        } else if got != wbase_ref[pi] {
            st.class("WRITER-OUTPUT-DIFFERS");
            let what = if got.0 != wbase_ref[pi].0 { "call results differ" } else { "sink bytes differ" };
            st.viol(
                format!("writer/short-writes-change-output/{label}/{}", if chunk.is_some() { "chunked-sink" } else { "one-short-write" }),
                format!("{label}: with {} the {what} from the run without short writes", match (chunk, short) { (Some(c), _) => format!("a sink accepting at most {c} bytes per write"), (_, Some((k, j))) if j == usize::MAX => format!("I/O call {k} (a write) returning ErrorKind::Interrupted once"),
                    (_, Some((k, j))) => format!("I/O call {k} accepting only {j} bytes"), _ => String::new() }),
                case,
                (1 << 50) + t,
            );
        } else {
            st.class(if chunk.is_some() { "writer-same/chunked-sink" } else { "writer-same/one-short-write" });
        }
    });
    ctx.stats.merge(s);

    // raw copies whose SOURCE archive hands out its bytes in pieces: the produced archive must be byte-identical
    {
        let mut ritems: Vec<(usize, usize)> = vec![];
        for (pi, (_, calls, _)) in progs.iter().enumerate() {
            if calls.iter().any(|c| matches!(c, Call::RawCopy { .. })) {
                for &c in &chunks {
                    ritems.push((pi, c));
                }
                for c in [33usize, 100, 1000, 65535, 65536] {
                    ritems.push((pi, c));
                }
            }
        }
        counted += ritems.len() as u64;
        let ritems_r = &ritems;
        let s = par_for(ritems.len() as u64, 4, |t, st| {
            let (pi, c) = ritems_r[t as usize];
            let (label, calls, _) = &progs_ref[pi];
            st.evals += 1;
            SRC_CHUNK.with(|x| x.set(c));
            let p = plan();
            p.borrow_mut().record_kinds = false;
            let got = run_writer(calls, src_ref, p);
            SRC_CHUNK.with(|x| x.set(0));
            let case = json!({"writer": label, "source_chunk": c});
            if got != wbase_ref[pi] {
                st.class("WRITER-OUTPUT-DIFFERS");
                let what = if got.0 != wbase_ref[pi].0 { format!("call results differ: {:?}", got.0.iter().find(|r| !r.is_ok()).map(|r| r.show())) } else { "sink bytes differ".to_string() };
                st.viol(format!("writer/source-short-reads-change-output/{label}"), format!("{label}: raw-copy sources delivering at most {c} bytes per read: {what}"), case, (4 << 50) + t);
            } else {
                st.class("writer-same/chunked-raw-copy-source");
            }
        });
        ctx.stats.merge(s);
    }

    // zero-length reads on an entry handle before the handle is raw-copied: they transfer nothing and must change nothing
    {
        let mut zitems: Vec<(usize, usize, usize, bool)> = vec![];
        for (si, sb) in src.iter().enumerate() {
            let n = zip::ZipArchive::new(std::io::Cursor::new(&sb[..])).map(|a| a.len()).unwrap_or(0);
            for i in 0..n {
                for k in [1usize, 3] {
                    for raw_open in [false, true] {
                        zitems.push((si, i, k, raw_open));
                    }
                }
            }
        }
        counted += zitems.len() as u64;
        let zr = &zitems;
        let s = par_for(zitems.len() as u64, 4, |t, st| {
            let (si, i, k, raw_open) = zr[t as usize];
            rawcopy_after_empty_reads(src_ref, si, i, k, raw_open, st, (5 << 50) + t);
        });
        ctx.stats.merge(s);
    }

    // caller-side splits of the content
    let (_, content) = contents(seed, 700);
    let mut splits: Vec<(u16, Vec<usize>)> = vec![];
    for m in [0u16, 8, 12, 93] {
        for p in 0..=content.len() {
            splits.push((m, vec![p]));
        }
        for c in 1..=17usize {
            splits.push((m, (1..).map(|i| i * c).take_while(|x| *x < content.len()).collect()));
        }
    }
    counted += splits.len() as u64 * 2;
    let content_ref = &content;
    let s = par_for(splits.len() as u64 * 2, 8, |t, st| {
        let (m, cuts) = &splits[(t / 2) as usize];
        let encrypted = t % 2 == 1;
        st.evals += 1;
        let mut calls = vec![Call::StartFile { name: "split".into(), opts: FOpts { password: if encrypted { Some(PW.to_vec()) } else { None }, ..FOpts::m(*m) } }];
        let mut lo = 0;
        for &c in cuts.iter().chain(std::iter::once(&content_ref.len())) {
            calls.push(Call::Write(content_ref[lo..c].to_vec()));
            lo = c;
        }
        calls.push(Call::Finish);
        let (res, bytes) = exec(&calls, &[]);
        let case = json!({"writer_split": {"method": m, "cuts": if cuts.len() > 40 { json!(format!("uniform {}", cuts[0])) } else { json!(cuts) }, "zipcrypto": encrypted}});
        let order = (2 << 50) + t;
        if !res.iter().all(|r| r.is_ok()) {
            st.viol("writer-split/call-failed", format!("a call failed when the content is written in pieces: {:?}", res.iter().find(|r| !r.is_ok()).map(|r| r.show())), case, order);
            return;
        }
        let pw = if encrypted { Some(PW) } else { None };
        let opts = Opts { password: pw.map(|p| p.to_vec()), ..Opts::strict() };
        let ok_ref = zipparse::validate(&bytes, &opts).ok().and_then(|p| p.entries.first().and_then(|e| zipparse::content(&bytes, e, &opts).ok())).map_or(false, |c| c == *content_ref);
        let ok_crate = observe(&bytes, pw, 1 << 22).ok().and_then(|o| o.entries.first().and_then(|e| e.content.clone().ok())).map_or(false, |c| c == *content_ref);
        if !ok_ref || !ok_crate {
            st.class("SPLIT-CHANGES-CONTENT");
            st.viol(
                format!("writer-split/decodes-differently/m{m}"),
                format!("method {m}, zipcrypto {encrypted}: content written in pieces (cuts {:?}…) does not read back (independent parser ok: {ok_ref}, crate reader ok: {ok_crate})", &cuts[..cuts.len().min(3)]),
                case,
                order,
            );
        } else {
            st.class("writer-split-same");
        }
    });
    ctx.stats.merge(s);
    crate::diag!("  [C09] writer side done at {:.1}s", ctx.elapsed());

    ctx.distinct_counted = counted;
    ctx.stats.states = counted;
    ctx.stats.transitions = ctx.stats.evals;
    ctx.stats.traces = ctx.stats.evals;
    ctx.finish()
}

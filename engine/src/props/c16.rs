//! C16 — WinZip-AES entries decrypt correctly and tampering is detected.
//! E-PROD: (version, strength, inner method, password, plaintext length) product encrypted by
//! an independent encryptor; every single-bit flip of salt / verifier / ciphertext / MAC of
//! the small entries; wrong CRC under AE-1 vs AE-2; wrong and missing passwords.

use crate::reference::zipbuild::{build, ESpec, Enc, Spec};
use crate::reference::zipparse::{self, Opts};
use crate::util::{fnv, guard, hex, panic_site, par_for, Stats};
use crate::zipapi::{exec_append, Call, FOpts};
use crate::Args;
use serde_json::{json, Value};
use std::io::{Cursor, Read};

#[derive(Debug, PartialEq)]
enum Attempt {
    PasswordRequired,
    InvalidPassword,
    OpenErr(String),
    ReadErr(String),
    Clean(Vec<u8>),
    Panic(String),
}

fn attempt(bytes: &[u8], idx: usize, pw: Option<&[u8]>, bufsize: usize) -> Attempt {
    attempt_io(bytes, idx, pw, bufsize, 0)
}

/// `chunk` > 0: the underlying stream hands out at most that many bytes per read call
fn attempt_io(bytes: &[u8], idx: usize, pw: Option<&[u8]>, bufsize: usize, chunk: usize) -> Attempt {
    if chunk > 0 {
        let p = crate::sio::inst::plan();
        p.borrow_mut().record_kinds = false;
        p.borrow_mut().chunk = Some(chunk);
        attempt_on(crate::sio::inst::Inst::new(bytes.to_vec(), p), idx, pw, bufsize)
    } else {
        attempt_on(Cursor::new(bytes), idx, pw, bufsize)
    }
}

fn attempt_on<R: Read + std::io::Seek>(reader: R, idx: usize, pw: Option<&[u8]>, bufsize: usize) -> Attempt {
    let r = guard(|| {
        let mut ar = match zip::ZipArchive::new(reader) {
            Ok(a) => a,
            Err(e) => return Attempt::OpenErr(format!("archive: {e}")),
        };
        let opened = match pw {
            Some(p) => ar.by_index_decrypt(idx, p),
            None => ar.by_index(idx).map(Ok),
        };
        let mut f = match opened {
            Ok(Ok(f)) => f,
            Ok(Err(_)) => return Attempt::InvalidPassword,
            Err(zip::result::ZipError::UnsupportedArchive(m)) if m == zip::result::ZipError::PASSWORD_REQUIRED => return Attempt::PasswordRequired,
            Err(e) => return Attempt::OpenErr(e.to_string()),
        };
        let mut out = vec![];
        if bufsize == 0 {
            return match f.read_to_end(&mut out) {
                Ok(_) => Attempt::Clean(out),
                Err(e) => Attempt::ReadErr(e.to_string()),
            };
        }
        let mut b = vec![0u8; bufsize];
        loop {
            match f.read(&mut b) {
                Ok(0) => return Attempt::Clean(out),
                Ok(n) => out.extend_from_slice(&b[..n]),
                // the retryable non-error of the Read contract (std's own loops call again, too)
                Err(e) if e.kind() == std::io::ErrorKind::Interrupted => {}
                Err(e) => return Attempt::ReadErr(e.to_string()),
            }
        }
    });
    r.unwrap_or_else(Attempt::Panic)
}

#[derive(Clone)]
struct Cfg {
    version: u16,
    strength: u8,
    method: u16,
    pw: Vec<u8>,
    len: usize,
}
impl Cfg {
    fn label(&self) -> String {
        format!("AE-{}/{}-bit/m{}/pw{}B/len{}", self.version, [0, 128, 192, 256][self.strength as usize], self.method, self.pw.len(), self.len)
    }
    fn json(&self) -> Value {
        json!({"version": self.version, "strength": self.strength, "method": self.method, "pw": hex(&self.pw), "len": self.len})
    }
    fn from(v: &Value) -> Cfg {
        Cfg { version: v["version"].as_u64().unwrap_or(2) as u16, strength: v["strength"].as_u64().unwrap_or(3) as u8, method: v["method"].as_u64().unwrap_or(0) as u16, pw: crate::util::unhex(v["pw"].as_str().unwrap_or("")), len: v["len"].as_u64().unwrap_or(0) as usize }
    }
    fn content(&self, seed: u64) -> Vec<u8> {
        let mut r = crate::util::Rng(seed ^ 0x16 ^ self.len as u64);
        if self.len > 1000 {
            let mut v = vec![];
            while v.len() < self.len {
                v.extend_from_slice(b"aes payload ");
                v.extend(r.bytes(5));
            }
            v.truncate(self.len);
            v
        } else {
            r.bytes(self.len)
        }
    }
    fn build(&self, seed: u64, crc_override: Option<u32>) -> (Vec<u8>, Vec<u8>, (usize, usize)) {
        self.build_dd(seed, crc_override, crate::reference::zipbuild::Dd::None)
    }
    /// `dd`: the entry as a one-pass encryptor writes it - general-purpose bit 3, CRC and sizes in a data descriptor
    fn build_dd(&self, seed: u64, crc_override: Option<u32>, dd: crate::reference::zipbuild::Dd) -> (Vec<u8>, Vec<u8>, (usize, usize)) {
        let content = self.content(seed);
        let spec = Spec {
            entries: vec![
                ESpec { name: b"plain".to_vec(), method: 8, content: b"neighbour".to_vec(), ..Default::default() },
                ESpec { name: b"aes".to_vec(), method: self.method, content: content.clone(), crc_override, dd, enc: Enc::Aes { version: self.version, strength: self.strength, pw: self.pw.clone(), salt_seed: (self.len as u8).wrapping_add(self.strength) }, ..Default::default() },
            ],
            ..Default::default()
        };
        let (bytes, lay) = build(&spec);
        let l = &lay.entries[1];
        (bytes, content, (l.data_pos as usize, l.csize as usize))
    }
}

fn check_cfg(c: &Cfg, seed: u64, flips: bool, st: &mut Stats, order: u64) {
    let (bytes, content, (d0, dn)) = c.build(seed, None);
    let what = c.label();
    let case = |extra: Value| json!({"cfg": c.json(), "extra": extra});
    st.distinct_hash(fnv(&bytes));
    // right password
    for &b in &[1usize, 16, 17, 4096, 0] {
        st.evals += 1;
        match attempt(&bytes, 1, Some(&c.pw), b) {
            Attempt::Clean(x) if x == content => st.class("right-password:content"),
            Attempt::Panic(p) => st.viol(format!("panic/{}", panic_site(&p)), format!("{what}: {p}"), case(json!({"buf": b})), order),
            other => st.viol(
                format!("right-password-fails/AE-{}/m{}", c.version, c.method),
                format!("{what}: correct password, caller buffer {b}: {}", match &other { Attempt::Clean(x) => format!("{} bytes that differ from the original {}", x.len(), content.len()), o => format!("{o:?}") }),
                case(json!({"buf": b})),
                order,
            ),
        }
    }
    // right password over an underlying stream that returns short reads
    for &(b, ch) in &[(0usize, 1usize), (16, 1), (4096, 3), (0, 7), (17, 5), (1, 4095)] {
        st.evals += 1;
        match attempt_io(&bytes, 1, Some(&c.pw), b, ch) {
            Attempt::Clean(x) if x == content => st.class("right-password:content(short underlying reads)"),
            Attempt::Panic(p) => st.viol(format!("panic/{}", panic_site(&p)), format!("{what}: {p}"), case(json!({"buf": b, "chunk": ch})), order),
            other => st.viol(
                format!("right-password-fails/short-underlying-reads/AE-{}/m{}", c.version, c.method),
                format!("{what}: correct password, caller buffer {b}, underlying reads of at most {ch} bytes: {}", match &other { Attempt::Clean(x) => format!("{} bytes that differ from the original {}", x.len(), content.len()), o => format!("{o:?}") }),
                case(json!({"buf": b, "chunk": ch})),
                order,
            ),
        }
    }
    // right password while one underlying I/O call (every index) answers ErrorKind::Interrupted once; callers retry
    if c.len <= 100 {
        use crate::sio::inst::{plan, Dev, Inst};
        for &(b, ch) in &[(0usize, 4096usize), (7, 5)] {
            let p0 = plan();
            p0.borrow_mut().record_kinds = false;
            p0.borrow_mut().chunk = Some(ch);
            let _ = attempt_on(Inst::new(bytes.clone(), p0.clone()), 1, Some(&c.pw), b);
            let n = p0.borrow().calls;
            for k in 0..n {
                let p = plan();
                p.borrow_mut().record_kinds = false;
                p.borrow_mut().chunk = Some(ch);
                p.borrow_mut().devs.insert(k, Dev::Interrupted);
                st.evals += 1;
                match attempt_on(Inst::new(bytes.clone(), p), 1, Some(&c.pw), b) {
                    Attempt::Clean(x) if x == content => st.class("right-password:content(EINTR retried)"),
                    // an open that hands the Interrupted to its caller instead of retrying reported an error: accepted
                    Attempt::OpenErr(_) => st.class("right-password:EINTR-surfaced-at-open"),
                    Attempt::Panic(p) => st.viol(format!("panic/{}", panic_site(&p)), format!("{what}: {p}"), case(json!({"buf": b, "chunk": ch, "interrupted_call": k})), order),
                    other => st.viol(
                        format!("right-password-fails/interrupted-read/AE-{}/m{}", c.version, c.method),
                        format!("{what}: correct password, caller buffer {b}, underlying reads of at most {ch} bytes, I/O call {k} answers Interrupted once and is retried: {}", match &other { Attempt::Clean(x) => format!("a clean end of file after {} bytes that differ from the original {}", x.len(), content.len()), o => format!("{o:?}") }),
                        case(json!({"buf": b, "chunk": ch, "interrupted_call": k})),
                        order,
                    ),
                }
            }
        }
    }
    // (A trial that answered one I/O call with ErrorKind::WouldBlock and had the caller read again was removed: the zstd
    // decoder underneath does not resume after a non-Interrupted error ("incomplete frame" on the unchanged tree), the
    // statement speaks of passwords and tampering, and C11 accepts "an error reported" as the outcome of a failing call.
    // Only ErrorKind::Interrupted, which std's own loops retry, is injected with a retrying caller.)
    // no password
    st.evals += 1;
    match attempt(&bytes, 1, None, 0) {
        Attempt::PasswordRequired => st.class("no-password:password-required"),
        other => st.viol("no-password-not-refused", format!("{what}: by_index without password gives {other:?}"), case(json!("no-password")), order),
    }
    // wrong passwords
    for w in [&b"wrong"[..], &b""[..], &[0xffu8, 0xfe][..]] {
        if w == &c.pw[..] {
            continue;
        }
        st.evals += 1;
        match attempt(&bytes, 1, Some(w), 0) {
            Attempt::InvalidPassword => st.class("wrong-password:rejected"),
            Attempt::ReadErr(_) => st.class("wrong-password:read-error"),
            other => st.viol("wrong-password-completed", format!("{what}: wrong password {} gives {}", hex(w), match &other { Attempt::Clean(x) => format!("a completed read of {} bytes", x.len()), o => format!("{o:?}") }), case(json!({"wrong": hex(w)})), order),
        }
    }
    // wrong CRC: enforced for AE-1, ignored for AE-2
    {
        st.evals += 1;
        let (b2, _, _) = c.build(seed, Some(0x1234_5678));
        let r = attempt(&b2, 1, Some(&c.pw), 0);
        match (c.version, &r) {
            (1, Attempt::ReadErr(_)) => st.class("ae1-wrong-crc:read-error"),
            (1, Attempt::Clean(x)) if c.len == 0 && x.is_empty() && false => {}
            (1, _) => st.viol("ae1-crc-not-enforced", format!("{what}: AE-1 entry with a wrong CRC field gives {}", match &r { Attempt::Clean(x) => format!("a completed read of {} bytes", x.len()), o => format!("{o:?}") }), case(json!("wrong-crc")), order),
            (_, Attempt::Clean(x)) if *x == content => st.class("ae2-wrong-crc:ignored"),
            (_, _) => st.viol("ae2-crc-not-ignored", format!("{what}: AE-2 entry with a non-zero CRC field gives {r:?}"), case(json!("wrong-crc")), order),
        }
    }
    // the archive taken through an append round by the crate's writer (new_append, one small entry added, finish): the
    // independent encryptor's entry is still in it and still decrypts to its content
    {
        st.evals += 1;
        let (res, again) = exec_append(&bytes, &[Call::StartFile { name: "added".into(), opts: FOpts::m(8) }, Call::Write(b"added later".to_vec()), Call::Finish], &[]);
        if res.iter().all(|r| r.is_ok()) {
            match attempt(&again, 1, Some(&c.pw), 0) {
                Attempt::Clean(x) if x == content => st.class("after-append-round:content"),
                Attempt::Panic(p) => st.viol(format!("panic/{}", panic_site(&p)), format!("{what} after an append round: {p}"), case(json!("append-round")), order),
                other => st.viol(format!("right-password-fails/after-append-round/AE-{}/m{}", c.version, c.method), format!("{what}: after the archive went through new_append + finish the correct password gives {}", match &other { Attempt::Clean(x) => format!("{} other bytes", x.len()), o => format!("{o:?}") }), case(json!("append-round")), order),
            }
        } else {
            st.class("append-round-refused");
        }
    }
    // other blocks around the AES block, as other producers lay them out: ZIP64 blocks (every subset of sizes / offset, in
    // front of the AES block; with a local ZIP64 block) and unknown blocks - empty ones included - in front of it
    {
        let xb = crate::reference::zipbuild::extra_block;
        let fronts: Vec<(&str, Vec<u8>)> = vec![("empty-unknown-block", xb(0xcafe, b"")), ("empty-0x617a-block", xb(0x617a, b"")), ("unknown-block", xb(0x7777, b"front")), ("two-blocks", [xb(0xcafe, b""), xb(0x5455, &[1, 0, 0, 0, 0])].concat())];
        let mut variants: Vec<(String, ESpec)> = vec![];
        let base = ESpec { name: b"aes".to_vec(), method: c.method, content: content.clone(), enc: Enc::Aes { version: c.version, strength: c.strength, pw: c.pw.clone(), salt_seed: 9 }, ..Default::default() };
        for z in [1u8, 2, 3, 4, 7] {
            variants.push((format!("zip64-central-{z}"), ESpec { zip64_central: z, ..base.clone() }));
            variants.push((format!("zip64-central-{z}+local"), ESpec { zip64_central: z, zip64_local: true, ..base.clone() }));
        }
        for (n, f) in &fronts {
            variants.push((format!("front:{n}"), ESpec { local_extra: f.clone(), central_extra: f.clone(), extra_first: true, ..base.clone() }));
            variants.push((format!("front:{n}+zip64"), ESpec { local_extra: f.clone(), central_extra: f.clone(), extra_first: true, zip64_central: 3, ..base.clone() }));
        }
        for (label, e) in variants {
            st.evals += 1;
            let spec = Spec { entries: vec![ESpec { name: b"plain".to_vec(), method: 8, content: b"neighbour".to_vec(), ..Default::default() }, e], ..Default::default() };
            let b = build(&spec).0;
            match attempt(&b, 1, Some(&c.pw), 0) {
                Attempt::Clean(x) if x == content => st.class("blocks-around-the-aes-block:content"),
                Attempt::Panic(p) => st.viol(format!("panic/{}", panic_site(&p)), format!("{what} ({label}): {p}"), case(json!({"layout": label})), order),
                other => st.viol(format!("right-password-fails/extra-layout/AE-{}", c.version), format!("{what}, extra area laid out as '{label}': correct password gives {}", match &other { Attempt::Clean(x) => format!("{} other bytes", x.len()), o => format!("{o:?}") }), case(json!({"layout": label})), order),
            }
        }
    }
    // the same entry written in one pass (bit 3, data descriptor with / without signature): right password -> content; the CRC
    // rule is the same (enforced for AE-1, ignored for AE-2) - the central directory carries the CRC either way
    for dd in [crate::reference::zipbuild::Dd::Sig32, crate::reference::zipbuild::Dd::NoSig32] {
        st.evals += 2;
        let (b1, _, _) = c.build_dd(seed, None, dd);
        match attempt(&b1, 1, Some(&c.pw), 0) {
            Attempt::Clean(x) if x == content => st.class("data-descriptor:right-password:content"),
            Attempt::Panic(p) => st.viol(format!("panic/{}", panic_site(&p)), format!("{what} (data descriptor): {p}"), case(json!({"dd": format!("{dd:?}")})), order),
            other => st.viol(format!("right-password-fails/data-descriptor/AE-{}/m{}", c.version, c.method), format!("{what}, written with a data descriptor ({dd:?}): correct password gives {}", match &other { Attempt::Clean(x) => format!("{} other bytes", x.len()), o => format!("{o:?}") }), case(json!({"dd": format!("{dd:?}")})), order),
        }
        let (b2, _, _) = c.build_dd(seed, Some(0x1234_5678), dd);
        let r = attempt(&b2, 1, Some(&c.pw), 0);
        match (c.version, &r) {
            (1, Attempt::ReadErr(_)) => st.class("ae1-wrong-crc:read-error"),
            (1, _) => st.viol("ae1-crc-not-enforced/data-descriptor", format!("{what}, written with a data descriptor ({dd:?}): AE-1 entry with a wrong CRC field gives {}", match &r { Attempt::Clean(x) => format!("a completed read of {} bytes", x.len()), o => format!("{o:?}") }), case(json!({"wrong-crc-dd": format!("{dd:?}")})), order),
            (_, Attempt::Clean(x)) if *x == content => st.class("ae2-wrong-crc:ignored"),
            (_, _) => st.viol("ae2-crc-not-ignored/data-descriptor", format!("{what}, data descriptor: AE-2 entry with a non-zero CRC field gives {r:?}"), case(json!({"wrong-crc-dd": format!("{dd:?}")})), order),
        }
    }
    // every single-bit flip of salt / verifier / ciphertext / MAC
    if flips && c.len > 0 {
        let salt = crate::reference::winzipaes::salt_len(c.strength);
        let mut b = bytes.clone();
        for pos in 0..dn {
            let region = if pos < salt {
                "salt"
            } else if pos < salt + 2 {
                "verifier"
            } else if pos < dn - 10 {
                "ciphertext"
            } else {
                "mac"
            };
            for bit in 0..8 {
                b[d0 + pos] ^= 1 << bit;
                st.evals += 1;
                for &buf in &[0usize, 3] {
                    match attempt(&b, 1, Some(&c.pw), buf) {
                        Attempt::InvalidPassword | Attempt::OpenErr(_) => st.class(&format!("flip-{region}:rejected-at-open")),
                        Attempt::ReadErr(_) => st.class(&format!("flip-{region}:read-error")),
                        Attempt::Panic(p) => st.viol(format!("panic/{}", panic_site(&p)), format!("{what}: flip at {region}+{pos} bit {bit}: {p}"), case(json!({"flip": [pos, bit]})), order),
                        Attempt::Clean(x) => {
                            st.class("TAMPERED-READ-COMPLETED");
                            st.viol(
                                format!("tampering-undetected/{region}/AE-{}/m{}", c.version, c.method),
                                format!(
                                    "{what}: bit {bit} of byte {pos} ({region}) flipped, correct password, caller buffer {buf}: the read completed with {} bytes ({})",
                                    x.len(),
                                    if x == content { "equal to the original" } else { "different from the original" }
                                ),
                                case(json!({"flip": [pos, bit], "buf": buf})),
                                order,
                            );
                        }
                        Attempt::PasswordRequired => st.viol("flip/password-required", format!("{what}: unexpected password-required"), case(json!({"flip": [pos, bit]})), order),
                    }
                }
                b[d0 + pos] ^= 1 << bit;
            }
        }
    }
    // the verifier replaced as a whole by values a reader might take for "absent": all zero, all ones, the two bytes swapped,
    // either byte zeroed or set to 0xff (whenever that differs from the real value)
    if flips && c.len > 0 {
        let salt = crate::reference::winzipaes::salt_len(c.strength);
        let v0 = [bytes[d0 + salt], bytes[d0 + salt + 1]];
        let cands: [[u8; 2]; 7] = [[0, 0], [0xff, 0xff], [v0[1], v0[0]], [0, v0[1]], [v0[0], 0], [0xff, v0[1]], [v0[0], 0xff]];
        for v in cands {
            if v == v0 {
                continue;
            }
            let mut b = bytes.clone();
            b[d0 + salt] = v[0];
            b[d0 + salt + 1] = v[1];
            st.evals += 1;
            match attempt(&b, 1, Some(&c.pw), 0) {
                Attempt::InvalidPassword | Attempt::OpenErr(_) => st.class("verifier-replaced:rejected-at-open"),
                Attempt::ReadErr(_) => st.class("verifier-replaced:read-error"),
                Attempt::Panic(p) => st.viol(format!("panic/{}", panic_site(&p)), format!("{what}: verifier replaced by {v:02x?}: {p}"), case(json!({"verifier": v})), order),
                Attempt::PasswordRequired => st.viol("flip/password-required", format!("{what}: unexpected password-required"), case(json!({"verifier": v})), order),
                Attempt::Clean(x) => {
                    st.class("TAMPERED-READ-COMPLETED");
                    st.viol(
                        format!("tampering-undetected/verifier-replaced/AE-{}/m{}", c.version, c.method),
                        format!("{what}: password verifier {v0:02x?} replaced by {v:02x?}, correct password: the read completed with {} bytes", x.len()),
                        case(json!({"verifier": v})),
                        order,
                    );
                }
            }
        }
    }
    // two simultaneous changes (bound 2) on one small stored entry per (version, strength): every pair of bits of the
    // authentication code, and one ciphertext bit together with every value of every authentication-code byte
    if flips && c.len == 17 && c.method == 0 && c.pw.len() <= 4 {
        let mut b = bytes.clone();
        let mac0 = d0 + dn - 10;
        let mut pair = |b: &[u8], what2: String, extra: Value, st: &mut Stats| {
            st.evals += 1;
            match attempt(b, 1, Some(&c.pw), 0) {
                Attempt::InvalidPassword | Attempt::OpenErr(_) => st.class("two-changes:rejected-at-open"),
                Attempt::ReadErr(_) => st.class("two-changes:read-error"),
                Attempt::Panic(p) => st.viol(format!("panic/{}", panic_site(&p)), format!("{what}: {what2}: {p}"), case(extra), order),
                Attempt::PasswordRequired => st.viol("flip/password-required", format!("{what}: unexpected password-required"), case(extra), order),
                Attempt::Clean(x) => {
                    st.class("TAMPERED-READ-COMPLETED");
                    st.viol(
                        format!("tampering-undetected/two-changes/AE-{}", c.version),
                        format!("{what}: {what2}, correct password: the read completed with {} bytes ({})", x.len(), if x == content { "equal to the original" } else { "different from the original" }),
                        case(extra),
                        order,
                    );
                }
            }
        };
        for i in 0..80usize {
            for j in i + 1..80 {
                b[mac0 + i / 8] ^= 1 << (i % 8);
                b[mac0 + j / 8] ^= 1 << (j % 8);
                pair(&b, format!("bits {i} and {j} of the authentication code flipped"), json!({"mac_bits": [i, j]}), st);
                b[mac0 + i / 8] ^= 1 << (i % 8);
                b[mac0 + j / 8] ^= 1 << (j % 8);
            }
        }
        let ct0 = d0 + salt_len_of(c.strength) + 2;
        b[ct0] ^= 1;
        for k in 0..10usize {
            let orig = b[mac0 + k];
            for v in 0..=255u8 {
                if v == orig {
                    continue;
                }
                b[mac0 + k] = v;
                pair(&b, format!("ciphertext bit 0 flipped and authentication-code byte {k} set to {v:#04x}"), json!({"ct_bit0_and_mac_byte": [k, v]}), st);
            }
            b[mac0 + k] = orig;
        }
    }
    // independent decryption sanity (the builder's own output must be decryptable by the reference, otherwise the seed is wrong)
    if let Ok(p) = zipparse::parse(&bytes, &Opts::lenient()) {
        let raw = zipparse::raw_data(&bytes, &p.entries[1]).unwrap_or_default();
        if crate::reference::winzipaes::decrypt(&c.pw, c.strength, &raw).is_err() {
            st.viol("machinery/reference-encryptor", format!("{what}: the reference cannot decrypt its own output"), case(json!("selftest")), order);
        }
    }
}

fn salt_len_of(strength: u8) -> usize {
    crate::reference::winzipaes::salt_len(strength)
}

fn replay(case: &Value, st: &mut Stats, seed: u64) {
    let c = Cfg::from(&case["cfg"]);
    check_cfg(&c, seed, c.len <= 33, st, 0);
}

pub fn run(args: &Args) -> i32 {
    let mut ctx = crate::new_ctx("C16", args);
    let seed = args.seed;
    if let Some(path) = &args.replay {
        return crate::props::replay_file(ctx, path, |c, st| replay(c, st, seed));
    }
    let thorough = args.tier.thorough();
    let pws: Vec<Vec<u8>> = vec![b"p".to_vec(), (0..64u8).map(|i| b'a' + i % 26).collect(), vec![0xff, 0x00, 0x80, 0xc3]];
    let lens = [0usize, 1, 15, 16, 17, 32, 33, 100, 70_001];
    let mut cfgs = vec![];
    for version in [1u16, 2] {
        for strength in [1u8, 2, 3] {
            for method in [0u16, 8, 12, 93] {
                for pw in &pws {
                    for &len in &lens {
                        cfgs.push(Cfg { version, strength, method, pw: pw.clone(), len });
                    }
                }
            }
        }
    }
    ctx.rule = format!(
        "E-PROD: {{AE-1, AE-2}} x {{128,192,256}} x inner method {{stored, deflate, bzip2, zstd}} x password {{'p', 64 bytes, non-UTF-8}} x plaintext length {{0,1,15,16,17,32,33,100,70001}} = {} entries encrypted by an independent implementation \
         (PBKDF2-HMAC-SHA1, AES-CTR little-endian counter, HMAC-SHA1-80). For each: correct password under 5 caller buffer sizes returns the plaintext; no password -> password-required; 3 wrong passwords rejected or failing on read; wrong CRC field: read error for AE-1, ignored for AE-2. \
         For every entry with 1..=33 plaintext bytes{}: EVERY single-bit flip of salt, verifier, ciphertext and authentication code, read with 2 caller buffer sizes, must fail at open or on read no later than EOF; the right password is also tried over underlying streams that return 1/3/5/7/4095-byte short reads; on one stored 17-byte entry per (version, strength): every PAIR of authentication-code bits and (one ciphertext bit x every value of every authentication-code byte). distinct_nontrivial = distinct archives (hash set) + bit flips (counted).",
        cfgs.len(),
        if thorough { "" } else { " (quick: the two short passwords)" }
    );
    ctx.assume("reference::winzipaes follows the WinZip AE-1/AE-2 specification and is assembled from the pbkdf2/hmac/sha1/aes crates directly, not from the crate under test");
    ctx.uncovered("tampering of larger compressed entries (the statement quantifies over small entries); physically truncated entries");
    ctx.bound("configurations", json!(cfgs.len()));
    let cfgs_r = &cfgs;
    let s = par_for(cfgs.len() as u64, 1, |i, st| {
        let c = &cfgs_r[i as usize];
        let flips = c.len <= 33 && (thorough || c.pw.len() <= 4);
        let before = st.evals;
        check_cfg(c, seed, flips, st, i);
        if flips {
            st.count("bit_flips", (st.evals - before).saturating_sub(10));
        }
        if i == 30 {
            st.sample(c.json());
        }
    });
    ctx.distinct_counted = s.extra.get("bit_flips").copied().unwrap_or(0);
    ctx.stats.merge(s);
    ctx.stats.states = ctx.stats.distinct.len() as u64 + ctx.distinct_counted;
    ctx.stats.transitions = ctx.stats.evals;
    ctx.stats.traces = ctx.stats.evals;
    ctx.finish()
}

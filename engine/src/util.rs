//! Shared run context: tiers, statistics, violation collection, evidence writing,
//! known-findings handling, panic capture and the parallel driver.

use serde_json::{json, Map, Value};
use std::cell::RefCell;
use std::collections::{BTreeMap, HashSet};
use std::panic::{catch_unwind, AssertUnwindSafe};
use std::sync::atomic::{AtomicU64, Ordering};
use std::sync::Mutex;
use std::time::Instant;

/// Root of the verification tree: /verif, or the directory ./check was started from (background snapshots).
pub fn verif_root() -> String {
    std::env::var("ZIPMC_VERIF_ROOT").unwrap_or_else(|_| "/verif".to_string())
}

// ---------------------------------------------------------------------------------------------
// stderr handling: the crate under test prints "ZipWriter drop failed: ..." to stderr whenever a
// dropped writer cannot finalize; the explorations provoke that millions of times. File
// descriptor 2 is pointed at /dev/null and the harness's own diagnostics go to a saved copy.

extern "C" {
    fn dup(fd: i32) -> i32;
    fn dup2(oldfd: i32, newfd: i32) -> i32;
}
static DIAG_FD: std::sync::atomic::AtomicI32 = std::sync::atomic::AtomicI32::new(2);

pub fn silence_crate_stderr() {
    use std::os::fd::AsRawFd;
    // ZIPMC_KEEP_STDERR=1: leave the crate's and the runtime's messages visible (diagnosing an abort in a replay)
    if std::env::var_os("ZIPMC_KEEP_STDERR").is_some() {
        return;
    }
    unsafe {
        let saved = dup(2);
        if saved < 0 {
            return;
        }
        if let Ok(null) = std::fs::OpenOptions::new().write(true).open("/dev/null") {
            if dup2(null.as_raw_fd(), 2) >= 0 {
                DIAG_FD.store(saved, std::sync::atomic::Ordering::SeqCst);
            }
        }
    }
}
pub fn diag_write(s: &str) {
    use std::io::Write;
    use std::os::fd::FromRawFd;
    let fd = DIAG_FD.load(std::sync::atomic::Ordering::SeqCst);
    let mut f = std::mem::ManuallyDrop::new(unsafe { std::fs::File::from_raw_fd(fd) });
    let _ = f.write_all(s.as_bytes());
}
#[macro_export]
macro_rules! diag {
    ($($arg:tt)*) => {{
        $crate::util::diag_write(&format!("{}\n", format!($($arg)*)));
    }};
}

#[derive(Clone, Copy, PartialEq, Eq, Debug)]
pub enum Tier {
    Quick,
    Thorough,
}
impl Tier {
    pub fn name(self) -> &'static str {
        match self {
            Tier::Quick => "quick",
            Tier::Thorough => "thorough",
        }
    }
    pub fn pick<T>(self, q: T, t: T) -> T {
        match self {
            Tier::Quick => q,
            Tier::Thorough => t,
        }
    }
    pub fn thorough(self) -> bool {
        self == Tier::Thorough
    }
}

// ---------------------------------------------------------------------------------------------
// panic capture

thread_local! {
    static LAST_PANIC: RefCell<Option<String>> = const { RefCell::new(None) };
}

/// Install a silent panic hook which records "message @ file" of the last panic per thread.
pub fn install_panic_hook() {
    std::panic::set_hook(Box::new(|info| {
        let msg = if let Some(s) = info.payload().downcast_ref::<&str>() {
            (*s).to_string()
        } else if let Some(s) = info.payload().downcast_ref::<String>() {
            s.clone()
        } else {
            "<non-string panic>".to_string()
        };
        let loc = info
            .location()
            .map(|l| format!("{}:{}", l.file(), l.line()))
            .unwrap_or_default();
        let _ = LAST_PANIC.try_with(|p| {
            if let Ok(mut p) = p.try_borrow_mut() {
                *p = Some(format!("{msg} @ {loc}"));
            }
        });
    }));
}

/// Run `f`, turning a panic into `Err(description)`.
pub fn guard<T>(f: impl FnOnce() -> T) -> Result<T, String> {
    match catch_unwind(AssertUnwindSafe(f)) {
        Ok(v) => Ok(v),
        Err(_) => Err(LAST_PANIC
            .with(|p| p.borrow_mut().take())
            .unwrap_or_else(|| "<panic>".into())),
    }
}

/// Reduce a panic description to a stable signature component: message without numbers,
/// file without line.
pub fn panic_site(desc: &str) -> String {
    let (msg, loc) = match desc.rfind(" @ ") {
        Some(i) => (&desc[..i], &desc[i + 3..]),
        None => (desc, ""),
    };
    let file = loc.rsplit_once(':').map(|x| x.0).unwrap_or(loc);
    let file = file.rsplit('/').next().unwrap_or(file);
    let mut m: String = msg
        .chars()
        .map(|c| if c.is_ascii_digit() { '#' } else { c })
        .collect();
    while m.contains("##") {
        m = m.replace("##", "#");
    }
    if m.len() > 90 {
        let mut cut = 90;
        while !m.is_char_boundary(cut) {
            cut -= 1;
        }
        m.truncate(cut);
    }
    format!("{m} [{file}]")
}

// ---------------------------------------------------------------------------------------------
// violations and statistics

#[derive(Clone, Debug)]
pub struct Viol {
    /// stable signature: oracle clause + failure site + coarse case descriptor
    pub sig: String,
    pub detail: String,
    /// replayable case description
    pub case: Value,
    /// enumeration order key (smaller = simpler); the smallest per signature is kept
    pub order: u64,
}

#[derive(Default)]
pub struct Stats {
    pub evals: u64,
    pub states: u64,
    pub transitions: u64,
    pub traces: u64,
    pub classes: BTreeMap<String, u64>,
    pub distinct: HashSet<u64>,
    pub samples: Vec<Value>,
    pub viols: Vec<Viol>,
    pub max_depth: u64,
    pub extra: BTreeMap<String, u64>,
}

impl Stats {
    pub fn class(&mut self, c: &str) {
        *self.classes.entry(c.to_string()).or_insert(0) += 1;
    }
    pub fn count(&mut self, k: &str, n: u64) {
        *self.extra.entry(k.to_string()).or_insert(0) += n;
    }
    pub fn max(&mut self, k: &str, n: u64) {
        let e = self.extra.entry(k.to_string()).or_insert(0);
        if n > *e {
            *e = n;
        }
    }
    pub fn distinct_hash(&mut self, h: u64) {
        self.distinct.insert(h);
    }
    pub fn distinct_bytes(&mut self, b: &[u8]) {
        self.distinct.insert(fnv(b));
    }
    pub fn sample(&mut self, v: Value) {
        if self.samples.len() < 4 {
            self.samples.push(v);
        }
    }
    pub fn viol(&mut self, sig: impl Into<String>, detail: impl Into<String>, case: Value, order: u64) {
        let sig = sig.into();
        if let Some(v) = self.viols.iter_mut().find(|v| v.sig == sig) {
            if order < v.order {
                v.detail = detail.into();
                v.case = case;
                v.order = order;
            }
            return;
        }
        self.viols.push(Viol { sig, detail: detail.into(), case, order });
    }
    pub fn merge(&mut self, o: Stats) {
        self.evals += o.evals;
        self.states += o.states;
        self.transitions += o.transitions;
        self.traces += o.traces;
        self.max_depth = self.max_depth.max(o.max_depth);
        for (k, v) in o.classes {
            *self.classes.entry(k).or_insert(0) += v;
        }
        for (k, v) in o.extra {
            if k.starts_with("max_") {
                let e = self.extra.entry(k).or_insert(0);
                *e = (*e).max(v);
            } else {
                *self.extra.entry(k).or_insert(0) += v;
            }
        }
        self.distinct.extend(o.distinct);
        for s in o.samples {
            if self.samples.len() < 8 {
                self.samples.push(s);
            }
        }
        for v in o.viols {
            self.viol(v.sig, v.detail, v.case, v.order);
        }
    }
}

impl Stats {
    /// Serialise for transport from a worker subprocess (the distinct set is sent as a count).
    pub fn to_json(&self) -> Value {
        json!({
            "evals": self.evals, "states": self.states, "transitions": self.transitions, "traces": self.traces,
            "classes": self.classes, "distinct": self.distinct.iter().collect::<Vec<_>>(), "samples": self.samples,
            "max_depth": self.max_depth, "extra": self.extra,
            "viols": self.viols.iter().map(|v| json!({"sig": v.sig, "detail": v.detail, "case": v.case, "order": v.order})).collect::<Vec<_>>(),
        })
    }
    pub fn from_json(v: &Value) -> Stats {
        let mut s = Stats::default();
        s.evals = v["evals"].as_u64().unwrap_or(0);
        s.states = v["states"].as_u64().unwrap_or(0);
        s.transitions = v["transitions"].as_u64().unwrap_or(0);
        s.traces = v["traces"].as_u64().unwrap_or(0);
        s.max_depth = v["max_depth"].as_u64().unwrap_or(0);
        if let Some(m) = v["classes"].as_object() {
            for (k, x) in m {
                s.classes.insert(k.clone(), x.as_u64().unwrap_or(0));
            }
        }
        if let Some(m) = v["extra"].as_object() {
            for (k, x) in m {
                s.extra.insert(k.clone(), x.as_u64().unwrap_or(0));
            }
        }
        if let Some(a) = v["distinct"].as_array() {
            for x in a {
                if let Some(h) = x.as_u64() {
                    s.distinct.insert(h);
                }
            }
        }
        if let Some(a) = v["samples"].as_array() {
            s.samples = a.clone();
        }
        if let Some(a) = v["viols"].as_array() {
            for x in a {
                s.viols.push(Viol {
                    sig: x["sig"].as_str().unwrap_or("").to_string(),
                    detail: x["detail"].as_str().unwrap_or("").to_string(),
                    case: x["case"].clone(),
                    order: x["order"].as_u64().unwrap_or(0),
                });
            }
        }
        s
    }
}

pub fn fnv(b: &[u8]) -> u64 {
    let mut h: u64 = 0xcbf29ce484222325;
    for &x in b {
        h ^= x as u64;
        h = h.wrapping_mul(0x100000001b3);
    }
    h
}
pub fn fnv_mix(h: u64, v: u64) -> u64 {
    let mut h = h ^ v.wrapping_mul(0x9E3779B97F4A7C15);
    h = h.rotate_left(27).wrapping_mul(0x100000001b3);
    h ^ (h >> 29)
}

/// Deterministic tiny PRNG for payload bytes only (never for choosing which cases run).
pub struct Rng(pub u64);
impl Rng {
    pub fn next(&mut self) -> u64 {
        // splitmix64
        self.0 = self.0.wrapping_add(0x9E3779B97F4A7C15);
        let mut z = self.0;
        z = (z ^ (z >> 30)).wrapping_mul(0xBF58476D1CE4E5B9);
        z = (z ^ (z >> 27)).wrapping_mul(0x94D049BB133111EB);
        z ^ (z >> 31)
    }
    pub fn bytes(&mut self, n: usize) -> Vec<u8> {
        let mut v = Vec::with_capacity(n);
        while v.len() < n {
            let x = self.next().to_le_bytes();
            let k = (n - v.len()).min(8);
            v.extend_from_slice(&x[..k]);
        }
        v
    }
}

// ---------------------------------------------------------------------------------------------
// parallel driver

pub fn n_threads() -> usize {
    std::env::var("ZIPMC_THREADS")
        .ok()
        .and_then(|s| s.parse().ok())
        .unwrap_or_else(|| std::thread::available_parallelism().map(|n| n.get()).unwrap_or(8))
}

// ---------------------------------------------------------------------------------------------
// hang watchdog: a library call that never returns must become a verdict (or at least an exit), not an endless run

/// (property, tier, seed, level) of the running check, for the evidence stub the watchdog writes
pub static RUN_INFO: Mutex<Option<(String, String, u64, &'static str)>> = Mutex::new(None);
/// budget for one item of a parallel sweep, in milliseconds (ZIPMC_HANG_SECS overrides)
pub static HANG_BUDGET_MS: AtomicU64 = AtomicU64::new(120_000);

pub fn set_run_level(level: &'static str) {
    if let Some(i) = RUN_INFO.lock().unwrap().as_mut() {
        i.3 = level;
    }
}
pub fn set_hang_budget_secs(s: u64) {
    if std::env::var("ZIPMC_HANG_SECS").is_err() {
        HANG_BUDGET_MS.store(s * 1000, Ordering::Relaxed);
    }
}
fn hang_budget_ms() -> u64 {
    std::env::var("ZIPMC_HANG_SECS").ok().and_then(|s| s.parse::<u64>().ok()).map(|s| s * 1000).unwrap_or_else(|| HANG_BUDGET_MS.load(Ordering::Relaxed))
}

/// A sweep item has been running for longer than the budget. Describe it, re-run it alone in a subprocess with three
/// times the budget; if that does not finish either, the call never returns: report, write evidence, exit 1.
/// If it does finish alone, the machine is merely slow: returns and the item gets ten times the budget.
fn hang_suspected(item: u64, ran_ms: u64, dispatched: u64, describe: &(dyn Fn(u64) -> Option<Value> + Sync)) {
    let info = RUN_INFO.lock().unwrap().clone();
    let Some((prop, tier, seed, level)) = info else { return };
    let case = describe(item);
    crate::diag!("  [{prop}] watchdog: sweep item {item} has been running for {:.0}s", ran_ms as f64 / 1000.0);
    let Some(case) = case else {
        // no way to re-run this item alone: give it ten times the budget (a loaded machine, an item made of thousands of
        // cases) before giving up; the second expiry is a machinery error, never a verdict
        crate::diag!("  [{prop}] watchdog: item {item} cannot be re-run alone (no case description); allowing it ten times the budget");
        return;
    };
    let dir = format!("{}/replays/{}", verif_root(), prop);
    let _ = std::fs::create_dir_all(&dir);
    let sig = "hang/call-does-not-return".to_string();
    let path = format!("{dir}/hang-{:016x}.json", fnv(serde_json::to_string(&case).unwrap_or_default().as_bytes()));
    let detail = format!("a library call did not return within {:.0}s (the whole case normally takes far less); re-run alone with three times the budget it still does not finish", ran_ms as f64 / 1000.0);
    let body = json!({"property": prop, "signature": sig, "detail": detail, "case": case});
    let _ = std::fs::write(&path, serde_json::to_string_pretty(&body).unwrap());
    // confirm alone
    let exe = std::env::current_exe().unwrap_or_default();
    let child = std::process::Command::new(&exe).arg(&prop).arg("--replay").arg(&path).env("VERIF_SEED", seed.to_string()).stdout(std::process::Stdio::null()).stderr(std::process::Stdio::null()).spawn();
    let mut finished = false;
    match child {
        Ok(mut c) => {
            let t0 = Instant::now();
            let limit = std::time::Duration::from_millis(hang_budget_ms() * 3);
            loop {
                match c.try_wait() {
                    Ok(Some(_)) => {
                        finished = true;
                        break;
                    }
                    Ok(None) if t0.elapsed() > limit => {
                        let _ = c.kill();
                        let _ = c.wait();
                        break;
                    }
                    Ok(None) => std::thread::sleep(std::time::Duration::from_millis(100)),
                    Err(_) => break,
                }
            }
        }
        Err(e) => {
            crate::diag!("MACHINERY-ERROR: cannot re-run the suspected hang alone: {e}");
            std::process::exit(2);
        }
    }
    if finished {
        crate::diag!("  [{prop}] watchdog: the case finishes when run alone: slow machine, not a hang; continuing");
        let _ = std::fs::remove_file(&path);
        return;
    }
    let ev = json!({
        "property_id": prop, "tier": tier, "seed": seed, "level": level,
        "coverage": {"evaluations": dispatched.max(2), "distinct_nontrivial": dispatched.max(2), "states": dispatched.max(2), "transitions": dispatched.max(2), "traces_validated_against_impl": dispatched.max(2),
            "rule": "run aborted by the hang watchdog: one case of the sweep does not return (confirmed by re-running it alone in a subprocess with three times the budget). The counts are the items of the interrupted sweep that had been handed to workers (each item is a distinct case of the enumeration); earlier sweeps of the same run are not counted",
            "samples": [case], "exhaustive": false, "caps_hit": ["aborted by the hang watchdog"], "violation_signatures": [sig]},
        "assumptions": [], "wall_s": ran_ms as f64 / 1000.0, "violations": 1,
    });
    let evdir = format!("{}/evidence", verif_root());
    let _ = std::fs::create_dir_all(&evdir);
    let _ = std::fs::write(format!("{evdir}/{prop}.json"), serde_json::to_string_pretty(&ev).unwrap() + "\n");
    println!("  violation [{sig}]: {detail}");
    println!("VIOLATION property={prop} replay={path}");
    std::process::exit(1);
}

/// Run `f(i, &mut stats)` for every i in 0..n on all cores with dynamic chunking; merge stats.
pub fn par_for<F>(n: u64, chunk: u64, f: F) -> Stats
where
    F: Fn(u64, &mut Stats) + Sync,
{
    par_for_desc(n, chunk, &|_| None, f)
}

/// Like `par_for`; `describe(i)` renders item i as a replayable case for the hang watchdog.
pub fn par_for_desc<F>(n: u64, chunk: u64, describe: &(dyn Fn(u64) -> Option<Value> + Sync), f: F) -> Stats
where
    F: Fn(u64, &mut Stats) + Sync,
{
    const IDLE: u64 = u64::MAX;
    let next = AtomicU64::new(0);
    let total = Mutex::new(Stats::default());
    let nt = n_threads().max(1);
    let chunk = chunk.max(1);
    let t0 = Instant::now();
    // per worker: the item it is running and since when (ms since t0)
    let slots: Vec<(AtomicU64, AtomicU64)> = (0..nt).map(|_| (AtomicU64::new(IDLE), AtomicU64::new(0))).collect();
    let live = AtomicU64::new(nt as u64);
    std::thread::scope(|s| {
        for w in 0..nt {
            let (slots, next, total, live, f) = (&slots, &next, &total, &live, &f);
            s.spawn(move || {
                let mut st = Stats::default();
                loop {
                    let lo = next.fetch_add(chunk, Ordering::Relaxed);
                    if lo >= n {
                        break;
                    }
                    let hi = (lo + chunk).min(n);
                    for i in lo..hi {
                        slots[w].1.store(t0.elapsed().as_millis() as u64, Ordering::Relaxed);
                        slots[w].0.store(i, Ordering::Release);
                        f(i, &mut st);
                    }
                    slots[w].0.store(IDLE, Ordering::Release);
                }
                slots[w].0.store(IDLE, Ordering::Release);
                total.lock().unwrap().merge(st);
                live.fetch_sub(1, Ordering::Release);
            });
        }
        // the watchdog
        let (slots, live, next) = (&slots, &live, &next);
        s.spawn(move || {
            let mut tolerated: std::collections::HashMap<u64, u64> = Default::default();
            let mut tick = 0u64;
            while live.load(Ordering::Acquire) > 0 {
                std::thread::sleep(std::time::Duration::from_millis(if tick < 40 { 25 } else { 250 }));
                tick += 1;
                let now = t0.elapsed().as_millis() as u64;
                let budget = hang_budget_ms();
                for sl in slots.iter() {
                    let item = sl.0.load(Ordering::Acquire);
                    if item == IDLE {
                        continue;
                    }
                    let since = sl.1.load(Ordering::Relaxed);
                    let allowed = budget * tolerated.get(&item).copied().unwrap_or(1);
                    if now.saturating_sub(since) > allowed && sl.0.load(Ordering::Acquire) == item {
                        if tolerated.contains_key(&item) {
                            crate::diag!("MACHINERY-ERROR: sweep item {item} has not finished after {} s (ten times the budget); giving up", now.saturating_sub(since) / 1000);
                            std::process::exit(2);
                        }
                        hang_suspected(item, now.saturating_sub(since), next.load(Ordering::Relaxed).min(n), describe);
                        tolerated.insert(item, 10);
                    }
                }
            }
        });
    });
    total.into_inner().unwrap()
}

/// Run over a slice of items in parallel.
pub fn par_items<T: Sync, F>(items: &[T], chunk: u64, f: F) -> Stats
where
    F: Fn(usize, &T, &mut Stats) + Sync,
{
    par_for(items.len() as u64, chunk, |i, st| f(i as usize, &items[i as usize], st))
}

// ---------------------------------------------------------------------------------------------
// run context and evidence

pub struct Ctx {
    pub prop: String,
    pub tier: Tier,
    pub seed: u64,
    pub start: Instant,
    pub level: &'static str,
    pub stats: Stats,
    pub rule: String,
    pub bounds: Map<String, Value>,
    pub assumptions: Vec<String>,
    pub not_covered: Vec<String>,
    pub caps_hit: Vec<String>,
    pub exhaustive: bool,
    pub determinism_reruns: u64,
    pub machinery_errors: Vec<String>,
    /// distinct cases counted by a counter instead of the hash set (enumerations that never repeat)
    pub distinct_counted: u64,
}

pub struct Known {
    pub signature: String,
    pub status: String,
    pub what: String,
}

pub fn load_known(prop: &str) -> Vec<Known> {
    let path = format!("{}/known_findings.json", verif_root());
    let txt = match std::fs::read_to_string(&path) {
        Ok(t) => t,
        Err(_) => return vec![],
    };
    let v: Value = match serde_json::from_str(&txt) {
        Ok(v) => v,
        Err(e) => {
            crate::diag!("machinery: known_findings.json unreadable: {e}");
            std::process::exit(2);
        }
    };
    let mut out = vec![];
    if let Some(a) = v.get("findings").and_then(|a| a.as_array()) {
        for e in a {
            if e.get("property").and_then(|p| p.as_str()) == Some(prop) {
                out.push(Known {
                    signature: e.get("signature").and_then(|s| s.as_str()).unwrap_or("").to_string(),
                    status: e.get("status").and_then(|s| s.as_str()).unwrap_or("").to_string(),
                    what: e.get("what").and_then(|s| s.as_str()).unwrap_or("").to_string(),
                });
            }
        }
    }
    out
}

fn sig_matches(pattern: &str, sig: &str) -> bool {
    if let Some(p) = pattern.strip_suffix('*') {
        sig.starts_with(p)
    } else {
        pattern == sig
    }
}

impl Ctx {
    pub fn new(prop: &str, tier: Tier, seed: u64) -> Ctx {
        Ctx {
            prop: prop.to_string(),
            tier,
            seed,
            start: Instant::now(),
            level: "model_checking",
            stats: Stats::default(),
            rule: String::new(),
            bounds: Map::new(),
            assumptions: vec![],
            not_covered: vec![],
            caps_hit: vec![],
            exhaustive: true,
            determinism_reruns: 0,
            machinery_errors: vec![],
            distinct_counted: 0,
        }
    }
    pub fn bound(&mut self, k: &str, v: Value) {
        self.bounds.insert(k.to_string(), v);
    }
    pub fn assume(&mut self, s: &str) {
        self.assumptions.push(s.to_string());
    }
    pub fn uncovered(&mut self, s: &str) {
        self.not_covered.push(s.to_string());
    }
    pub fn cap(&mut self, s: impl Into<String>) {
        self.caps_hit.push(s.into());
        self.exhaustive = false;
    }
    pub fn machinery(&mut self, s: impl Into<String>) {
        self.machinery_errors.push(s.into());
    }
    pub fn elapsed(&self) -> f64 {
        self.start.elapsed().as_secs_f64()
    }

    /// Write evidence, replays; print verdict lines; return the process exit code.
    pub fn finish(mut self) -> i32 {
        let wall = self.start.elapsed().as_secs_f64();
        let known = load_known(&self.prop);
        let mut known_hits: Vec<(String, String)> = vec![];
        let mut real: Vec<Viol> = vec![];
        let mut viols = std::mem::take(&mut self.stats.viols);
        viols.sort_by(|a, b| a.order.cmp(&b.order).then(a.sig.cmp(&b.sig)));
        for v in viols {
            if let Some(k) = known
                .iter()
                .find(|k| k.status == "known" && sig_matches(&k.signature, &v.sig))
            {
                if !known_hits.iter().any(|(s, _)| *s == k.signature) {
                    known_hits.push((k.signature.clone(), k.what.clone()));
                }
            } else {
                real.push(v);
            }
        }
        // vacuity: one outcome class from many executions means nothing collided
        if self.stats.classes.len() < 2 && self.stats.evals > 1 {
            self.machinery_errors.push(format!(
                "vacuous exploration: {} outcome class(es) from {} executions",
                self.stats.classes.len(),
                self.stats.evals
            ));
        }
        let replay_dir = format!("{}/replays/{}", verif_root(), self.prop);
        let mut replay_paths = vec![];
        if !real.is_empty() {
            let _ = std::fs::create_dir_all(&replay_dir);
        }
        for v in &real {
            let fname = format!("{:016x}.json", fnv(v.sig.as_bytes()));
            let path = format!("{replay_dir}/{fname}");
            let body = json!({
                "property": self.prop,
                "signature": v.sig,
                "detail": v.detail,
                "case": v.case,
            });
            let _ = std::fs::write(&path, serde_json::to_string_pretty(&body).unwrap());
            replay_paths.push(path);
        }

        let distinct = self.stats.distinct.len() as u64 + self.distinct_counted;
        let mut cov = Map::new();
        cov.insert("evaluations".into(), json!(self.stats.evals));
        cov.insert("distinct_nontrivial".into(), json!(distinct));
        cov.insert("rule".into(), json!(self.rule));
        cov.insert("states".into(), json!(self.stats.states.max(distinct)));
        cov.insert("transitions".into(), json!(self.stats.transitions.max(self.stats.evals)));
        cov.insert(
            "traces_validated_against_impl".into(),
            json!(if self.stats.traces > 0 { self.stats.traces } else { self.stats.evals }),
        );
        let mut samples = std::mem::take(&mut self.stats.samples);
        if samples.is_empty() {
            samples.push(json!("no sample recorded"));
        }
        cov.insert("samples".into(), Value::Array(samples));
        cov.insert("exhaustive".into(), json!(self.exhaustive && self.caps_hit.is_empty()));
        cov.insert("bounds".into(), Value::Object(self.bounds.clone()));
        cov.insert("caps_hit".into(), json!(self.caps_hit));
        cov.insert("max_depth".into(), json!(self.stats.max_depth));
        cov.insert("outcome_classes".into(), json!(self.stats.classes));
        cov.insert("counters".into(), json!(self.stats.extra));
        cov.insert("determinism_reruns".into(), json!(self.determinism_reruns));
        cov.insert("not_covered".into(), json!(self.not_covered));
        cov.insert(
            "known_findings_hit".into(),
            json!(known_hits.iter().map(|(s, _)| s.clone()).collect::<Vec<_>>()),
        );
        cov.insert(
            "violation_signatures".into(),
            json!(real.iter().map(|v| v.sig.clone()).collect::<Vec<_>>()),
        );
        cov.insert("machinery_errors".into(), json!(self.machinery_errors));
        let ev = json!({
            "property_id": self.prop,
            "tier": self.tier.name(),
            "seed": self.seed,
            "level": self.level,
            "coverage": Value::Object(cov),
            "assumptions": self.assumptions,
            "wall_s": (wall * 1000.0).round() / 1000.0,
            "violations": real.len(),
        });
        let evdir = format!("{}/evidence", verif_root());
        let _ = std::fs::create_dir_all(&evdir);
        let evpath = format!("{evdir}/{}.json", self.prop);
        if let Err(e) = std::fs::write(&evpath, serde_json::to_string_pretty(&ev).unwrap() + "\n") {
            crate::diag!("machinery: cannot write evidence {evpath}: {e}");
            return 2;
        }

        println!(
            "[{}] tier={} seed={} evaluations={} distinct={} states={} transitions={} classes={} wall={:.1}s",
            self.prop,
            self.tier.name(),
            self.seed,
            self.stats.evals,
            distinct,
            self.stats.states.max(distinct),
            self.stats.transitions.max(self.stats.evals),
            self.stats.classes.len(),
            wall
        );
        for (k, v) in &self.stats.classes {
            println!("    class {k}: {v}");
        }
        for c in &self.caps_hit {
            println!("    CAP HIT: {c}");
        }
        for (_, what) in &known_hits {
            println!("KNOWN-FINDING: property={} {}", self.prop, what);
        }
        if !self.machinery_errors.is_empty() {
            for m in &self.machinery_errors {
                crate::diag!("MACHINERY-ERROR: {m}");
            }
            // a confirmed violation outranks an incomplete run; without one the run is not a verdict
            if real.is_empty() {
                return 2;
            }
        }
        if real.is_empty() {
            println!("OK property={} held on everything explored", self.prop);
            0
        } else {
            for (v, p) in real.iter().zip(&replay_paths) {
                println!("  violation [{}]: {}", v.sig, v.detail);
                println!("VIOLATION property={} replay={}", self.prop, p);
            }
            1
        }
    }
}

pub fn hex(b: &[u8]) -> String {
    let mut s = String::with_capacity(b.len() * 2);
    for x in b {
        s.push_str(&format!("{x:02x}"));
    }
    s
}
pub fn unhex(s: &str) -> Vec<u8> {
    (0..s.len() / 2)
        .map(|i| u8::from_str_radix(&s[2 * i..2 * i + 2], 16).unwrap_or(0))
        .collect()
}
/// Short printable form of a byte string for details.
pub fn show(b: &[u8]) -> String {
    if b.len() <= 24 {
        format!("{:?}", String::from_utf8_lossy(b))
    } else {
        format!("{:?}…(len {})", String::from_utf8_lossy(&b[..24]), b.len())
    }
}

//! Helpers for driving the crate's public API: shared in-memory sink, option/call descriptions
//! that can be serialised into replay files, a call-level executor with per-call panic capture,
//! and an "observe everything" routine for the seekable reader.

use crate::util::{guard, hex, unhex};
use serde_json::{json, Value};
use std::cell::RefCell;
use std::io::{self, Cursor, Read, Seek, SeekFrom, Write};
use std::mem::ManuallyDrop;
use std::rc::Rc;
use zip::unstable::write::FileOptionsExt;
use zip::write::FileOptions;
use zip::{CompressionMethod, DateTime, ZipArchive, ZipWriter};

// ---------------------------------------------------------------------------------------------
// shared sink

#[derive(Clone, Default)]
pub struct SharedBuf(pub Rc<RefCell<Cursor<Vec<u8>>>>);
impl SharedBuf {
    pub fn new(v: Vec<u8>) -> SharedBuf {
        SharedBuf(Rc::new(RefCell::new(Cursor::new(v))))
    }
    pub fn snapshot(&self) -> Vec<u8> {
        self.0.borrow().get_ref().clone()
    }
    pub fn len(&self) -> usize {
        self.0.borrow().get_ref().len()
    }
    pub fn hash(&self) -> u64 {
        crate::util::fnv(self.0.borrow().get_ref())
    }
    pub fn pos(&self) -> u64 {
        self.0.borrow().position()
    }
}
impl Read for SharedBuf {
    fn read(&mut self, buf: &mut [u8]) -> io::Result<usize> {
        self.0.borrow_mut().read(buf)
    }
}
impl Write for SharedBuf {
    fn write(&mut self, buf: &[u8]) -> io::Result<usize> {
        self.0.borrow_mut().write(buf)
    }
    fn flush(&mut self) -> io::Result<()> {
        Ok(())
    }
}
impl Seek for SharedBuf {
    fn seek(&mut self, pos: SeekFrom) -> io::Result<u64> {
        self.0.borrow_mut().seek(pos)
    }
}

// ---------------------------------------------------------------------------------------------
// options

#[allow(deprecated)]
pub fn method_of(m: u16) -> CompressionMethod {
    CompressionMethod::from_u16(m)
}
#[allow(deprecated)]
pub fn method_id(m: CompressionMethod) -> u16 {
    m.to_u16()
}

#[derive(Clone, Debug, PartialEq)]
pub struct FOpts {
    pub method: u16,
    pub level: Option<i32>,
    pub date: u16,
    pub time: u16,
    pub perm: Option<u32>,
    pub large: bool,
    pub password: Option<Vec<u8>>,
}
impl Default for FOpts {
    fn default() -> Self {
        FOpts { method: 0, level: None, date: 0x5821, time: 0x6000, perm: None, large: false, password: None }
    }
}
impl FOpts {
    pub fn m(method: u16) -> FOpts {
        FOpts { method, ..Default::default() }
    }
    pub fn to_zip(&self) -> FileOptions {
        if SETTERS_TWICE.with(|m| m.get()) {
            // every builder setter is called twice, first with some other value: the last call decides
            let mut o = FileOptions::default()
                .compression_method(method_of(if self.method == 0 { 8 } else { 0 }))
                .compression_method(method_of(self.method))
                .compression_level(Some(1))
                .compression_level(self.level)
                .last_modified_time(DateTime::from_msdos(0x2a21, 0x1234))
                .last_modified_time(DateTime::from_msdos(self.date, self.time))
                .large_file(!self.large)
                .large_file(self.large);
            if let Some(p) = self.perm {
                o = o.unix_permissions(p ^ 0o707).unix_permissions(p);
            }
            if let Some(pw) = &self.password {
                o = o.with_deprecated_encryption(b"an earlier choice").with_deprecated_encryption(pw);
            }
            return o;
        }
        let mut o = FileOptions::default()
            .compression_method(method_of(self.method))
            .compression_level(self.level)
            .last_modified_time(DateTime::from_msdos(self.date, self.time))
            .large_file(self.large);
        if let Some(p) = self.perm {
            o = o.unix_permissions(p);
        }
        if let Some(pw) = &self.password {
            o = o.with_deprecated_encryption(pw);
        }
        o
    }
    pub fn to_json(&self) -> Value {
        json!({"method": self.method, "level": self.level, "date": self.date, "time": self.time,
               "perm": self.perm, "large": self.large, "password": self.password.as_ref().map(|p| hex(p))})
    }
    pub fn from_json(v: &Value) -> FOpts {
        FOpts {
            method: v["method"].as_u64().unwrap_or(0) as u16,
            level: v["level"].as_i64().map(|x| x as i32),
            date: v["date"].as_u64().unwrap_or(0x5821) as u16,
            time: v["time"].as_u64().unwrap_or(0x6000) as u16,
            perm: v["perm"].as_u64().map(|x| x as u32),
            large: v["large"].as_bool().unwrap_or(false),
            password: v["password"].as_str().map(unhex),
        }
    }
}

/// A string that may be long: serialised as {"rep": "n", "count": 65535} when it is a repetition.
pub fn name_json(s: &str) -> Value {
    if s.len() > 64 {
        let first = s.chars().next().unwrap();
        if s.chars().all(|c| c == first) {
            return json!({"rep": first.to_string(), "count": s.chars().count()});
        }
    }
    json!(s)
}
pub fn name_from_json(v: &Value) -> String {
    if let Some(s) = v.as_str() {
        return s.to_string();
    }
    let rep = v["rep"].as_str().unwrap_or("n");
    rep.repeat(v["count"].as_u64().unwrap_or(0) as usize)
}
pub fn bytes_json(b: &[u8]) -> Value {
    if b.len() > 64 && b.iter().all(|&c| c == b[0]) {
        return json!({"rep_byte": b[0], "count": b.len()});
    }
    if b.len() > 1 << 20 {
        return json!({"gen": "content", "len": b.len(), "fnv": crate::util::fnv(b)});
    }
    json!(hex(b))
}
pub fn bytes_from_json(v: &Value, regen: &dyn Fn(usize) -> Vec<u8>) -> Vec<u8> {
    if let Some(s) = v.as_str() {
        return unhex(s);
    }
    if let Some(c) = v.get("rep_byte") {
        return vec![c.as_u64().unwrap_or(0) as u8; v["count"].as_u64().unwrap_or(0) as usize];
    }
    regen(v["len"].as_u64().unwrap_or(0) as usize)
}

// ---------------------------------------------------------------------------------------------
// call-level description of writer programs

#[derive(Clone, Debug, PartialEq)]
pub enum Call {
    SetComment(Vec<u8>),
    Write(Vec<u8>),
    Flush,
    StartFile { name: String, opts: FOpts },
    StartAligned { name: String, opts: FOpts, align: u16 },
    StartExtra { name: String, opts: FOpts },
    EndLocalStartCentral,
    EndExtra,
    AddDir { name: String, opts: FOpts },
    AddSymlink { name: String, target: String, opts: FOpts },
    /// copy entry `idx` of source archive `src`; `raw_open`: open it with by_index_raw
    RawCopy { src: usize, idx: usize, rename: Option<String>, raw_open: bool },
    Finish,
    Drop,
}

impl Call {
    pub fn opname(&self) -> &'static str {
        match self {
            Call::SetComment(_) => "set_comment",
            Call::Write(_) => "write",
            Call::Flush => "flush",
            Call::StartFile { .. } => "start_file",
            Call::StartAligned { .. } => "start_file_aligned",
            Call::StartExtra { .. } => "start_file_with_extra_data",
            Call::EndLocalStartCentral => "end_local_start_central_extra_data",
            Call::EndExtra => "end_extra_data",
            Call::AddDir { .. } => "add_directory",
            Call::AddSymlink { .. } => "add_symlink",
            Call::RawCopy { rename: None, .. } => "raw_copy_file",
            Call::RawCopy { .. } => "raw_copy_file_rename",
            Call::Finish => "finish",
            Call::Drop => "drop",
        }
    }
    pub fn to_json(&self) -> Value {
        match self {
            Call::SetComment(c) => json!({"op":"set_comment","comment":bytes_json(c)}),
            Call::Write(d) => json!({"op":"write","data":bytes_json(d)}),
            Call::Flush => json!({"op":"flush"}),
            Call::StartFile { name, opts } => json!({"op":"start_file","name":name_json(name),"opts":opts.to_json()}),
            Call::StartAligned { name, opts, align } => json!({"op":"start_file_aligned","name":name_json(name),"opts":opts.to_json(),"align":align}),
            Call::StartExtra { name, opts } => json!({"op":"start_file_with_extra_data","name":name_json(name),"opts":opts.to_json()}),
            Call::EndLocalStartCentral => json!({"op":"end_local_start_central_extra_data"}),
            Call::EndExtra => json!({"op":"end_extra_data"}),
            Call::AddDir { name, opts } => json!({"op":"add_directory","name":name_json(name),"opts":opts.to_json()}),
            Call::AddSymlink { name, target, opts } => json!({"op":"add_symlink","name":name_json(name),"target":name_json(target),"opts":opts.to_json()}),
            Call::RawCopy { src, idx, rename, raw_open } => json!({"op":"raw_copy","src":src,"idx":idx,"rename":rename.as_ref().map(|s| name_json(s)),"raw_open":raw_open}),
            Call::Finish => json!({"op":"finish"}),
            Call::Drop => json!({"op":"drop"}),
        }
    }
    pub fn from_json(v: &Value, regen: &dyn Fn(usize) -> Vec<u8>) -> Option<Call> {
        let o = || FOpts::from_json(&v["opts"]);
        let n = || name_from_json(&v["name"]);
        Some(match v["op"].as_str()? {
            "set_comment" => Call::SetComment(bytes_from_json(&v["comment"], regen)),
            "write" => Call::Write(bytes_from_json(&v["data"], regen)),
            "flush" => Call::Flush,
            "start_file" => Call::StartFile { name: n(), opts: o() },
            "start_file_aligned" => Call::StartAligned { name: n(), opts: o(), align: v["align"].as_u64()? as u16 },
            "start_file_with_extra_data" => Call::StartExtra { name: n(), opts: o() },
            "end_local_start_central_extra_data" => Call::EndLocalStartCentral,
            "end_extra_data" => Call::EndExtra,
            "add_directory" => Call::AddDir { name: n(), opts: o() },
            "add_symlink" => Call::AddSymlink { name: n(), target: name_from_json(&v["target"]), opts: o() },
            "raw_copy" => Call::RawCopy {
                src: v["src"].as_u64()? as usize,
                idx: v["idx"].as_u64()? as usize,
                rename: if v["rename"].is_null() { None } else { Some(name_from_json(&v["rename"])) },
                raw_open: v["raw_open"].as_bool().unwrap_or(false),
            },
            "finish" => Call::Finish,
            "drop" => Call::Drop,
            _ => return None,
        })
    }
}

pub fn calls_json(calls: &[Call]) -> Value {
    Value::Array(calls.iter().map(|c| c.to_json()).collect())
}
pub fn calls_from_json(v: &Value, regen: &dyn Fn(usize) -> Vec<u8>) -> Vec<Call> {
    v.as_array().map(|a| a.iter().filter_map(|c| Call::from_json(c, regen)).collect()).unwrap_or_default()
}

/// Result class of one call.
#[derive(Clone, Debug, PartialEq)]
pub enum Res {
    /// Ok; the u64 is the returned number where the call returns one (offsets, padding)
    Ok(u64),
    Err(String),
    Panic(String),
}
impl Res {
    pub fn is_ok(&self) -> bool {
        matches!(self, Res::Ok(_))
    }
    pub fn is_err(&self) -> bool {
        matches!(self, Res::Err(_))
    }
    pub fn is_panic(&self) -> bool {
        matches!(self, Res::Panic(_))
    }
    pub fn class(&self) -> &'static str {
        match self {
            Res::Ok(_) => "ok",
            Res::Err(_) => "err",
            Res::Panic(_) => "panic",
        }
    }
    pub fn show(&self) -> String {
        match self {
            Res::Ok(v) => format!("Ok({v})"),
            Res::Err(e) => format!("Err({e})"),
            Res::Panic(p) => format!("PANIC({p})"),
        }
    }
}

/// The writer under test; kept in a ManuallyDrop so that a panic inside a call does not unwind
/// into `Drop for ZipWriter` (which would panic again and abort the process).
pub struct W<S: Write + Seek> {
    zw: ManuallyDrop<ZipWriter<S>>,
    /// the object is gone (dropped explicitly, or forgotten after a panic)
    pub gone: bool,
    pub panicked: bool,
}

impl<S: Write + Seek> W<S> {
    pub fn new(sink: S) -> W<S> {
        W { zw: ManuallyDrop::new(ZipWriter::new(sink)), gone: false, panicked: false }
    }
    pub fn from_writer(zw: ZipWriter<S>) -> W<S> {
        W { zw: ManuallyDrop::new(zw), gone: false, panicked: false }
    }
    pub fn alive(&self) -> bool {
        !self.gone
    }
    pub fn writer(&self) -> &ZipWriter<S> {
        &self.zw
    }
    fn run<T>(&mut self, f: impl FnOnce(&mut ZipWriter<S>) -> Result<T, String>, conv: impl FnOnce(T) -> u64) -> Res {
        if self.gone {
            return Res::Err("<writer object gone>".into());
        }
        let zw: &mut ZipWriter<S> = &mut self.zw;
        match guard(|| f(zw)) {
            Ok(Ok(v)) => Res::Ok(conv(v)),
            Ok(Err(e)) => Res::Err(e),
            Err(p) => {
                // forget the object: its Drop would run finalize() on a half-updated state
                self.gone = true;
                self.panicked = true;
                Res::Panic(p)
            }
        }
    }
    /// Execute one call. `sources` are the archives raw copies read from.
    pub fn call(&mut self, c: &Call, sources: &[Vec<u8>]) -> Res {
        match c {
            Call::SetComment(cm) => {
                let cm = cm.clone();
                self.run(
                    move |z| {
                        z.set_raw_comment(cm);
                        Ok(())
                    },
                    |_| 0,
                )
            }
            Call::Write(d) => match WRITE_MODE.with(|m| m.get()) {
                // the same bytes handed over with Write::write_vectored (two slices per call, the caller advancing by the
                // returned count, as std's write_all_vectored does)
                1 => self.run(
                    |z| {
                        // (like write_all, no call at all for an empty buffer)
                        let mut rest: &[u8] = d;
                        while !rest.is_empty() {
                            let mid = rest.len() / 2;
                            let n = match z.write_vectored(&[std::io::IoSlice::new(&rest[..mid]), std::io::IoSlice::new(&rest[mid..])]) {
                                Ok(n) => n,
                                // the retryable non-failure of the Write contract: nothing was taken, call again
                                Err(e) if e.kind() == std::io::ErrorKind::Interrupted => continue,
                                Err(e) => return Err(e.to_string()),
                            };
                            if n == 0 {
                                return Err("failed to write whole buffer".into());
                            }
                            rest = &rest[n.min(rest.len())..];
                        }
                        Ok(())
                    },
                    |_| 0,
                ),
                _ => self.run(|z| z.write_all(d).map_err(|e| e.to_string()), |_| 0),
            },
            Call::Flush => self.run(|z| z.flush().map_err(|e| e.to_string()), |_| 0),
            Call::StartFile { name, opts } => self.run(|z| z.start_file(name.clone(), opts.to_zip()).map_err(|e| e.to_string()), |_| 0),
            Call::StartAligned { name, opts, align } => {
                self.run(|z| z.start_file_aligned(name.clone(), opts.to_zip(), *align).map_err(|e| e.to_string()), |v| v)
            }
            Call::StartExtra { name, opts } => {
                self.run(|z| z.start_file_with_extra_data(name.clone(), opts.to_zip()).map_err(|e| e.to_string()), |v| v)
            }
            Call::EndLocalStartCentral => self.run(|z| z.end_local_start_central_extra_data().map_err(|e| e.to_string()), |v| v),
            Call::EndExtra => self.run(|z| z.end_extra_data().map_err(|e| e.to_string()), |v| v),
            Call::AddDir { name, opts } => self.run(|z| z.add_directory(name.clone(), opts.to_zip()).map_err(|e| e.to_string()), |_| 0),
            Call::AddSymlink { name, target, opts } => {
                self.run(|z| z.add_symlink(name.clone(), target.clone(), opts.to_zip()).map_err(|e| e.to_string()), |_| 0)
            }
            Call::RawCopy { src, idx, rename, raw_open } => {
                let data = match sources.get(*src) {
                    Some(d) => d,
                    None => return Res::Err("<no such source>".into()),
                };
                fn copy<S: Write + Seek, R: Read + Seek>(z: &mut ZipWriter<S>, r: R, idx: usize, rename: &Option<String>, raw_open: bool) -> Result<(), String> {
                    let mut ar = ZipArchive::new(r).map_err(|e| format!("source open: {e}"))?;
                    let f = if raw_open { ar.by_index_raw(idx) } else { ar.by_index(idx) }.map_err(|e| format!("source entry: {e}"))?;
                    match rename {
                        Some(n) => z.raw_copy_file_rename(f, n.clone()),
                        None => z.raw_copy_file(f),
                    }
                    .map_err(|e| e.to_string())
                }
                let chunk = SRC_CHUNK.with(|c| c.get());
                let shared_plan = SRC_PLAN.with(|p| p.borrow().clone());
                if let Some(sp) = shared_plan {
                    // the source archive is read through the SAME instrumented plan as the sink (its I/O calls are numbered
                    // and can be made to fail like the sink's), in pieces of at most `chunk` bytes
                    struct Pieces<R>(R, usize);
                    impl<R: Read> Read for Pieces<R> {
                        fn read(&mut self, buf: &mut [u8]) -> std::io::Result<usize> {
                            let n = if self.1 == 0 { buf.len() } else { buf.len().min(self.1) };
                            self.0.read(&mut buf[..n])
                        }
                    }
                    impl<R: Seek> Seek for Pieces<R> {
                        fn seek(&mut self, p: std::io::SeekFrom) -> std::io::Result<u64> {
                            self.0.seek(p)
                        }
                    }
                    return self.run(|z| copy(z, Pieces(crate::sio::inst::Inst::new(data.clone(), sp), chunk), *idx, rename, *raw_open), |_| 0);
                }
                self.run(
                    |z| {
                        if chunk > 0 {
                            let p = crate::sio::inst::plan();
                            p.borrow_mut().record_kinds = false;
                            p.borrow_mut().chunk = Some(chunk);
                            copy(z, crate::sio::inst::Inst::new(data.clone(), p), *idx, rename, *raw_open)
                        } else {
                            copy(z, Cursor::new(&data[..]), *idx, rename, *raw_open)
                        }
                    },
                    |_| 0,
                )
            }
            Call::Finish => self.run(|z| z.finish().map(|_| ()).map_err(|e| e.to_string()), |_| 0),
            Call::Drop => self.drop_now(),
        }
    }
    /// Explicit, separately caught drop.
    pub fn drop_now(&mut self) -> Res {
        if self.gone {
            return Res::Ok(0);
        }
        self.gone = true;
        let zw = &mut self.zw;
        match guard(|| unsafe { ManuallyDrop::drop(zw) }) {
            Ok(()) => Res::Ok(0),
            Err(p) => {
                self.panicked = true;
                Res::Panic(p)
            }
        }
    }
}
impl<S: Write + Seek> Drop for W<S> {
    fn drop(&mut self) {
        if !self.gone {
            let _ = self.drop_now();
        }
    }
}

/// Run a complete call list against a fresh writer over a shared in-memory sink.
/// Returns the per-call results and the sink bytes at the end.
pub fn exec(calls: &[Call], sources: &[Vec<u8>]) -> (Vec<Res>, Vec<u8>) {
    let sink = SharedBuf::default();
    let mut w = W::new(sink.clone());
    let mut out = Vec::with_capacity(calls.len());
    for c in calls {
        out.push(w.call(c, sources));
    }
    drop(w);
    (out, sink.snapshot())
}

thread_local! {
    /// when set, raw copies read their source archive through an instrumented stream driven by this plan (shared with the sink)
    pub static SRC_PLAN: std::cell::RefCell<Option<crate::sio::inst::PlanRef>> = const { std::cell::RefCell::new(None) };
}
thread_local! {
    /// when non-zero, `exec_append` opens the archive through a stream that transfers at most this many bytes per call
    pub static APPEND_CHUNK: std::cell::Cell<usize> = const { std::cell::Cell::new(0) };
}
thread_local! {
    /// how `Call::Write` hands its bytes to the writer: 0 = write_all, 1 = write_vectored (two slices per call)
    pub static WRITE_MODE: std::cell::Cell<u8> = const { std::cell::Cell::new(0) };
}

thread_local! {
    /// when set, `FOpts::to_zip` calls every FileOptions setter twice (another value first)
    pub static SETTERS_TWICE: std::cell::Cell<bool> = const { std::cell::Cell::new(false) };
}
/// Run `f` with every FileOptions setter called twice (first with another value): the results must not differ.
pub fn with_setters_twice<T>(f: impl FnOnce() -> T) -> T {
    SETTERS_TWICE.with(|m| m.set(true));
    let r = f();
    SETTERS_TWICE.with(|m| m.set(false));
    r
}

/// Two archives that may differ in how the compressors were fed (another split of the same bytes can give another, equally
/// valid, compressed stream): equal bytes, or equal in everything the reader reports (names, metadata, extra data, comments,
/// contents) apart from compressed sizes, raw bytes and offsets.
pub fn same_archive_modulo_compression(a: &[u8], b: &[u8]) -> bool {
    if a == b {
        return true;
    }
    match (observe(a, None, 1 << 22), observe(b, None, 1 << 22)) {
        (Ok(x), Ok(y)) => {
            x.comment == y.comment
                && x.entries.len() == y.entries.len()
                && x.entries.iter().zip(&y.entries).all(|(p, q)| {
                    (&p.name, &p.name_raw, &p.comment, p.method, p.date, p.time, p.mode, p.size, p.crc, &p.extra, p.is_dir, &p.content) == (&q.name, &q.name_raw, &q.comment, q.method, q.date, q.time, q.mode, q.size, q.crc, &q.extra, q.is_dir, &q.content) && p.content.is_ok()
                })
        }
        _ => false,
    }
}

/// Run `f` with every `Call::Write` going through `Write::write_vectored`.
pub fn with_vectored_writes<T>(f: impl FnOnce() -> T) -> T {
    WRITE_MODE.with(|m| m.set(1));
    let r = f();
    WRITE_MODE.with(|m| m.set(0));
    r
}

/// `exec` over an instrumented sink driven by `plan` (short writes, Interrupted, errors at chosen I/O calls).
pub fn exec_plan(calls: &[Call], sources: &[Vec<u8>], plan: crate::sio::inst::PlanRef) -> (Vec<Res>, Vec<u8>) {
    let sink = SharedBuf::default();
    let mut w = W::new(crate::sio::inst::Inst::over(sink.clone(), plan));
    let mut out = Vec::with_capacity(calls.len());
    for c in calls {
        out.push(w.call(c, sources));
    }
    drop(w);
    (out, sink.snapshot())
}

/// Like `exec`, but the sink already holds `initial` (the writer starts at position 0 and overwrites): a pre-sized buffer
/// or a file opened without truncation. Returns the whole sink.
pub fn exec_into(calls: &[Call], sources: &[Vec<u8>], initial: Vec<u8>) -> (Vec<Res>, Vec<u8>) {
    let sink = SharedBuf::new(initial);
    let mut w = W::new(sink.clone());
    let mut out = Vec::with_capacity(calls.len());
    for c in calls {
        out.push(w.call(c, sources));
    }
    drop(w);
    (out, sink.snapshot())
}

/// `exec_append` through a stream that transfers at most `chunk` bytes per read / write call.
pub fn exec_append_chunked(base: &[u8], calls: &[Call], sources: &[Vec<u8>], chunk: usize) -> (Vec<Res>, Vec<u8>) {
    use crate::sio::inst::{plan, Inst};
    let sink = SharedBuf::new(base.to_vec());
    let p = plan();
    p.borrow_mut().record_kinds = false;
    p.borrow_mut().chunk = Some(chunk);
    let mut out = Vec::with_capacity(calls.len() + 1);
    let opened = guard(|| ZipWriter::new_append(Inst::over(sink.clone(), p)));
    let mut w = match opened {
        Ok(Ok(zw)) => {
            out.push(Res::Ok(0));
            W::from_writer(zw)
        }
        Ok(Err(e)) => {
            out.push(Res::Err(e.to_string()));
            return (out, sink.snapshot());
        }
        Err(p) => {
            out.push(Res::Panic(p));
            return (out, sink.snapshot());
        }
    };
    for c in calls {
        out.push(w.call(c, sources));
    }
    drop(w);
    (out, sink.snapshot())
}

thread_local! {
    /// when non-zero, raw copies read their source archive through a stream that transfers at most this many bytes per read
    pub static SRC_CHUNK: std::cell::Cell<usize> = const { std::cell::Cell::new(0) };
}

/// Like `exec`, but the sink accepts at most `sink_chunk` bytes per write call (0 = unlimited) and raw-copy
/// sources deliver at most `src_chunk` bytes per read call (0 = unlimited).
pub fn exec_chunked(calls: &[Call], sources: &[Vec<u8>], sink_chunk: usize, src_chunk: usize) -> (Vec<Res>, Vec<u8>) {
    use crate::sio::inst::{plan, Inst};
    let sink = SharedBuf::default();
    let p = plan();
    p.borrow_mut().record_kinds = false;
    if sink_chunk > 0 {
        p.borrow_mut().chunk = Some(sink_chunk);
    }
    SRC_CHUNK.with(|c| c.set(src_chunk));
    let mut w = W::new(Inst::over(sink.clone(), p));
    let mut out = Vec::with_capacity(calls.len());
    for c in calls {
        out.push(w.call(c, sources));
    }
    drop(w);
    SRC_CHUNK.with(|c| c.set(0));
    (out, sink.snapshot())
}

/// Open `base` for append and run the calls; the first result is that of `new_append`.
pub fn exec_append(base: &[u8], calls: &[Call], sources: &[Vec<u8>]) -> (Vec<Res>, Vec<u8>) {
    let chunk = APPEND_CHUNK.with(|c| c.get());
    if chunk > 0 {
        return exec_append_chunked(base, calls, sources, chunk);
    }
    let sink = SharedBuf::new(base.to_vec());
    let mut out = Vec::with_capacity(calls.len() + 1);
    let opened = guard(|| ZipWriter::new_append(sink.clone()));
    let mut w = match opened {
        Ok(Ok(zw)) => {
            out.push(Res::Ok(0));
            W::from_writer(zw)
        }
        Ok(Err(e)) => {
            out.push(Res::Err(e.to_string()));
            return (out, sink.snapshot());
        }
        Err(p) => {
            out.push(Res::Panic(p));
            return (out, sink.snapshot());
        }
    };
    for c in calls {
        out.push(w.call(c, sources));
    }
    drop(w);
    (out, sink.snapshot())
}

// ---------------------------------------------------------------------------------------------
// reading everything through the seekable reader

#[derive(Clone, Debug, PartialEq)]
pub struct Obs {
    pub name: String,
    pub name_raw: Vec<u8>,
    pub comment: String,
    pub method: u16,
    pub date: u16,
    pub time: u16,
    pub mode: Option<u32>,
    pub size: u64,
    pub csize: u64,
    pub crc: u32,
    pub extra: Vec<u8>,
    pub header_start: u64,
    pub central_header_start: u64,
    pub data_start: u64,
    pub is_dir: bool,
    /// decoded content or the error text of open/read
    pub content: Result<Vec<u8>, String>,
    /// raw stored bytes
    pub raw: Result<Vec<u8>, String>,
}

#[derive(Clone, Debug)]
pub struct ObsArchive {
    pub entries: Vec<Obs>,
    pub comment: Vec<u8>,
    pub offset: u64,
}

#[derive(Clone, Debug)]
pub enum RErr {
    Panic(String),
    Open(String),
}

/// Read `limit` bytes at most per entry (decompression bombs are cut).
pub fn read_to_end_limited<R: Read>(r: &mut R, limit: usize, bufsize: usize) -> Result<Vec<u8>, String> {
    let mut out = Vec::new();
    let mut buf = vec![0u8; bufsize.max(1)];
    loop {
        match r.read(&mut buf) {
            Ok(0) => return Ok(out),
            Ok(n) => {
                out.extend_from_slice(&buf[..n]);
                if out.len() > limit {
                    return Err("<output limit exceeded>".into());
                }
            }
            Err(e) => return Err(e.to_string()),
        }
    }
}

pub fn observe(bytes: &[u8], password: Option<&[u8]>, limit: usize) -> Result<ObsArchive, RErr> {
    observe_r(Cursor::new(bytes), password, limit)
}

pub fn observe_r<R: Read + Seek>(reader: R, password: Option<&[u8]>, limit: usize) -> Result<ObsArchive, RErr> {
    let mut ar = match guard(|| ZipArchive::new(reader)) {
        Err(p) => return Err(RErr::Panic(format!("ZipArchive::new: {p}"))),
        Ok(Err(e)) => return Err(RErr::Open(e.to_string())),
        Ok(Ok(a)) => a,
    };
    let mut out = ObsArchive { entries: vec![], comment: ar.comment().to_vec(), offset: ar.offset() };
    for i in 0..ar.len() {
        let r = guard(|| {
            // metadata + raw bytes
            let (mut o, raw) = {
                let mut f = match ar.by_index_raw(i) {
                    Ok(f) => f,
                    Err(e) => return Err(format!("by_index_raw({i}): {e}")),
                };
                let o = Obs {
                    name: f.name().to_string(),
                    name_raw: f.name_raw().to_vec(),
                    comment: f.comment().to_string(),
                    method: method_id(f.compression()),
                    date: f.last_modified().datepart(),
                    time: f.last_modified().timepart(),
                    mode: f.unix_mode(),
                    size: f.size(),
                    csize: f.compressed_size(),
                    crc: f.crc32(),
                    extra: f.extra_data().to_vec(),
                    header_start: f.header_start(),
                    central_header_start: f.central_header_start(),
                    data_start: f.data_start(),
                    is_dir: f.is_dir(),
                    content: Err(String::new()),
                    raw: Err(String::new()),
                };
                let raw = read_to_end_limited(&mut f, limit, 1 << 16);
                (o, raw)
            };
            o.raw = raw;
            let first = {
                let opened = match password {
                    Some(pw) => match ar.by_index_decrypt(i, pw) {
                        Ok(Ok(f)) => Ok(f),
                        Ok(Err(_)) => Err("<invalid password>".to_string()),
                        Err(e) => Err(e.to_string()),
                    },
                    None => ar.by_index(i).map_err(|e| e.to_string()),
                };
                match opened {
                    Ok(mut f) => read_to_end_limited(&mut f, limit, 1 << 16),
                    Err(e) => Err(format!("open: {e}")),
                }
            };
            o.content = first;
            // small entries are read again through the other ways std::io::Read offers (a reader may override any of them):
            // a prefix taken with read() and the rest appended with read_to_end(); scatter reads into two slices. What they
            // deliver must be what the plain read loop delivered.
            if let Ok(c) = &o.content {
                if c.len() <= 4096 {
                    for how in 0..2 {
                        let reopened = match password {
                            Some(pw) => ar.by_index_decrypt(i, pw).ok().and_then(|r| r.ok()),
                            None => ar.by_index(i).ok(),
                        };
                        let Some(mut f) = reopened else { continue };
                        let got: Result<Vec<u8>, String> = if how == 0 {
                            let mut v = vec![0u8; 1];
                            match f.read(&mut v) {
                                Ok(0) => Ok(vec![]),
                                Ok(_) => f.read_to_end(&mut v).map(|_| v).map_err(|e| e.to_string()),
                                Err(e) => Err(e.to_string()),
                            }
                        } else {
                            let mut out = vec![];
                            let (mut a, mut b) = ([0u8; 5], [0u8; 11]);
                            loop {
                                let n = match f.read_vectored(&mut [std::io::IoSliceMut::new(&mut a), std::io::IoSliceMut::new(&mut b)]) {
                                    Ok(n) => n,
                                    Err(e) => break Err(e.to_string()),
                                };
                                if n == 0 {
                                    break Ok(out);
                                }
                                if n > 16 {
                                    break Err(format!("read_vectored returned {n} for 16 bytes of buffers"));
                                }
                                out.extend_from_slice(&a[..n.min(5)]);
                                if n > 5 {
                                    out.extend_from_slice(&b[..n - 5]);
                                }
                                if out.len() > limit {
                                    break Err("<output limit exceeded>".into());
                                }
                            }
                        };
                        let name = ["read(1) then read_to_end into the same vector", "read_vectored into two slices"][how];
                        match got {
                            Ok(g) if g == *c => {}
                            Ok(g) => {
                                o.content = Err(format!("{name} delivers {} bytes that differ from the {} of a plain read loop", g.len(), c.len()));
                                break;
                            }
                            Err(e) => {
                                o.content = Err(format!("{name} fails on an entry a plain read loop reads: {e}"));
                                break;
                            }
                        }
                    }
                }
            }
            Ok(o)
        });
        match r {
            Err(p) => return Err(RErr::Panic(format!("entry {i}: {p}"))),
            Ok(Err(e)) => return Err(RErr::Open(e)),
            Ok(Ok(o)) => out.entries.push(o),
        }
    }
    Ok(out)
}

// ---------------------------------------------------------------------------------------------
// shared small alphabets (DESIGN section 4)

/// Short contents whose compressed form is exactly as long as they are, per compressing method (found by search with the
/// reference codecs at their default levels - the levels the crate uses when none is given): "sizes equal" must not be
/// taken for "stored".
pub fn neutral_contents() -> Vec<(u16, Vec<u8>)> {
    let mut out = vec![];
    for m in [8u16, 12, 93] {
        let mut found = None;
        'search: for unit in [&b"a"[..], b"ab", b"abcd", b"the cat and the hat ", b"0123456789", b"zq"] {
            for n in 1..200usize {
                let c: Vec<u8> = unit.iter().cycle().take(n).cloned().collect();
                if crate::reference::codec::compress(m, &c).len() == c.len() {
                    found = Some(c);
                    break 'search;
                }
            }
        }
        if let Some(c) = found {
            out.push((m, c));
        }
    }
    out
}

/// Deterministic content classes, seeded.
pub fn content_class(class: usize, seed: u64) -> Vec<u8> {
    let mut rng = crate::util::Rng(seed ^ 0xC0FFEE ^ (class as u64) << 32);
    match class {
        0 => vec![],
        1 => vec![(rng.next() & 0xff) as u8],
        2 => rng.bytes(17),
        3 => {
            let mut v = Vec::new();
            while v.len() < 300 {
                v.extend_from_slice(b"the quick brown fox ");
            }
            v.truncate(300);
            v
        }
        4 => mixed_content(70_001, &mut rng),
        5 => mixed_content(3 << 20, &mut rng),
        _ => vec![0u8; class],
    }
}
fn mixed_content(n: usize, rng: &mut crate::util::Rng) -> Vec<u8> {
    let mut v = Vec::with_capacity(n);
    let mut toggle = false;
    while v.len() < n {
        let k = (n - v.len()).min(4099);
        if toggle {
            v.extend(rng.bytes(k));
        } else {
            v.extend(std::iter::repeat(b'z').take(k));
        }
        toggle = !toggle;
    }
    v
}

/// METHOD x LEVEL: the documented ranges.
pub fn all_method_levels() -> Vec<(u16, Option<i32>)> {
    let mut v = vec![(0u16, None)];
    v.push((8, None));
    for l in 0..=9 {
        v.push((8, Some(l)));
    }
    v.push((12, None));
    for l in 1..=9 {
        v.push((12, Some(l)));
    }
    v.push((93, None));
    for l in -7..=22 {
        v.push((93, Some(l)));
    }
    v
}

pub fn expected_mode(kind: u8, perm: Option<u32>) -> u32 {
    match kind {
        0 => 0o100000 | perm.map(|p| p & 0o777).unwrap_or(0o644),
        1 => 0o040000 | perm.map(|p| p & 0o777).unwrap_or(0o755),
        _ => 0o120000 | perm.map(|p| p & 0o777).unwrap_or(0o777),
    }
}

pub fn dir_name(name: &str) -> String {
    match name.chars().last() {
        Some('/') | Some('\\') => name.to_string(),
        _ => format!("{name}/"),
    }
}

// helpers for driving the crate's API

//! The boring reference model of the ZipWriter protocol, written from the API documentation and
//! the statement of C12. It predicts, for every call in every state, the *class* of result the
//! property demands, and keeps the logical content of the archive.

use super::extra::{verdict, Verdict};
use crate::zipapi::{dir_name, expected_mode, Call, FOpts};
use std::hash::{Hash, Hasher};

#[derive(Clone, Copy, Debug, PartialEq, Eq, Hash)]
pub enum Mode {
    /// nothing started yet
    Idle,
    /// a file is open for content
    InFile,
    /// last entry was a directory or symlink: no content may be written
    NoFile,
    /// last entry was a raw copy
    AfterRaw,
    /// extra data being written: shared local+central part
    ExtraLocal,
    /// extra data being written: central-only part
    ExtraCentral,
    /// finish() succeeded
    Finished,
    /// a call failed in a way the property does not define the aftermath of
    Unknown,
}

#[derive(Clone, Copy, Debug, PartialEq, Eq)]
pub enum Class {
    MustOk,
    MustErr,
    Unspecified,
}

#[derive(Clone, Debug, PartialEq, Eq, Hash)]
pub struct MEntry {
    pub name: String,
    /// 0 file, 1 dir, 2 symlink, 3 raw copy
    pub kind: u8,
    pub method: u16,
    pub date: u16,
    pub time: u16,
    pub unix_mode: Option<u32>,
    pub large: bool,
    pub encrypted: bool,
    pub content: Vec<u8>,
    /// false when the model lost track of what the entry holds
    pub content_known: bool,
    /// None = not predicted (aligned entries, unknown)
    pub local_extra: Option<Vec<u8>>,
    pub central_extra: Option<Vec<u8>>,
    /// (source archive, index) of a raw copy
    pub raw_of: Option<(usize, usize)>,
    /// options that must be refused when the method is switched to (entries started with extra data switch late)
    pub opts_bad: Option<Class2>,
}

#[derive(Clone, Copy, Debug, PartialEq, Eq, Hash)]
pub enum Class2 {
    Err,
    Unspec,
}

#[derive(Clone, Debug, PartialEq, Eq, Hash)]
pub struct Model {
    pub mode: Mode,
    pub entries: Vec<MEntry>,
    pub pending_extra: Vec<u8>,
    pub comment: Vec<u8>,
    /// comment in force when finish succeeded
    pub final_comment: Option<Vec<u8>>,
    /// the entry that was open when a call failed (mode Unknown): it may or may not receive later writes, so its
    /// content stays predicted only as long as no later non-empty write succeeds
    pub open_at_failure: Option<usize>,
}

fn opts_class(o: &FOpts, compressing_call: bool) -> Class {
    // the property: an unsupported method, or a level outside the range of a compressing method -> error
    let level_ok = |lo: i32, hi: i32| o.level.map_or(true, |l| l >= lo && l <= hi);
    match o.method {
        0 => {
            if o.level.is_some() && compressing_call {
                // documented ("others: only None is allowed") but not in the property's list
                Class::Unspecified
            } else {
                Class::MustOk
            }
        }
        8 => {
            if level_ok(0, 9) {
                Class::MustOk
            } else {
                Class::MustErr
            }
        }
        12 => {
            if level_ok(1, 9) {
                Class::MustOk
            } else if o.level == Some(0) {
                Class::Unspecified
            } else {
                Class::MustErr
            }
        }
        93 => {
            if level_ok(-7, 22) {
                Class::MustOk
            } else {
                Class::MustErr
            }
        }
        _ => Class::MustErr,
    }
}

impl Model {
    pub fn new() -> Model {
        Model { mode: Mode::Idle, entries: vec![], pending_extra: vec![], comment: vec![], final_comment: None, open_at_failure: None }
    }
    /// A writer re-opened with `new_append` on source archive `src`: its `n` entries are already present (the model
    /// lists them as copies of the source's entries), nothing has been started through this writer yet.
    pub fn appended(src: usize, n: usize, comment: Vec<u8>) -> Model {
        let mut m = Model::new();
        for i in 0..n {
            m.push_raw(src, i, None, true);
        }
        m.comment = comment;
        m
    }
    pub fn hash64(&self) -> u64 {
        let mut h = std::collections::hash_map::DefaultHasher::new();
        self.hash(&mut h);
        h.finish()
    }
    fn in_extra(&self) -> bool {
        matches!(self.mode, Mode::ExtraLocal | Mode::ExtraCentral)
    }
    /// Verdict on the pending extra data if it were ended now.
    fn pending_verdict(&self) -> Verdict {
        let reserved = match (self.mode, self.entries.last()) {
            (Mode::ExtraLocal, Some(e)) if e.large => 20,
            _ => 0,
        };
        verdict(&self.pending_extra, reserved)
    }
    /// Class of an implicit or explicit end of the pending extra data.
    fn end_class(&self) -> Class {
        match self.pending_verdict() {
            Verdict::Accept => Class::MustOk,
            Verdict::Reject => Class::MustErr,
            Verdict::Either => Class::Unspecified,
        }
    }

    /// What the property demands of `call` in the current state.
    pub fn expect(&self, call: &Call) -> Class {
        use Mode::*;
        if self.mode == Unknown {
            return Class::Unspecified;
        }
        if self.mode == Finished {
            return match call {
                Call::SetComment(_) => Class::MustOk,
                Call::Write(d) if !d.is_empty() => Class::MustErr,
                Call::Drop => Class::MustOk,
                _ => Class::Unspecified,
            };
        }
        // starting anything (or finishing) first ends pending extra data implicitly
        let combine = |a: Class, b: Class| match (a, b) {
            (Class::MustErr, _) | (_, Class::MustErr) => Class::MustErr,
            (Class::Unspecified, _) | (_, Class::Unspecified) => Class::Unspecified,
            _ => Class::MustOk,
        };
        let implicit = match self.mode {
            ExtraLocal => combine(self.end_class(), self.entries.last().map_or(Class::MustOk, opts_class_of_entry)),
            ExtraCentral => self.end_class(),
            _ => Class::MustOk,
        };
        // a name that does not fit the 16-bit length field: not in C12's list of documented misuse (C02 demands the
        // refusal); either result here, never a panic
        let name_len = match call {
            Call::StartFile { name, .. } | Call::StartAligned { name, .. } | Call::StartExtra { name, .. } | Call::AddSymlink { name, .. } => name.len(),
            Call::AddDir { name, .. } => dir_name(name).len(),
            Call::RawCopy { rename: Some(n), .. } => n.len(),
            _ => 0,
        };
        if name_len > 65535 {
            return Class::Unspecified;
        }
        match call {
            Call::SetComment(_) => Class::MustOk,
            Call::Write(d) => match self.mode {
                Idle | NoFile => {
                    if d.is_empty() {
                        Class::Unspecified
                    } else {
                        Class::MustErr
                    }
                }
                InFile | ExtraLocal | ExtraCentral => Class::MustOk,
                AfterRaw => Class::Unspecified,
                Finished | Unknown => unreachable!(),
            },
            Call::Flush => match self.mode {
                AfterRaw => Class::Unspecified,
                _ => Class::MustOk,
            },
            Call::StartFile { opts, .. } => combine(implicit, opts_class(opts, true)),
            Call::StartAligned { opts, .. } => combine(implicit, opts_class(opts, true)),
            // the method is only switched to when the extra data ends
            Call::StartExtra { .. } => implicit,
            Call::AddDir { .. } | Call::AddSymlink { .. } | Call::RawCopy { .. } => implicit,
            Call::EndLocalStartCentral => match self.mode {
                ExtraLocal => combine(self.end_class(), self.entries.last().map_or(Class::MustOk, opts_class_of_entry)),
                ExtraCentral => Class::Unspecified,
                _ => Class::MustErr,
            },
            Call::EndExtra => match self.mode {
                ExtraLocal => combine(self.end_class(), self.entries.last().map_or(Class::MustOk, opts_class_of_entry)),
                ExtraCentral => self.end_class(),
                _ => Class::MustErr,
            },
            Call::Finish => {
                if self.comment.len() > 65535 {
                    Class::MustErr
                } else {
                    implicit
                }
            }
            Call::Drop => Class::MustOk,
        }
    }

    /// Update the logical state after `call` returned `ok` (true = Ok).
    /// `sources_len(src, idx)` is not needed: raw copies are resolved at verification time.
    pub fn apply(&mut self, call: &Call, class: Class, ok: bool) {
        use Mode::*;
        if matches!(call, Call::Drop) {
            return;
        }
        if self.mode == Finished {
            if let (Call::SetComment(c), true) = (call, ok) {
                self.comment = c.clone();
            }
            return;
        }
        if self.mode == Unknown {
            // keep tracking which creations succeeded
            if ok {
                match call {
                    Call::StartFile { name, opts } | Call::StartExtra { name, opts } | Call::StartAligned { name, opts, .. } => {
                        self.push_entry(name.clone(), 0, opts, false)
                    }
                    Call::AddDir { name, opts } => self.push_entry(dir_name(name), 1, opts, false),
                    Call::AddSymlink { name, opts, .. } => self.push_entry(name.clone(), 2, opts, false),
                    Call::RawCopy { src, idx, rename, .. } => self.push_raw(*src, *idx, rename.clone(), false),
                    Call::SetComment(c) => self.comment = c.clone(),
                    Call::Finish => {
                        self.final_comment = Some(self.comment.clone());
                        self.mode = Finished;
                    }
                    // bytes were accepted after the failure: they may have gone to the entry that was open then
                    Call::Write(d) if !d.is_empty() => {
                        if let Some(e) = self.open_at_failure.and_then(|i| self.entries.get_mut(i)) {
                            e.content_known = false;
                        }
                    }
                    _ => {}
                }
            }
            return;
        }
        if !ok {
            // pure guards leave the state alone; everything else is undefined aftermath
            let pure_guard = match call {
                Call::Write(_) => matches!(self.mode, Idle | NoFile | AfterRaw),
                Call::EndExtra | Call::EndLocalStartCentral if !self.in_extra() => true,
                Call::Flush => self.mode == AfterRaw,
                // the pending extra data is malformed / reserved: ending it - explicitly, or implicitly by starting the next
                // entry or finishing - is refused by the validation before anything is touched. The entry stays open in
                // its extra-data phase with what was supplied so far; the caller may go on supplying (every write in that
                // phase is a valid call).
                Call::EndExtra | Call::EndLocalStartCentral | Call::StartFile { .. } | Call::StartAligned { .. } | Call::StartExtra { .. } | Call::AddDir { .. } | Call::AddSymlink { .. } | Call::RawCopy { .. } | Call::Finish
                    if self.in_extra() && self.end_class() == Class::MustErr && class == Class::MustErr =>
                {
                    true
                }
                _ => false,
            };
            if !pure_guard {
                self.go_unknown_after_failure();
            }
            return;
        }
        // ok == true
        if class == Class::MustErr {
            // misuse was absorbed (reported by the oracle); what the writer did with it is unknown
            self.go_unknown();
            return;
        }
        if class == Class::Unspecified {
            match call {
                // no logical effect in these corners
                Call::Write(_) | Call::Flush if self.mode == AfterRaw || self.mode == Idle || self.mode == NoFile => return,
                Call::SetComment(_) => {}
                _ => {
                    // an accepted corner whose effect the property does not define
                    self.apply_ok(call);
                    if let Some(e) = self.entries.last_mut() {
                        e.local_extra = None;
                        e.central_extra = None;
                    }
                    if matches!(call, Call::EndLocalStartCentral) {
                        self.go_unknown();
                    }
                    return;
                }
            }
        }
        self.apply_ok(call);
    }

    fn go_unknown(&mut self) {
        if let Some(e) = self.entries.last_mut() {
            e.content_known = false;
            e.local_extra = None;
            e.central_extra = None;
        }
        self.mode = Mode::Unknown;
    }

    /// A call reported an error the property does not define the aftermath of. Entries whose creation succeeded keep
    /// their promise ("each file holds exactly the bytes successfully written to it"): the open one loses it only if a
    /// later write is accepted (handled in `apply`), unless it was still collecting extra data.
    fn go_unknown_after_failure(&mut self) {
        let in_extra = self.in_extra();
        if let Some(e) = self.entries.last_mut() {
            e.local_extra = None;
            e.central_extra = None;
            if in_extra {
                e.content_known = false;
            }
        }
        self.open_at_failure = if self.entries.is_empty() { None } else { Some(self.entries.len() - 1) };
        self.mode = Mode::Unknown;
    }

    fn close_pending(&mut self) {
        // implicit end of extra data
        match self.mode {
            Mode::ExtraLocal => {
                let p = std::mem::take(&mut self.pending_extra);
                if let Some(e) = self.entries.last_mut() {
                    e.local_extra = Some(p.clone());
                    e.central_extra = Some(p);
                }
            }
            Mode::ExtraCentral => {
                let p = std::mem::take(&mut self.pending_extra);
                if let Some(e) = self.entries.last_mut() {
                    e.central_extra = Some(p);
                }
            }
            _ => {}
        }
    }

    fn push_entry(&mut self, name: String, kind: u8, o: &FOpts, known: bool) {
        self.entries.push(MEntry {
            name,
            kind,
            method: if kind == 0 { o.method } else { 0 },
            date: o.date,
            time: o.time,
            unix_mode: Some(expected_mode(kind, o.perm)),
            large: o.large,
            encrypted: o.password.is_some(),
            content: vec![],
            content_known: known,
            local_extra: if known { Some(vec![]) } else { None },
            central_extra: if known { Some(vec![]) } else { None },
            raw_of: None,
            opts_bad: match opts_class(o, true) {
                Class::MustErr if kind == 0 => Some(Class2::Err),
                Class::Unspecified if kind == 0 => Some(Class2::Unspec),
                _ => None,
            },
        });
    }
    fn push_raw(&mut self, src: usize, idx: usize, rename: Option<String>, known: bool) {
        self.entries.push(MEntry {
            name: rename.unwrap_or_default(),
            kind: 3,
            method: 0,
            date: 0,
            time: 0,
            unix_mode: None,
            large: false,
            encrypted: false,
            content: vec![],
            content_known: known,
            local_extra: None,
            central_extra: None,
            raw_of: Some((src, idx)),
            opts_bad: None,
        });
    }

    fn apply_ok(&mut self, call: &Call) {
        use Mode::*;
        match call {
            Call::SetComment(c) => self.comment = c.clone(),
            Call::Write(d) => match self.mode {
                InFile => {
                    if let Some(e) = self.entries.last_mut() {
                        e.content.extend_from_slice(d);
                    }
                }
                ExtraLocal | ExtraCentral => self.pending_extra.extend_from_slice(d),
                _ => {}
            },
            Call::Flush => {}
            Call::StartFile { name, opts } => {
                self.close_pending();
                self.push_entry(name.clone(), 0, opts, true);
                self.mode = InFile;
            }
            Call::StartAligned { name, opts, .. } => {
                self.close_pending();
                self.push_entry(name.clone(), 0, opts, true);
                // padding record not predicted here (C17)
                if let Some(e) = self.entries.last_mut() {
                    e.local_extra = None;
                    e.central_extra = None;
                }
                self.mode = InFile;
            }
            Call::StartExtra { name, opts } => {
                self.close_pending();
                self.push_entry(name.clone(), 0, opts, true);
                self.mode = ExtraLocal;
            }
            Call::EndLocalStartCentral => {
                let p = std::mem::take(&mut self.pending_extra);
                if let Some(e) = self.entries.last_mut() {
                    e.local_extra = Some(p);
                    e.central_extra = Some(vec![]);
                }
                self.mode = ExtraCentral;
            }
            Call::EndExtra => {
                self.close_pending();
                self.mode = InFile;
            }
            Call::AddDir { name, opts } => {
                self.close_pending();
                self.push_entry(dir_name(name), 1, opts, true);
                self.mode = NoFile;
            }
            Call::AddSymlink { name, target, opts } => {
                self.close_pending();
                self.push_entry(name.clone(), 2, opts, true);
                if let Some(e) = self.entries.last_mut() {
                    e.content = target.as_bytes().to_vec();
                }
                self.mode = NoFile;
            }
            Call::RawCopy { src, idx, rename, .. } => {
                self.close_pending();
                self.push_raw(*src, *idx, rename.clone(), true);
                self.mode = AfterRaw;
            }
            Call::Finish => {
                self.close_pending();
                self.final_comment = Some(self.comment.clone());
                self.mode = Finished;
            }
            Call::Drop => {}
        }
    }
}

fn opts_class_of_entry(e: &MEntry) -> Class {
    // entries started with extra data switch to their method (and level) when the local part ends
    match e.opts_bad {
        Some(Class2::Err) => Class::MustErr,
        Some(Class2::Unspec) => Class::Unspecified,
        None => Class::MustOk,
    }
}

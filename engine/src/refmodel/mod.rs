pub mod extra;
pub mod writer;

//! Extra-field rules for the writer model, transcribed from APPNOTE 6.3.9 sections 4.5.2 and
//! 4.6.1 (not from the crate's table).

/// Header IDs every revision of APPNOTE since 6.3.4 lists as assigned (PKWARE 4.5.2 and the
/// third-party mappings of 4.6.1), plus the reserved low range 0..=31.
pub const RESERVED_CERTAIN: [u16; 48] = [
    0x0001, 0x0007, 0x0008, 0x0009, 0x000a, 0x000c, 0x000d, 0x000e, 0x000f, 0x0014, 0x0015, 0x0016, 0x0017, 0x0018, 0x0019, 0x0020,
    0x0021, 0x0022, 0x0023, 0x0065, 0x0066, 0x4690, 0x07c8, 0x2605, 0x2705, 0x2805, 0x334d, 0x4341, 0x4453, 0x4704, 0x470f, 0x4b46,
    0x4c41, 0x4d49, 0x4f4c, 0x5356, 0x5455, 0x554e, 0x5855, 0x6375, 0x6542, 0x7075, 0x756e, 0x7855, 0xa11e, 0xa220, 0xfd4a, 0x9901,
];
/// IDs that only some revisions / companion documents list: either verdict is accepted.
pub const RESERVED_MAYBE: [u16; 11] = [0x9902, 0x1986, 0x4154, 0x4854, 0x4d63, 0x6854, 0x7441, 0x7875, 0xcafe, 0xd935, 0xe57a];

#[derive(Clone, Copy, Debug, PartialEq, Eq)]
pub enum IdClass {
    Free,
    Reserved,
    Maybe,
}
pub fn id_class(id: u16) -> IdClass {
    if id <= 31 || RESERVED_CERTAIN.contains(&id) {
        IdClass::Reserved
    } else if RESERVED_MAYBE.contains(&id) {
        IdClass::Maybe
    } else {
        IdClass::Free
    }
}

#[derive(Clone, Copy, Debug, PartialEq, Eq)]
pub enum Verdict {
    Accept,
    Reject,
    Either,
}

/// Must a writer accept `data` as user-supplied extra data? `reserved_bytes`: bytes of the 16-bit
/// extra length already taken (20 for the local ZIP64 block of a large file).
pub fn verdict(data: &[u8], reserved_bytes: usize) -> Verdict {
    if data.len() + reserved_bytes > 65535 {
        return Verdict::Reject;
    }
    let mut p = 0usize;
    let mut maybe = false;
    while p < data.len() {
        if data.len() - p < 4 {
            return Verdict::Reject;
        }
        let id = u16::from_le_bytes([data[p], data[p + 1]]);
        let ln = u16::from_le_bytes([data[p + 2], data[p + 3]]) as usize;
        p += 4;
        match id_class(id) {
            IdClass::Reserved => return Verdict::Reject,
            IdClass::Maybe => maybe = true,
            IdClass::Free => {}
        }
        if data.len() - p < ln {
            return Verdict::Reject;
        }
        p += ln;
    }
    if maybe {
        Verdict::Either
    } else {
        Verdict::Accept
    }
}

//! Compression helpers for the reference builder / validator. These call flate2 / bzip2 / zstd
//! directly; no line of the `zip` crate is involved.

use std::io::{Read, Write};

pub const STORED: u16 = 0;
pub const DEFLATE: u16 = 8;
pub const BZIP2: u16 = 12;
pub const ZSTD: u16 = 93;

pub fn supported(method: u16) -> bool {
    matches!(method, STORED | DEFLATE | BZIP2 | ZSTD)
}

pub fn compress(method: u16, data: &[u8]) -> Vec<u8> {
    match method {
        DEFLATE => {
            let mut e = flate2::write::DeflateEncoder::new(Vec::new(), flate2::Compression::new(6));
            e.write_all(data).unwrap();
            e.finish().unwrap()
        }
        BZIP2 => {
            let mut e = bzip2::write::BzEncoder::new(Vec::new(), bzip2::Compression::new(6));
            e.write_all(data).unwrap();
            e.finish().unwrap()
        }
        ZSTD => zstd::stream::encode_all(data, 3).unwrap(),
        _ => data.to_vec(),
    }
}

/// Decode `data`; `limit` caps the output (decompression bombs are cut, reported as Err).
pub fn decompress(method: u16, data: &[u8], limit: usize) -> Result<Vec<u8>, String> {
    let mut out = Vec::new();
    let lim = limit as u64 + 1;
    let r = match method {
        STORED => {
            out.extend_from_slice(data);
            Ok(0)
        }
        DEFLATE => flate2::read::DeflateDecoder::new(data).take(lim).read_to_end(&mut out),
        BZIP2 => bzip2::read::BzDecoder::new(data).take(lim).read_to_end(&mut out),
        ZSTD => match zstd::stream::read::Decoder::new(data) {
            Ok(d) => d.take(lim).read_to_end(&mut out),
            Err(e) => Err(e),
        },
        m => return Err(format!("method {m} not decodable by the reference")),
    };
    match r {
        Err(e) => Err(format!("decode error: {e}")),
        Ok(_) if out.len() > limit => Err("output exceeds limit".into()),
        Ok(_) => Ok(out),
    }
}

//! WinZip AES (AE-1 / AE-2) encryptor/decryptor assembled from the primitive crates directly
//! (pbkdf2, hmac, sha1, aes) following https://www.winzip.com/en/support/aes-encryption/ .

use aes::cipher::{generic_array::GenericArray, BlockEncrypt, KeyInit};
use hmac::{Hmac, Mac};
use sha1::Sha1;

pub fn key_len(strength: u8) -> usize {
    match strength {
        1 => 16,
        2 => 24,
        _ => 32,
    }
}
pub fn salt_len(strength: u8) -> usize {
    key_len(strength) / 2
}

fn derive(password: &[u8], salt: &[u8], strength: u8) -> (Vec<u8>, Vec<u8>, [u8; 2]) {
    let kl = key_len(strength);
    let mut dk = vec![0u8; 2 * kl + 2];
    pbkdf2::pbkdf2::<Hmac<Sha1>>(password, salt, 1000, &mut dk);
    (dk[..kl].to_vec(), dk[kl..2 * kl].to_vec(), [dk[2 * kl], dk[2 * kl + 1]])
}

fn ctr_xor(key: &[u8], data: &mut [u8]) {
    // counter: 128-bit little-endian, starting at 1
    let mut counter: u128 = 1;
    let enc: Box<dyn Fn(&mut [u8; 16])> = match key.len() {
        16 => {
            let c = aes::Aes128::new(GenericArray::from_slice(key));
            Box::new(move |b| c.encrypt_block(GenericArray::from_mut_slice(b)))
        }
        24 => {
            let c = aes::Aes192::new(GenericArray::from_slice(key));
            Box::new(move |b| c.encrypt_block(GenericArray::from_mut_slice(b)))
        }
        _ => {
            let c = aes::Aes256::new(GenericArray::from_slice(key));
            Box::new(move |b| c.encrypt_block(GenericArray::from_mut_slice(b)))
        }
    };
    for chunk in data.chunks_mut(16) {
        let mut block = counter.to_le_bytes();
        enc(&mut block);
        for (d, k) in chunk.iter_mut().zip(block.iter()) {
            *d ^= *k;
        }
        counter = counter.wrapping_add(1);
    }
}

/// Returns salt || verifier || ciphertext || mac(10)
pub fn encrypt(password: &[u8], salt: &[u8], strength: u8, plain: &[u8]) -> Vec<u8> {
    assert_eq!(salt.len(), salt_len(strength));
    let (ek, ak, ver) = derive(password, salt, strength);
    let mut ct = plain.to_vec();
    ctr_xor(&ek, &mut ct);
    let mut mac = <Hmac<Sha1> as Mac>::new_from_slice(&ak).unwrap();
    mac.update(&ct);
    let tag = mac.finalize().into_bytes();
    let mut out = salt.to_vec();
    out.extend_from_slice(&ver);
    out.extend_from_slice(&ct);
    out.extend_from_slice(&tag[..10]);
    out
}

pub fn decrypt(password: &[u8], strength: u8, blob: &[u8]) -> Result<Vec<u8>, String> {
    let sl = salt_len(strength);
    if blob.len() < sl + 12 {
        return Err("too short".into());
    }
    let (ek, ak, ver) = derive(password, &blob[..sl], strength);
    if blob[sl..sl + 2] != ver {
        return Err("verifier mismatch".into());
    }
    let ct = &blob[sl + 2..blob.len() - 10];
    let mut mac = <Hmac<Sha1> as Mac>::new_from_slice(&ak).unwrap();
    mac.update(ct);
    let tag = mac.finalize().into_bytes();
    if tag[..10] != blob[blob.len() - 10..] {
        return Err("mac mismatch".into());
    }
    let mut pt = ct.to_vec();
    ctr_xor(&ek, &mut pt);
    Ok(pt)
}

/// The 11-byte AES extra block (id 0x9901).
pub fn extra_block(version: u16, strength: u8, method: u16) -> Vec<u8> {
    let mut v = vec![0x01, 0x99, 7, 0];
    v.extend_from_slice(&version.to_le_bytes());
    v.extend_from_slice(b"AE");
    v.push(strength);
    v.extend_from_slice(&method.to_le_bytes());
    v
}

//! MS-DOS date/time bit-field arithmetic and a proleptic-Gregorian validity test.

#[derive(Clone, Copy, Debug, PartialEq, Eq)]
pub struct Fields {
    pub year: u16,
    pub month: u8,
    pub day: u8,
    pub hour: u8,
    pub minute: u8,
    pub second: u8,
}

pub fn unpack(date: u16, time: u16) -> Fields {
    Fields {
        year: 1980 + (date >> 9),
        month: ((date >> 5) & 0xF) as u8,
        day: (date & 0x1F) as u8,
        hour: (time >> 11) as u8,
        minute: ((time >> 5) & 0x3F) as u8,
        second: ((time & 0x1F) * 2) as u8,
    }
}

pub fn pack(f: Fields) -> (u16, u16) {
    let date = ((f.year - 1980) << 9) | ((f.month as u16) << 5) | f.day as u16;
    let time = ((f.hour as u16) << 11) | ((f.minute as u16) << 5) | (f.second as u16 / 2);
    (date, time)
}

pub fn leap(y: u16) -> bool {
    (y % 4 == 0 && y % 100 != 0) || y % 400 == 0
}
pub fn days_in_month(y: u16, m: u8) -> u8 {
    match m {
        1 | 3 | 5 | 7 | 8 | 10 | 12 => 31,
        4 | 6 | 9 | 11 => 30,
        2 => {
            if leap(y) {
                29
            } else {
                28
            }
        }
        _ => 0,
    }
}
pub fn valid_date(y: u16, m: u8, d: u8) -> bool {
    (1..=12).contains(&m) && d >= 1 && d <= days_in_month(y, m)
}
/// Days since 1970-01-01 for a valid date.
pub fn days_from_civil(y: i64, m: i64, d: i64) -> i64 {
    let y = if m <= 2 { y - 1 } else { y };
    let era = if y >= 0 { y } else { y - 399 } / 400;
    let yoe = y - era * 400;
    let doy = (153 * (if m > 2 { m - 3 } else { m + 9 }) + 2) / 5 + d - 1;
    let doe = yoe * 365 + yoe / 4 - yoe / 100 + doy;
    era * 146097 + doe - 719468
}

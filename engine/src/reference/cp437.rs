//! CP437 decoding by table lookup; table dumped from CPython's codec.
include!("cp437_table.rs");

pub fn decode(bytes: &[u8]) -> String {
    bytes.iter().map(|&b| char::from_u32(CP437[b as usize]).unwrap()).collect()
}

//! Purely lexical path model (Unix semantics) written from the statement of C06/C07.

/// `enclosed_name` must return Some iff this is true.
pub fn safe(name: &str) -> bool {
    if name.contains('\0') {
        return false;
    }
    if name.starts_with('/') {
        return false;
    }
    let mut depth: i64 = 0;
    for comp in name.split('/') {
        match comp {
            "" | "." => {}
            ".." => {
                depth -= 1;
                if depth < 0 {
                    return false;
                }
            }
            _ => depth += 1,
        }
    }
    true
}

/// Expected `mangled_name`: prefix before the first NUL, '\\' -> '/', ordinary components only.
pub fn mangled(name: &str) -> String {
    let s = match name.find('\0') {
        Some(i) => &name[..i],
        None => name,
    };
    let s = s.replace('\\', "/");
    let comps: Vec<&str> = s.split('/').filter(|c| !matches!(*c, "" | "." | "..")).collect();
    comps.join("/")
}

/// Lexically normalise `base` joined with `rel` the way a filesystem walk would, without
/// touching the filesystem; None if the walk climbs above the root of an absolute base or
/// above the start of a relative one.
pub fn join_normalised(base: &str, rel: &str) -> Option<Vec<String>> {
    let mut stack: Vec<String> = vec![];
    let joined = if rel.starts_with('/') { rel.to_string() } else { format!("{base}/{rel}") };
    for comp in joined.split('/') {
        match comp {
            "" | "." => {}
            ".." => {
                stack.pop()?;
            }
            c => stack.push(c.to_string()),
        }
    }
    Some(stack)
}

/// Does base.join(rel) stay lexically inside base at every step of the walk?
pub fn stays_inside(base: &str, rel: &str) -> bool {
    if rel.starts_with('/') || rel.contains('\0') {
        return false;
    }
    let mut depth: i64 = 0;
    for comp in rel.split('/') {
        match comp {
            "" | "." => {}
            ".." => {
                depth -= 1;
                if depth < 0 {
                    return false;
                }
            }
            _ => depth += 1,
        }
    }
    let _ = base;
    true
}

/// Final components of a safe relative name after resolving "." and ".." lexically.
pub fn resolve(name: &str) -> Vec<String> {
    let mut stack: Vec<String> = vec![];
    for comp in name.split('/') {
        match comp {
            "" | "." => {}
            ".." => {
                stack.pop();
            }
            c => stack.push(c.to_string()),
        }
    }
    stack
}

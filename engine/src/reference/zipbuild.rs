//! Independent archive builder with layout knobs the crate's writer does not have. It knows
//! what it encoded, so its `Spec` is the ground truth for reader-side properties.

use super::{codec, crc32, winzipaes, zipcrypto};
use serde_json::{json, Value};

#[derive(Clone, Copy, Debug, PartialEq, Eq)]
pub enum Dd {
    None,
    Sig32,
    NoSig32,
    Sig64,
    NoSig64,
}

#[derive(Clone, Debug, PartialEq)]
pub enum Enc {
    None,
    /// PKWARE; `infozip`: check byte from the time high byte (used with a data descriptor)
    ZipCrypto { pw: Vec<u8>, infozip: bool },
    /// version 1|2, strength 1|2|3
    Aes { version: u16, strength: u8, pw: Vec<u8>, salt_seed: u8 },
}

#[derive(Clone, Debug)]
pub struct ESpec {
    pub name: Vec<u8>,
    pub utf8: bool,
    pub method: u16,
    pub content: Vec<u8>,
    /// opaque payload for methods the reference cannot encode
    pub raw_payload: Option<Vec<u8>>,
    pub dd: Dd,
    /// bit0 usize, bit1 csize, bit2 offset forced into the central ZIP64 block
    pub zip64_central: u8,
    pub zip64_local: bool,
    /// central ZIP64 block placed after the other central extra blocks
    pub zip64_after: bool,
    pub local_extra: Vec<u8>,
    pub central_extra: Vec<u8>,
    pub comment: Vec<u8>,
    pub made_by: u16,
    pub ext_attr: u32,
    pub time: u16,
    pub date: u16,
    pub enc: Enc,
    pub gap_before: usize,
    pub extra_flags: u16,
    pub crc_override: Option<u32>,
    /// name bytes of the central record when they differ from the local header's (None = same)
    pub central_name: Option<Vec<u8>>,
    /// "version needed to extract" in both headers (None = 20, or 45 with ZIP64 fields)
    pub version_needed: Option<u16>,
    /// the entry's own local/central extra blocks go in FRONT of the AES block (default: behind it)
    pub extra_first: bool,
}

impl Default for ESpec {
    fn default() -> Self {
        ESpec {
            name: b"a".to_vec(),
            utf8: false,
            method: 0,
            content: vec![],
            raw_payload: None,
            dd: Dd::None,
            zip64_central: 0,
            zip64_local: false,
            zip64_after: false,
            local_extra: vec![],
            central_extra: vec![],
            comment: vec![],
            made_by: (3 << 8) | 20,
            ext_attr: 0o100644 << 16,
            time: 0x6000,
            date: 0x5821,
            enc: Enc::None,
            gap_before: 0,
            extra_flags: 0,
            crc_override: None,
            central_name: None,
            version_needed: None,
            extra_first: false,
        }
    }
}

#[derive(Clone, Debug, Default)]
pub struct Spec {
    pub prefix: Vec<u8>,
    pub entries: Vec<ESpec>,
    pub comment: Vec<u8>,
    pub trailing: Vec<u8>,
    pub force_zip64_eocd: bool,
    /// permutation of entry indices for the central directory (None = same order)
    pub cd_order: Option<Vec<usize>>,
    pub gap_before_cd: usize,
    /// ZIP64 extensible data sector appended to the ZIP64 end record (APPNOTE 4.3.14; the size field grows with it)
    pub zip64_ext: Vec<u8>,
}

#[derive(Clone, Debug, Default)]
pub struct ELayout {
    pub local_pos: u64,
    pub data_pos: u64,
    pub csize: u64,
    pub usize_: u64,
    pub crc: u32,
    pub dd_pos: Option<u64>,
    pub central_pos: u64,
    pub central_extra: Vec<u8>,
    pub local_extra_len: usize,
    pub flags: u16,
    pub method_field: u16,
    /// position of the ZIP64 block body inside the central record, if any
    pub central_zip64_body: Option<(u64, usize)>,
    pub local_zip64_body: Option<u64>,
    /// AES block body positions (local, central)
    pub aes_body: Option<(u64, u64)>,
}

#[derive(Clone, Debug, Default)]
pub struct Layout {
    pub base: u64,
    /// per spec entry index
    pub entries: Vec<ELayout>,
    pub cd_pos: u64,
    pub cd_size: u64,
    pub zip64_eocd_pos: Option<u64>,
    pub zip64_loc_pos: Option<u64>,
    pub eocd_pos: u64,
}

fn p16(v: &mut Vec<u8>, x: u16) {
    v.extend_from_slice(&x.to_le_bytes());
}
fn p32(v: &mut Vec<u8>, x: u32) {
    v.extend_from_slice(&x.to_le_bytes());
}
fn p64(v: &mut Vec<u8>, x: u64) {
    v.extend_from_slice(&x.to_le_bytes());
}

/// payload bytes as stored (compressed then encrypted), the flags and the method field
fn payload(e: &ESpec) -> (Vec<u8>, u32, u16, u16, Vec<u8>) {
    let crc = e.crc_override.unwrap_or_else(|| crc32::crc32(&e.content));
    let compressed = match &e.raw_payload {
        Some(p) => p.clone(),
        None => codec::compress(e.method, &e.content),
    };
    let mut flags = e.extra_flags;
    if e.utf8 {
        flags |= 1 << 11;
    }
    if e.dd != Dd::None {
        flags |= 8;
    }
    let mut method_field = e.method;
    let mut aes_extra = vec![];
    let stored = match &e.enc {
        Enc::None => compressed,
        Enc::ZipCrypto { pw, infozip } => {
            flags |= 1;
            let check = if *infozip { (e.time >> 8) as u8 } else { (crc >> 24) as u8 };
            let hdr = [0x11u8, 0x22, 0x33, 0x44, 0x55, 0x66, 0x77, 0x88, 0x99, 0xaa, 0xbb];
            zipcrypto::encrypt(pw, &hdr, check, &compressed)
        }
        Enc::Aes { version, strength, pw, salt_seed } => {
            flags |= 1;
            method_field = 99;
            let salt: Vec<u8> = (0..winzipaes::salt_len(*strength)).map(|i| salt_seed.wrapping_mul(31).wrapping_add(i as u8 * 7)).collect();
            aes_extra = winzipaes::extra_block(*version, *strength, e.method);
            winzipaes::encrypt(pw, &salt, *strength, &compressed)
        }
    };
    (stored, crc, flags, method_field, aes_extra)
}

pub fn build(spec: &Spec) -> (Vec<u8>, Layout) {
    let mut out = spec.prefix.clone();
    let base = out.len() as u64;
    let mut lay = Layout { base, entries: vec![ELayout::default(); spec.entries.len()], ..Default::default() };

    struct Done {
        crc: u32,
        csize: u64,
        usize_: u64,
        flags: u16,
        method_field: u16,
        off: u64,
        aes_extra: Vec<u8>,
    }
    let mut done = vec![];
    for (i, e) in spec.entries.iter().enumerate() {
        out.extend(std::iter::repeat(0xEE).take(e.gap_before));
        let (stored, crc, flags, method_field, aes_extra) = payload(e);
        let off = out.len() as u64 - base;
        let csize = stored.len() as u64;
        let usize_ = e.content.len() as u64;
        let l = &mut lay.entries[i];
        l.local_pos = out.len() as u64;
        // central crc for AE-2 is 0
        let crc_field = match &e.enc {
            Enc::Aes { version: 2, .. } => e.crc_override.unwrap_or(0),
            _ => crc,
        };
        let mut lextra = vec![];
        let zero_local = e.dd != Dd::None;
        if e.zip64_local {
            p16(&mut lextra, 1);
            p16(&mut lextra, 16);
            l.local_zip64_body = Some(0); // fixed up below
            p64(&mut lextra, if zero_local { 0 } else { usize_ });
            p64(&mut lextra, if zero_local { 0 } else { csize });
        }
        if e.extra_first {
            lextra.extend_from_slice(&e.local_extra);
        }
        let aes_l_off = lextra.len();
        lextra.extend_from_slice(&aes_extra);
        if !e.extra_first {
            lextra.extend_from_slice(&e.local_extra);
        }
        p32(&mut out, 0x04034b50);
        p16(&mut out, e.version_needed.unwrap_or(if e.zip64_local { 45 } else { 20 }));
        p16(&mut out, flags);
        p16(&mut out, method_field);
        p16(&mut out, e.time);
        p16(&mut out, e.date);
        p32(&mut out, if zero_local { 0 } else { crc_field });
        if e.zip64_local {
            p32(&mut out, 0xFFFF_FFFF);
            p32(&mut out, 0xFFFF_FFFF);
        } else {
            p32(&mut out, if zero_local { 0 } else { csize as u32 });
            p32(&mut out, if zero_local { 0 } else { usize_ as u32 });
        }
        p16(&mut out, e.name.len() as u16);
        p16(&mut out, lextra.len() as u16);
        out.extend_from_slice(&e.name);
        let lextra_pos = out.len() as u64;
        if e.zip64_local {
            l.local_zip64_body = Some(lextra_pos + 4);
        }
        out.extend_from_slice(&lextra);
        l.local_extra_len = lextra.len();
        l.data_pos = out.len() as u64;
        out.extend_from_slice(&stored);
        match e.dd {
            Dd::None => {}
            d => {
                l.dd_pos = Some(out.len() as u64);
                if matches!(d, Dd::Sig32 | Dd::Sig64) {
                    p32(&mut out, 0x08074b50);
                }
                p32(&mut out, crc_field);
                if matches!(d, Dd::Sig64 | Dd::NoSig64) {
                    p64(&mut out, csize);
                    p64(&mut out, usize_);
                } else {
                    p32(&mut out, csize as u32);
                    p32(&mut out, usize_ as u32);
                }
            }
        }
        l.csize = csize;
        l.usize_ = usize_;
        l.crc = crc_field;
        l.flags = flags;
        l.method_field = method_field;
        if !aes_extra.is_empty() {
            l.aes_body = Some((lextra_pos + aes_l_off as u64 + 4, 0));
        }
        done.push(Done { crc: crc_field, csize, usize_, flags, method_field, off, aes_extra });
    }
    out.extend(std::iter::repeat(0xEE).take(spec.gap_before_cd));
    let cd_pos = out.len() as u64;
    let order: Vec<usize> = spec.cd_order.clone().unwrap_or_else(|| (0..spec.entries.len()).collect());
    for &i in &order {
        let e = &spec.entries[i];
        let d = &done[i];
        let cpos = out.len() as u64;
        lay.entries[i].central_pos = cpos;
        let mut z = vec![];
        if e.zip64_central != 0 {
            let mut body = vec![];
            if e.zip64_central & 1 != 0 {
                p64(&mut body, d.usize_);
            }
            if e.zip64_central & 2 != 0 {
                p64(&mut body, d.csize);
            }
            if e.zip64_central & 4 != 0 {
                p64(&mut body, d.off);
            }
            // bit 3: the disk start number moves into the block too (fourth field, 4 bytes; the 16-bit field says 0xFFFF)
            if e.zip64_central & 8 != 0 {
                p32(&mut body, 0);
            }
            p16(&mut z, 1);
            p16(&mut z, body.len() as u16);
            z.extend_from_slice(&body);
        }
        let mut cextra = vec![];
        let mut zbody_off = None;
        if !e.zip64_after && !z.is_empty() {
            zbody_off = Some(cextra.len() + 4);
            cextra.extend_from_slice(&z);
        }
        if e.extra_first {
            cextra.extend_from_slice(&e.central_extra);
        }
        let aes_c_off = cextra.len();
        cextra.extend_from_slice(&d.aes_extra);
        if !e.extra_first {
            cextra.extend_from_slice(&e.central_extra);
        }
        if e.zip64_after && !z.is_empty() {
            zbody_off = Some(cextra.len() + 4);
            cextra.extend_from_slice(&z);
        }
        p32(&mut out, 0x02014b50);
        p16(&mut out, e.made_by);
        p16(&mut out, e.version_needed.unwrap_or(if e.zip64_central != 0 { 45 } else { 20 }));
        p16(&mut out, d.flags);
        p16(&mut out, d.method_field);
        p16(&mut out, e.time);
        p16(&mut out, e.date);
        p32(&mut out, d.crc);
        p32(&mut out, if e.zip64_central & 2 != 0 { 0xFFFF_FFFF } else { d.csize as u32 });
        p32(&mut out, if e.zip64_central & 1 != 0 { 0xFFFF_FFFF } else { d.usize_ as u32 });
        let cname: &[u8] = e.central_name.as_deref().unwrap_or(&e.name);
        p16(&mut out, cname.len() as u16);
        p16(&mut out, cextra.len() as u16);
        p16(&mut out, e.comment.len() as u16);
        p16(&mut out, if e.zip64_central & 8 != 0 { 0xFFFF } else { 0 });
        p16(&mut out, 0);
        p32(&mut out, e.ext_attr);
        p32(&mut out, if e.zip64_central & 4 != 0 { 0xFFFF_FFFF } else { d.off as u32 });
        out.extend_from_slice(cname);
        let cextra_pos = out.len() as u64;
        out.extend_from_slice(&cextra);
        out.extend_from_slice(&e.comment);
        lay.entries[i].central_extra = cextra.clone();
        if let Some(o) = zbody_off {
            lay.entries[i].central_zip64_body = Some((cextra_pos + o as u64, z.len() - 4));
        }
        if let Some((lpos, _)) = lay.entries[i].aes_body {
            lay.entries[i].aes_body = Some((lpos, cextra_pos + aes_c_off as u64 + 4));
        }
    }
    let cd_size = out.len() as u64 - cd_pos;
    lay.cd_pos = cd_pos;
    lay.cd_size = cd_size;
    let n = spec.entries.len() as u64;
    let cd_off = cd_pos - base;
    let need64 = spec.force_zip64_eocd || n > 0xFFFF || cd_size > 0xFFFF_FFFF || cd_off > 0xFFFF_FFFF;
    if need64 {
        let zpos = out.len() as u64;
        lay.zip64_eocd_pos = Some(zpos);
        p32(&mut out, 0x06064b50);
        p64(&mut out, 44 + spec.zip64_ext.len() as u64);
        p16(&mut out, 45);
        p16(&mut out, 45);
        p32(&mut out, 0);
        p32(&mut out, 0);
        p64(&mut out, n);
        p64(&mut out, n);
        p64(&mut out, cd_size);
        p64(&mut out, cd_off);
        out.extend_from_slice(&spec.zip64_ext);
        lay.zip64_loc_pos = Some(out.len() as u64);
        p32(&mut out, 0x07064b50);
        p32(&mut out, 0);
        p64(&mut out, zpos - base);
        p32(&mut out, 1);
    }
    lay.eocd_pos = out.len() as u64;
    p32(&mut out, 0x06054b50);
    p16(&mut out, 0);
    p16(&mut out, 0);
    let sat = spec.force_zip64_eocd;
    p16(&mut out, if sat { 0xFFFF } else { n.min(0xFFFF) as u16 });
    p16(&mut out, if sat { 0xFFFF } else { n.min(0xFFFF) as u16 });
    p32(&mut out, if sat { 0xFFFF_FFFF } else { cd_size.min(0xFFFF_FFFF) as u32 });
    p32(&mut out, if sat { 0xFFFF_FFFF } else { cd_off.min(0xFFFF_FFFF) as u32 });
    p16(&mut out, spec.comment.len() as u16);
    out.extend_from_slice(&spec.comment);
    out.extend_from_slice(&spec.trailing);
    (out, lay)
}

/// An unknown-id extra block.
pub fn extra_block(id: u16, body: &[u8]) -> Vec<u8> {
    let mut v = vec![];
    p16(&mut v, id);
    p16(&mut v, body.len() as u16);
    v.extend_from_slice(body);
    v
}

impl ESpec {
    pub fn describe(&self) -> Value {
        json!({
            "name": crate::util::hex(&self.name),
            "utf8": self.utf8,
            "method": self.method,
            "content_len": self.content.len(),
            "dd": format!("{:?}", self.dd),
            "zip64_central": self.zip64_central,
            "zip64_local": self.zip64_local,
            "zip64_after": self.zip64_after,
            "local_extra": crate::util::hex(&self.local_extra),
            "central_extra": crate::util::hex(&self.central_extra),
            "comment": crate::util::hex(&self.comment),
            "made_by": self.made_by,
            "ext_attr": self.ext_attr,
            "time": self.time,
            "date": self.date,
            "enc": format!("{:?}", self.enc),
            "gap_before": self.gap_before,
        })
    }
}
impl Spec {
    pub fn describe(&self) -> Value {
        json!({
            "prefix_len": self.prefix.len(),
            "entries": self.entries.iter().map(|e| e.describe()).collect::<Vec<_>>(),
            "comment_len": self.comment.len(),
            "trailing_len": self.trailing.len(),
            "force_zip64_eocd": self.force_zip64_eocd,
            "cd_order": self.cd_order,
            "gap_before_cd": self.gap_before_cd,
            "zip64_ext_len": self.zip64_ext.len(),
        })
    }
}

// ---------------------------------------------------------------------------------------------
// full (replayable) serialisation

fn dd_name(d: Dd) -> &'static str {
    match d {
        Dd::None => "none",
        Dd::Sig32 => "sig32",
        Dd::NoSig32 => "nosig32",
        Dd::Sig64 => "sig64",
        Dd::NoSig64 => "nosig64",
    }
}
fn dd_from(s: &str) -> Dd {
    match s {
        "sig32" => Dd::Sig32,
        "nosig32" => Dd::NoSig32,
        "sig64" => Dd::Sig64,
        "nosig64" => Dd::NoSig64,
        _ => Dd::None,
    }
}
fn big(b: &[u8]) -> Value {
    if b.len() > 256 && b.iter().all(|&c| c == b[0]) {
        json!({"rep": b[0], "count": b.len()})
    } else {
        json!(crate::util::hex(b))
    }
}
fn unbig(v: &Value) -> Vec<u8> {
    if let Some(s) = v.as_str() {
        crate::util::unhex(s)
    } else {
        vec![v["rep"].as_u64().unwrap_or(0) as u8; v["count"].as_u64().unwrap_or(0) as usize]
    }
}
impl ESpec {
    pub fn to_json(&self) -> Value {
        let enc = match &self.enc {
            Enc::None => json!(null),
            Enc::ZipCrypto { pw, infozip } => json!({"zipcrypto": crate::util::hex(pw), "infozip": infozip}),
            Enc::Aes { version, strength, pw, salt_seed } => json!({"aes": crate::util::hex(pw), "version": version, "strength": strength, "salt_seed": salt_seed}),
        };
        json!({
            "name": crate::util::hex(&self.name), "utf8": self.utf8, "method": self.method, "content": big(&self.content),
            "raw_payload": self.raw_payload.as_ref().map(|p| crate::util::hex(p)), "dd": dd_name(self.dd),
            "zip64_central": self.zip64_central, "zip64_local": self.zip64_local, "zip64_after": self.zip64_after,
            "local_extra": crate::util::hex(&self.local_extra), "central_extra": crate::util::hex(&self.central_extra),
            "comment": crate::util::hex(&self.comment), "made_by": self.made_by, "ext_attr": self.ext_attr,
            "time": self.time, "date": self.date, "enc": enc, "gap_before": self.gap_before, "extra_flags": self.extra_flags,
            "crc_override": self.crc_override, "central_name": self.central_name.as_ref().map(|p| crate::util::hex(p)), "version_needed": self.version_needed, "extra_first": self.extra_first,
        })
    }
    pub fn from_json(v: &Value) -> ESpec {
        let h = |k: &str| crate::util::unhex(v[k].as_str().unwrap_or(""));
        let enc = if let Some(p) = v["enc"]["zipcrypto"].as_str() {
            Enc::ZipCrypto { pw: crate::util::unhex(p), infozip: v["enc"]["infozip"].as_bool().unwrap_or(false) }
        } else if let Some(p) = v["enc"]["aes"].as_str() {
            Enc::Aes {
                version: v["enc"]["version"].as_u64().unwrap_or(2) as u16,
                strength: v["enc"]["strength"].as_u64().unwrap_or(3) as u8,
                pw: crate::util::unhex(p),
                salt_seed: v["enc"]["salt_seed"].as_u64().unwrap_or(0) as u8,
            }
        } else {
            Enc::None
        };
        ESpec {
            name: h("name"),
            utf8: v["utf8"].as_bool().unwrap_or(false),
            method: v["method"].as_u64().unwrap_or(0) as u16,
            content: unbig(&v["content"]),
            raw_payload: v["raw_payload"].as_str().map(crate::util::unhex),
            dd: dd_from(v["dd"].as_str().unwrap_or("none")),
            zip64_central: v["zip64_central"].as_u64().unwrap_or(0) as u8,
            zip64_local: v["zip64_local"].as_bool().unwrap_or(false),
            zip64_after: v["zip64_after"].as_bool().unwrap_or(false),
            local_extra: h("local_extra"),
            central_extra: h("central_extra"),
            comment: h("comment"),
            made_by: v["made_by"].as_u64().unwrap_or(0) as u16,
            ext_attr: v["ext_attr"].as_u64().unwrap_or(0) as u32,
            time: v["time"].as_u64().unwrap_or(0) as u16,
            date: v["date"].as_u64().unwrap_or(0) as u16,
            enc,
            gap_before: v["gap_before"].as_u64().unwrap_or(0) as usize,
            extra_flags: v["extra_flags"].as_u64().unwrap_or(0) as u16,
            crc_override: v["crc_override"].as_u64().map(|x| x as u32),
            central_name: v["central_name"].as_str().map(crate::util::unhex),
            version_needed: v["version_needed"].as_u64().map(|x| x as u16),
            extra_first: v["extra_first"].as_bool().unwrap_or(false),
        }
    }
}
impl Spec {
    pub fn to_json(&self) -> Value {
        json!({
            "prefix": big(&self.prefix), "entries": self.entries.iter().map(|e| e.to_json()).collect::<Vec<_>>(),
            "comment": big(&self.comment), "trailing": big(&self.trailing), "force_zip64_eocd": self.force_zip64_eocd,
            "cd_order": self.cd_order, "gap_before_cd": self.gap_before_cd, "zip64_ext": crate::util::hex(&self.zip64_ext),
        })
    }
    pub fn from_json(v: &Value) -> Spec {
        Spec {
            prefix: unbig(&v["prefix"]),
            entries: v["entries"].as_array().map(|a| a.iter().map(ESpec::from_json).collect()).unwrap_or_default(),
            comment: unbig(&v["comment"]),
            trailing: unbig(&v["trailing"]),
            force_zip64_eocd: v["force_zip64_eocd"].as_bool().unwrap_or(false),
            cd_order: v["cd_order"].as_array().map(|a| a.iter().map(|x| x.as_u64().unwrap_or(0) as usize).collect()),
            gap_before_cd: v["gap_before_cd"].as_u64().unwrap_or(0) as usize,
            zip64_ext: crate::util::unhex(v["zip64_ext"].as_str().unwrap_or("")),
        }
    }
}

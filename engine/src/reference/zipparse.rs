//! Independent ZIP parser / strict validator written from APPNOTE 6.3.9 only.
//! Shares no code with the `zip` crate. Works over a `Blob` so that sparse multi-GiB
//! archives can be validated without materialising them.

use super::{codec, crc32, zipcrypto};

pub trait Blob: Sync {
    fn blen(&self) -> u64;
    /// Fill `buf` from absolute offset `off`; false if out of range.
    fn read_at(&self, off: u64, buf: &mut [u8]) -> bool;
    /// Some(true) if the range is known to be all zero without reading it (sparse holes).
    fn zero_range(&self, _off: u64, _len: u64) -> Option<bool> {
        None
    }
}
impl Blob for [u8] {
    fn blen(&self) -> u64 {
        self.len() as u64
    }
    fn read_at(&self, off: u64, buf: &mut [u8]) -> bool {
        let end = match off.checked_add(buf.len() as u64) {
            Some(e) => e,
            None => return false,
        };
        if end > self.len() as u64 {
            return false;
        }
        buf.copy_from_slice(&self[off as usize..end as usize]);
        true
    }
}
impl Blob for Vec<u8> {
    fn blen(&self) -> u64 {
        self.len() as u64
    }
    fn read_at(&self, off: u64, buf: &mut [u8]) -> bool {
        self.as_slice().read_at(off, buf)
    }
}

#[derive(Debug, Clone)]
pub struct VErr {
    pub clause: &'static str,
    pub detail: String,
}
impl std::fmt::Display for VErr {
    fn fmt(&self, f: &mut std::fmt::Formatter) -> std::fmt::Result {
        write!(f, "{}: {}", self.clause, self.detail)
    }
}
fn verr<T>(clause: &'static str, detail: impl Into<String>) -> Result<T, VErr> {
    Err(VErr { clause, detail: detail.into() })
}

#[derive(Debug, Clone, Default)]
pub struct PEntry {
    // central record
    pub made_by: u16,
    pub ver_needed: u16,
    pub flags: u16,
    pub method: u16,
    pub time: u16,
    pub date: u16,
    pub crc: u32,
    pub csize: u64,
    pub usize_: u64,
    pub name: Vec<u8>,
    pub extra: Vec<u8>,
    pub comment: Vec<u8>,
    pub disk: u32,
    pub int_attr: u16,
    pub ext_attr: u32,
    /// header offset as recorded (relative to archive base)
    pub header_off: u64,
    /// absolute position of the central record in the blob
    pub central_pos: u64,
    pub central_has_zip64: bool,
    // local header
    pub l_ver: u16,
    pub l_flags: u16,
    pub l_method: u16,
    pub l_time: u16,
    pub l_date: u16,
    pub l_crc: u32,
    pub l_csize: u64,
    pub l_usize: u64,
    pub l_name: Vec<u8>,
    pub l_extra: Vec<u8>,
    pub l_has_zip64: bool,
    /// absolute position of the local header / of the first data byte
    pub local_pos: u64,
    pub data_pos: u64,
    /// data descriptor: (crc, csize, usize, with_signature, is64, total length)
    pub dd: Option<(u32, u64, u64, bool, bool, u64)>,
}

impl PEntry {
    pub fn encrypted(&self) -> bool {
        self.flags & 1 != 0
    }
    /// Extra blocks of an extra area as (id, body) pairs; None if malformed.
    pub fn tlv(extra: &[u8]) -> Option<Vec<(u16, Vec<u8>)>> {
        let mut out = vec![];
        let mut p = 0usize;
        while p < extra.len() {
            if extra.len() - p < 4 {
                return None;
            }
            let id = u16::from_le_bytes([extra[p], extra[p + 1]]);
            let ln = u16::from_le_bytes([extra[p + 2], extra[p + 3]]) as usize;
            p += 4;
            if extra.len() - p < ln {
                return None;
            }
            out.push((id, extra[p..p + ln].to_vec()));
            p += ln;
        }
        Some(out)
    }
    /// The extra area without ZIP64 (0x0001) blocks, re-serialised.
    pub fn extra_without_zip64(extra: &[u8]) -> Option<Vec<u8>> {
        let t = Self::tlv(extra)?;
        let mut out = vec![];
        for (id, body) in t {
            if id == 1 {
                continue;
            }
            out.extend_from_slice(&id.to_le_bytes());
            out.extend_from_slice(&(body.len() as u16).to_le_bytes());
            out.extend_from_slice(&body);
        }
        Some(out)
    }
    pub fn unix_mode(&self) -> Option<u32> {
        if self.ext_attr == 0 {
            None
        } else if self.made_by >> 8 == 3 {
            Some(self.ext_attr >> 16)
        } else {
            None
        }
    }
}

#[derive(Debug, Clone, Default)]
pub struct Parsed {
    pub base: u64,
    pub entries: Vec<PEntry>,
    pub comment: Vec<u8>,
    pub eocd_pos: u64,
    pub cd_pos: u64,
    pub cd_size: u64,
    pub count: u64,
    pub zip64_eocd_pos: Option<u64>,
    pub zip64_locator_pos: Option<u64>,
    pub trailing: u64,
    /// raw EOCD fields
    pub eocd_count: u16,
    pub eocd_cd_size: u32,
    pub eocd_cd_off: u32,
}

#[derive(Clone, Debug)]
pub struct Opts {
    pub allow_prefix: bool,
    pub allow_trailing: bool,
    /// require local header fields to agree with central ones
    pub local_agrees: bool,
    /// require bit 11 <=> non-ASCII name
    pub utf8_flag_exact: bool,
    /// require the central directory to end exactly where the end records begin
    pub cd_contiguous_to_end: bool,
    /// decode data and compare size + CRC for entries up to this many (uncompressed) bytes
    pub decode_limit: u64,
    pub password: Option<Vec<u8>>,
    /// require a central ZIP64 block to hold exactly the slots of the saturated fields
    /// (APPNOTE 4.5.3 "MUST only appear if ..."); common readers tolerate spare slots
    pub zip64_exact: bool,
}
impl Opts {
    /// What the crate's own writer must satisfy.
    pub fn strict() -> Opts {
        Opts {
            allow_prefix: false,
            allow_trailing: false,
            local_agrees: true,
            utf8_flag_exact: true,
            cd_contiguous_to_end: true,
            decode_limit: 64 << 20,
            password: None,
            // spare slots at the end of a ZIP64 block are tolerated by every reader and not excluded by any property
            zip64_exact: false,
        }
    }
    /// For foreign archives: structure only.
    pub fn lenient() -> Opts {
        Opts {
            allow_prefix: true,
            allow_trailing: true,
            local_agrees: false,
            utf8_flag_exact: false,
            cd_contiguous_to_end: false,
            decode_limit: 64 << 20,
            password: None,
            zip64_exact: false,
        }
    }
}

fn rd<B: Blob + ?Sized>(b: &B, off: u64, n: usize) -> Result<Vec<u8>, VErr> {
    if off.checked_add(n as u64).map_or(true, |e| e > b.blen()) {
        return verr("bounds", format!("read of {n} bytes at {off} beyond file length {}", b.blen()));
    }
    let mut v = vec![0u8; n];
    if !b.read_at(off, &mut v) {
        return verr("bounds", format!("read of {n} bytes at {off} beyond file length {}", b.blen()));
    }
    Ok(v)
}
fn u16le(v: &[u8], o: usize) -> u16 {
    u16::from_le_bytes([v[o], v[o + 1]])
}
fn u32le(v: &[u8], o: usize) -> u32 {
    u32::from_le_bytes([v[o], v[o + 1], v[o + 2], v[o + 3]])
}
fn u64le(v: &[u8], o: usize) -> u64 {
    let mut a = [0u8; 8];
    a.copy_from_slice(&v[o..o + 8]);
    u64::from_le_bytes(a)
}

const SIG_LOCAL: u32 = 0x04034b50;
const SIG_CENTRAL: u32 = 0x02014b50;
const SIG_EOCD: u32 = 0x06054b50;
const SIG_Z64EOCD: u32 = 0x06064b50;
const SIG_Z64LOC: u32 = 0x07064b50;
const SIG_DD: u32 = 0x08074b50;

/// Parse the archive structure. Structural impossibilities are errors; agreement rules are
/// checked according to `opts`.
pub fn parse<B: Blob + ?Sized>(b: &B, opts: &Opts) -> Result<Parsed, VErr> {
    let len = b.blen();
    if len < 22 {
        return verr("eocd", "file shorter than an end-of-central-directory record");
    }
    // 1. EOCD: nearest to the end whose comment length is consistent with the file length
    let lo = len.saturating_sub(22 + 65535);
    let tail = rd(b, lo, (len - lo) as usize)?;
    let mut found: Option<u64> = None;
    let mut p = (len - 22 - lo) as i64;
    while p >= 0 {
        let pu = p as usize;
        if u32le(&tail, pu) == SIG_EOCD {
            let cl = u16le(&tail, pu + 20) as u64;
            let rest = len - (lo + pu as u64) - 22;
            if cl == rest || (opts.allow_trailing && cl <= rest) {
                found = Some(lo + pu as u64);
                break;
            }
        }
        p -= 1;
    }
    let eocd_pos = match found {
        Some(p) => p,
        None => return verr("eocd", "no end-of-central-directory record whose comment length matches the file end"),
    };
    let e = rd(b, eocd_pos, 22)?;
    let disk = u16le(&e, 4);
    let cd_disk = u16le(&e, 6);
    let n_this = u16le(&e, 8);
    let n_total = u16le(&e, 10);
    let cd_size32 = u32le(&e, 12);
    let cd_off32 = u32le(&e, 16);
    let clen = u16le(&e, 20) as u64;
    let comment = rd(b, eocd_pos + 22, clen as usize)?;
    let trailing = len - eocd_pos - 22 - clen;

    let mut out = Parsed {
        comment,
        eocd_pos,
        trailing,
        eocd_count: n_total,
        eocd_cd_size: cd_size32,
        eocd_cd_off: cd_off32,
        ..Default::default()
    };

    // 2. ZIP64 locator + record
    let mut count = n_total as u64;
    let mut cd_size = cd_size32 as u64;
    let mut cd_off = cd_off32 as u64;
    let mut end_of_cd_expected = eocd_pos;
    let mut base: Option<u64> = None;
    let mut have_z64 = false;
    if eocd_pos >= 20 {
        let l = rd(b, eocd_pos - 20, 20)?;
        if u32le(&l, 0) == SIG_Z64LOC {
            have_z64 = true;
            let loc_pos = eocd_pos - 20;
            let ldisk = u32le(&l, 4);
            let z_off = u64le(&l, 8);
            let ndisks = u32le(&l, 16);
            if ldisk != 0 || ndisks != 1 {
                return verr("zip64-locator", format!("disk {ldisk} / total disks {ndisks}, expected 0 / 1"));
            }
            // the record must end exactly where the locator begins
            // try the canonical 56-byte record first, else scan back for a record whose size fits
            let mut zpos = None;
            let mut cand = loc_pos.checked_sub(56);
            let mut tries = 0;
            while let Some(c) = cand {
                let h = rd(b, c, 12)?;
                if u32le(&h, 0) == SIG_Z64EOCD && u64le(&h, 4).checked_add(12) == Some(loc_pos - c) {
                    zpos = Some(c);
                    break;
                }
                tries += 1;
                if tries > 4096 {
                    break;
                }
                cand = c.checked_sub(1);
            }
            let zpos = match zpos {
                Some(z) => z,
                None => return verr("zip64-eocd", "no ZIP64 end record ending exactly at the locator"),
            };
            if zpos < z_off {
                return verr("zip64-locator", format!("locator offset {z_off} beyond the record position {zpos}"));
            }
            base = Some(zpos - z_off);
            let z = rd(b, zpos, 56)?;
            let zdisk = u32le(&z, 16);
            let zcd_disk = u32le(&z, 20);
            let zn_this = u64le(&z, 24);
            let zn_total = u64le(&z, 32);
            let zcd_size = u64le(&z, 40);
            let zcd_off = u64le(&z, 48);
            if zdisk != 0 || zcd_disk != 0 || zn_this != zn_total {
                return verr("zip64-eocd", "multi-disk fields set");
            }
            // EOCD fields must be the true value or the saturated marker
            if !(n_total as u64 == zn_total.min(0xFFFF) || n_total == 0xFFFF) || n_this != n_total {
                return verr("eocd-vs-zip64", format!("EOCD count {n_total}/{n_this} vs ZIP64 count {zn_total}"));
            }
            if !(cd_size32 as u64 == zcd_size.min(0xFFFF_FFFF) || cd_size32 == 0xFFFF_FFFF) {
                return verr("eocd-vs-zip64", format!("EOCD cd size {cd_size32} vs ZIP64 {zcd_size}"));
            }
            if !(cd_off32 as u64 == zcd_off.min(0xFFFF_FFFF) || cd_off32 == 0xFFFF_FFFF) {
                return verr("eocd-vs-zip64", format!("EOCD cd offset {cd_off32} vs ZIP64 {zcd_off}"));
            }
            count = zn_total;
            cd_size = zcd_size;
            cd_off = zcd_off;
            end_of_cd_expected = zpos;
            out.zip64_eocd_pos = Some(zpos);
            out.zip64_locator_pos = Some(loc_pos);
        }
    }
    if disk != 0 && disk != 0xFFFF || cd_disk != 0 && cd_disk != 0xFFFF {
        return verr("eocd", format!("disk numbers {disk}/{cd_disk}"));
    }
    if !have_z64 {
        if n_this != n_total {
            return verr("eocd", "entries on this disk != total entries");
        }
        if cd_size32 == 0xFFFF_FFFF || cd_off32 == 0xFFFF_FFFF {
            return verr("zip64-missing", "EOCD size/offset saturated but no ZIP64 records");
        }
    }
    let base = match base {
        Some(bv) => bv,
        None => {
            let need = cd_size.checked_add(cd_off);
            match need.and_then(|n| eocd_pos.checked_sub(n)) {
                Some(bv) => bv,
                None => {
                    return verr(
                        "eocd-offsets",
                        format!("cd offset {cd_off} + size {cd_size} exceeds EOCD position {eocd_pos}"),
                    )
                }
            }
        }
    };
    if base != 0 && !opts.allow_prefix {
        return verr(
            "eocd-offsets",
            format!("central directory offset+size ({cd_off}+{cd_size}) does not reach the end records (gap {base})"),
        );
    }
    let cd_pos = base + cd_off;
    out.base = base;
    out.cd_pos = cd_pos;
    out.cd_size = cd_size;
    out.count = count;
    if opts.cd_contiguous_to_end && cd_pos.checked_add(cd_size) != Some(end_of_cd_expected) {
        return verr(
            "cd-extent",
            format!("central directory [{cd_pos},+{cd_size}) does not end at the end records ({end_of_cd_expected})"),
        );
    }
    if cd_pos.checked_add(cd_size).map_or(true, |e| e > end_of_cd_expected) {
        return verr("cd-extent", "central directory overlaps the end records");
    }
    if count > cd_size / 46 {
        return verr("cd-count", format!("{count} records cannot fit in {cd_size} bytes"));
    }

    // 3. central records
    let cd = rd(b, cd_pos, cd_size as usize)?;
    let mut q = 0usize;
    for i in 0..count {
        if cd.len() - q < 46 {
            return verr("cd-count", format!("record {i}: central directory exhausted"));
        }
        if u32le(&cd, q) != SIG_CENTRAL {
            return verr("cd-signature", format!("record {i}: bad central signature at +{q}"));
        }
        let n = u16le(&cd, q + 28) as usize;
        let x = u16le(&cd, q + 30) as usize;
        let c = u16le(&cd, q + 32) as usize;
        if cd.len() - q < 46 + n + x + c {
            return verr("cd-count", format!("record {i}: variable part exceeds the central directory"));
        }
        let mut en = PEntry {
            made_by: u16le(&cd, q + 4),
            ver_needed: u16le(&cd, q + 6),
            flags: u16le(&cd, q + 8),
            method: u16le(&cd, q + 10),
            time: u16le(&cd, q + 12),
            date: u16le(&cd, q + 14),
            crc: u32le(&cd, q + 16),
            csize: u32le(&cd, q + 20) as u64,
            usize_: u32le(&cd, q + 24) as u64,
            disk: u16le(&cd, q + 34) as u32,
            int_attr: u16le(&cd, q + 36),
            ext_attr: u32le(&cd, q + 38),
            header_off: u32le(&cd, q + 42) as u64,
            name: cd[q + 46..q + 46 + n].to_vec(),
            extra: cd[q + 46 + n..q + 46 + n + x].to_vec(),
            comment: cd[q + 46 + n + x..q + 46 + n + x + c].to_vec(),
            central_pos: cd_pos + q as u64,
            ..Default::default()
        };
        let tl = match PEntry::tlv(&en.extra) {
            Some(t) => t,
            None => return verr("extra-tlv", format!("record {i}: central extra field is not a well-formed TLV list")),
        };
        let z: Vec<&(u16, Vec<u8>)> = tl.iter().filter(|(id, _)| *id == 1).collect();
        if z.len() > 1 {
            return verr("zip64-extra", format!("record {i}: more than one ZIP64 block"));
        }
        if let Some((_, body)) = z.first() {
            en.central_has_zip64 = true;
            let mut o = 0usize;
            let mut take = |o: &mut usize| -> Option<u64> {
                if body.len() >= *o + 8 {
                    let v = u64le(body, *o);
                    *o += 8;
                    Some(v)
                } else {
                    None
                }
            };
            let miss = |w: &str| VErr {
                clause: "zip64-extra",
                detail: format!("record {i}: field {w} is saturated but the ZIP64 block (len {}) has no slot for it", body.len()),
            };
            if en.usize_ == 0xFFFF_FFFF {
                en.usize_ = take(&mut o).ok_or_else(|| miss("uncompressed size"))?;
            }
            if en.csize == 0xFFFF_FFFF {
                en.csize = take(&mut o).ok_or_else(|| miss("compressed size"))?;
            }
            if en.header_off == 0xFFFF_FFFF {
                en.header_off = take(&mut o).ok_or_else(|| miss("header offset"))?;
            }
            if en.disk == 0xFFFF {
                if body.len() >= o + 4 {
                    en.disk = u32le(body, o);
                    o += 4;
                } else {
                    return Err(miss("disk"));
                }
            }
            if o != body.len() && opts.zip64_exact {
                return verr(
                    "zip64-extra",
                    format!("record {i}: ZIP64 block has {} bytes, the saturated fields account for {o}", body.len()),
                );
            }
        }
        if en.disk != 0 {
            return verr("cd-record", format!("record {i}: disk number {}", en.disk));
        }
        q += 46 + n + x + c;
        out.entries.push(en);
    }
    if q as u64 != cd_size {
        return verr("cd-extent", format!("records occupy {q} bytes, recorded size {cd_size}"));
    }

    // 4. local headers
    for (i, en) in out.entries.iter_mut().enumerate() {
        let lp = match base.checked_add(en.header_off) {
            Some(v) => v,
            None => return verr("local-offset", format!("entry {i}: header offset overflows")),
        };
        if lp.checked_add(30).map_or(true, |e| e > cd_pos) {
            return verr("local-offset", format!("entry {i}: local header at {lp} not before the central directory at {cd_pos}"));
        }
        let h = rd(b, lp, 30)?;
        if u32le(&h, 0) != SIG_LOCAL {
            return verr("local-signature", format!("entry {i}: no local header signature at offset {lp}"));
        }
        let n = u16le(&h, 26) as usize;
        let x = u16le(&h, 28) as usize;
        let var = rd(b, lp + 30, n + x)?;
        en.local_pos = lp;
        en.l_ver = u16le(&h, 4);
        en.l_flags = u16le(&h, 6);
        en.l_method = u16le(&h, 8);
        en.l_time = u16le(&h, 10);
        en.l_date = u16le(&h, 12);
        en.l_crc = u32le(&h, 14);
        en.l_csize = u32le(&h, 18) as u64;
        en.l_usize = u32le(&h, 22) as u64;
        en.l_name = var[..n].to_vec();
        en.l_extra = var[n..].to_vec();
        en.data_pos = lp + 30 + (n + x) as u64;
        let tl = match PEntry::tlv(&en.l_extra) {
            Some(t) => t,
            None => return verr("extra-tlv", format!("entry {i}: local extra field is not a well-formed TLV list")),
        };
        let z: Vec<&(u16, Vec<u8>)> = tl.iter().filter(|(id, _)| *id == 1).collect();
        if z.len() > 1 {
            return verr("zip64-extra", format!("entry {i}: more than one local ZIP64 block"));
        }
        if let Some((_, body)) = z.first() {
            en.l_has_zip64 = true;
            if en.l_usize == 0xFFFF_FFFF || en.l_csize == 0xFFFF_FFFF {
                // APPNOTE 4.5.3: the local block MUST include both sizes
                if body.len() < 16 {
                    return verr("zip64-extra", format!("entry {i}: local ZIP64 block shorter than 16 bytes"));
                }
                en.l_usize = u64le(body, 0);
                en.l_csize = u64le(body, 8);
            }
        } else if (en.l_usize == 0xFFFF_FFFF || en.l_csize == 0xFFFF_FFFF) && en.central_has_zip64 {
            // literal 0xFFFFFFFF in the local header is only plausible without any zip64 use
        }
        let end = match en.data_pos.checked_add(en.csize) {
            Some(e) => e,
            None => return verr("data-extent", format!("entry {i}: data extent overflows")),
        };
        if end > cd_pos {
            return verr(
                "data-extent",
                format!("entry {i}: data [{}, {end}) runs into the central directory at {cd_pos}", en.data_pos),
            );
        }
        // data descriptor
        if en.l_flags & 8 != 0 {
            let avail = cd_pos - end;
            let peek = rd(b, end, avail.min(24) as usize)?;
            let is64 = en.l_has_zip64 || en.csize > 0xFFFF_FFFF || en.usize_ > 0xFFFF_FFFF;
            let mut got = None;
            // try: with signature / without, 32-bit / 64-bit, preferring one that matches the central values
            for &(sig, w64) in &[(true, is64), (false, is64), (true, !is64), (false, !is64)] {
                let need = (if sig { 4 } else { 0 }) + 4 + if w64 { 16 } else { 8 };
                if peek.len() < need {
                    continue;
                }
                let mut o = 0;
                if sig {
                    if u32le(&peek, 0) != SIG_DD {
                        continue;
                    }
                    o = 4;
                }
                let c = u32le(&peek, o);
                let (cs, us) = if w64 {
                    (u64le(&peek, o + 4), u64le(&peek, o + 12))
                } else {
                    (u32le(&peek, o + 4) as u64, u32le(&peek, o + 8) as u64)
                };
                if c == en.crc && cs == en.csize && us == en.usize_ {
                    got = Some((c, cs, us, sig, w64, need as u64));
                    break;
                }
            }
            match got {
                Some(d) => en.dd = Some(d),
                None => {
                    return verr("data-descriptor", format!("entry {i}: no data descriptor matching the central record after the data"))
                }
            }
        }
    }
    Ok(out)
}

/// Decoded content of entry `i` (after decryption if a password is given).
pub fn content<B: Blob + ?Sized>(b: &B, en: &PEntry, opts: &Opts) -> Result<Vec<u8>, VErr> {
    if en.usize_ > opts.decode_limit || en.csize > opts.decode_limit {
        return verr("too-large", "entry larger than the decode limit");
    }
    let mut raw = rd(b, en.data_pos, en.csize as usize)?;
    let mut method = en.method;
    if en.flags & 1 != 0 {
        if method == 99 {
            return verr("encrypted", "AES entry: not decoded by the structural validator");
        }
        let pw = match &opts.password {
            Some(p) => p,
            None => return verr("encrypted", "encrypted entry and no password supplied"),
        };
        let check = if en.flags & 8 != 0 { (en.time >> 8) as u8 } else { (en.crc >> 24) as u8 };
        raw = match zipcrypto::decrypt(pw, &raw, check) {
            Ok(p) => p,
            Err(e) => return verr("zipcrypto", e),
        };
    }
    if method == 99 {
        method = 0xFFFF;
    }
    match codec::decompress(method, &raw, opts.decode_limit as usize) {
        Ok(v) => Ok(v),
        Err(e) => verr("decode", e),
    }
}

/// Raw (still compressed / encrypted) bytes of an entry.
pub fn raw_data<B: Blob + ?Sized>(b: &B, en: &PEntry) -> Result<Vec<u8>, VErr> {
    rd(b, en.data_pos, en.csize as usize)
}

/// Full validation: `parse` + agreement rules + disjointness + data checks.
pub fn validate<B: Blob + ?Sized>(b: &B, opts: &Opts) -> Result<Parsed, VErr> {
    let p = parse(b, opts)?;
    // ZIP64 presence when required
    if p.zip64_eocd_pos.is_none() {
        if p.entries.len() as u64 != p.eocd_count as u64 {
            return verr("zip64-missing", "entry count differs from the 16-bit EOCD count without ZIP64 records");
        }
    }
    let mut extents: Vec<(u64, u64, usize)> = vec![];
    for (i, en) in p.entries.iter().enumerate() {
        if opts.local_agrees {
            if en.l_name != en.name {
                return verr("local-vs-central", format!("entry {i}: name differs (local {} bytes, central {} bytes)", en.l_name.len(), en.name.len()));
            }
            if en.l_flags != en.flags {
                return verr("local-vs-central", format!("entry {i}: flags differ (local {:#06x}, central {:#06x})", en.l_flags, en.flags));
            }
            if en.l_method != en.method {
                return verr("local-vs-central", format!("entry {i}: method differs"));
            }
            if en.l_time != en.time || en.l_date != en.date {
                return verr("local-vs-central", format!("entry {i}: time/date differ"));
            }
            if en.l_flags & 8 == 0 {
                if en.l_crc != en.crc {
                    return verr("local-vs-central", format!("entry {i}: crc differs (local {:#010x}, central {:#010x})", en.l_crc, en.crc));
                }
                if en.l_csize != en.csize || en.l_usize != en.usize_ {
                    return verr(
                        "local-vs-central",
                        format!(
                            "entry {i}: sizes differ (local c={} u={}, central c={} u={})",
                            en.l_csize, en.l_usize, en.csize, en.usize_
                        ),
                    );
                }
            }
        }
        if opts.utf8_flag_exact {
            let non_ascii = en.name.iter().any(|&c| c >= 0x80);
            let flag = en.flags & (1 << 11) != 0;
            if non_ascii != flag {
                return verr("utf8-flag", format!("entry {i}: bit 11 is {flag} but name non-ASCII is {non_ascii}"));
            }
            let lflag = en.l_flags & (1 << 11) != 0;
            if non_ascii != lflag {
                return verr("utf8-flag", format!("entry {i}: local bit 11 is {lflag} but name non-ASCII is {non_ascii}"));
            }
        }
        // ZIP64 must be used when a value does not fit (already implied by parse: a value > 32 bits
        // can only come from a ZIP64 block) — here: a literal 0xFFFFFFFF next to a ZIP64 block is ambiguous
        let end = en.data_pos + en.csize + en.dd.map_or(0, |d| d.5);
        extents.push((en.local_pos, end, i));
        // data
        if en.usize_ <= opts.decode_limit && en.csize <= opts.decode_limit {
            let can = if en.flags & 1 != 0 {
                en.method != 99 && opts.password.is_some() && codec::supported(en.method)
            } else {
                codec::supported(en.method)
            };
            if can {
                let data = content(b, en, opts)?;
                if data.len() as u64 != en.usize_ {
                    return verr("data-size", format!("entry {i}: decoded {} bytes, recorded {}", data.len(), en.usize_));
                }
                let c = crc32::crc32(&data);
                if c != en.crc {
                    return verr("data-crc", format!("entry {i}: decoded CRC {c:#010x}, recorded {:#010x}", en.crc));
                }
            }
        } else if en.method == 0 && en.flags & 1 == 0 {
            if en.csize != en.usize_ {
                return verr("data-size", format!("entry {i}: stored entry with csize {} != usize {}", en.csize, en.usize_));
            }
            if b.zero_range(en.data_pos, en.csize) == Some(true) {
                let c = crc32::crc32_zeros(en.usize_);
                if c != en.crc {
                    return verr("data-crc", format!("entry {i}: CRC of {} zero bytes is {c:#010x}, recorded {:#010x}", en.usize_, en.crc));
                }
            }
        }
    }
    extents.sort();
    for w in extents.windows(2) {
        if w[0].1 > w[1].0 {
            return verr("overlap", format!("entries {} and {} overlap: [{},{}) vs [{},{})", w[0].2, w[1].2, w[0].0, w[0].1, w[1].0, w[1].1));
        }
    }
    Ok(p)
}

//! PKWARE traditional encryption (APPNOTE 6.1), written from the specification text.

use super::crc32;

pub struct Keys {
    k0: u32,
    k1: u32,
    k2: u32,
}
impl Keys {
    pub fn new(password: &[u8]) -> Keys {
        let mut k = Keys { k0: 305419896, k1: 591751049, k2: 878082192 };
        for &c in password {
            k.update(c);
        }
        k
    }
    fn update(&mut self, c: u8) {
        self.k0 = crc32::step(self.k0, c);
        self.k1 = self.k1.wrapping_add(self.k0 & 0xff);
        self.k1 = self.k1.wrapping_mul(134775813).wrapping_add(1);
        self.k2 = crc32::step(self.k2, (self.k1 >> 24) as u8);
    }
    fn stream_byte(&self) -> u8 {
        let temp = (self.k2 | 2) as u16;
        (temp.wrapping_mul(temp ^ 1) >> 8) as u8
    }
    pub fn decrypt_byte(&mut self, c: u8) -> u8 {
        let p = c ^ self.stream_byte();
        self.update(p);
        p
    }
    pub fn encrypt_byte(&mut self, p: u8) -> u8 {
        let c = p ^ self.stream_byte();
        self.update(p);
        c
    }
}

/// Encrypt `data` with a 12-byte header whose last byte is `check`.
pub fn encrypt(password: &[u8], header11: &[u8; 11], check: u8, data: &[u8]) -> Vec<u8> {
    let mut k = Keys::new(password);
    let mut out = Vec::with_capacity(12 + data.len());
    for &b in header11.iter() {
        out.push(k.encrypt_byte(b));
    }
    out.push(k.encrypt_byte(check));
    for &b in data {
        out.push(k.encrypt_byte(b));
    }
    out
}

/// Decrypt; verifies the check byte.
pub fn decrypt(password: &[u8], data: &[u8], check: u8) -> Result<Vec<u8>, String> {
    if data.len() < 12 {
        return Err("encrypted data shorter than the 12-byte header".into());
    }
    let mut k = Keys::new(password);
    let mut hdr = [0u8; 12];
    for i in 0..12 {
        hdr[i] = k.decrypt_byte(data[i]);
    }
    if hdr[11] != check {
        return Err(format!("check byte {:#04x} != expected {:#04x}", hdr[11], check));
    }
    Ok(data[12..].iter().map(|&c| k.decrypt_byte(c)).collect())
}

/// The decrypted check byte (for bucketing wrong passwords).
pub fn check_byte(password: &[u8], data: &[u8]) -> Option<u8> {
    if data.len() < 12 {
        return None;
    }
    let mut k = Keys::new(password);
    let mut last = 0;
    for i in 0..12 {
        last = k.decrypt_byte(data[i]);
    }
    Some(last)
}

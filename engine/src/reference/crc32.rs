//! CRC-32 (IEEE 802.3, reflected, poly 0xEDB88320) written from the definition; no crate code.

fn table() -> &'static [u32; 256] {
    use std::sync::OnceLock;
    static T: OnceLock<[u32; 256]> = OnceLock::new();
    T.get_or_init(|| {
        let mut t = [0u32; 256];
        for i in 0..256u32 {
            let mut c = i;
            for _ in 0..8 {
                c = if c & 1 != 0 { 0xEDB88320 ^ (c >> 1) } else { c >> 1 };
            }
            t[i as usize] = c;
        }
        t
    })
}

/// One table step on the raw (non-inverted) register: used by the PKWARE cipher too.
pub fn step(crc: u32, b: u8) -> u32 {
    table()[((crc ^ b as u32) & 0xff) as usize] ^ (crc >> 8)
}

pub fn update(mut state: u32, data: &[u8]) -> u32 {
    let t = table();
    for &b in data {
        state = t[((state ^ b as u32) & 0xff) as usize] ^ (state >> 8);
    }
    state
}

pub fn crc32(data: &[u8]) -> u32 {
    !update(!0, data)
}

/// Bit-at-a-time version used to cross-check the table at start-up.
pub fn crc32_bitwise(data: &[u8]) -> u32 {
    let mut c: u32 = !0;
    for &b in data {
        c ^= b as u32;
        for _ in 0..8 {
            c = if c & 1 != 0 { 0xEDB88320 ^ (c >> 1) } else { c >> 1 };
        }
    }
    !c
}

// --- CRC of n zero bytes appended (GF(2) matrix method, as in zlib's crc32_combine) ----------

fn gf2_times(mat: &[u32; 32], mut vec: u32) -> u32 {
    let mut sum = 0;
    let mut i = 0;
    while vec != 0 {
        if vec & 1 != 0 {
            sum ^= mat[i];
        }
        vec >>= 1;
        i += 1;
    }
    sum
}
fn gf2_square(sq: &mut [u32; 32], mat: &[u32; 32]) {
    for n in 0..32 {
        sq[n] = gf2_times(mat, mat[n]);
    }
}

/// crc32(A || B) from crc32(A), crc32(B), len(B)
pub fn combine(mut crc1: u32, crc2: u32, mut len2: u64) -> u32 {
    if len2 == 0 {
        return crc1;
    }
    let mut even = [0u32; 32];
    let mut odd = [0u32; 32];
    odd[0] = 0xEDB88320;
    let mut row = 1u32;
    for n in 1..32 {
        odd[n] = row;
        row <<= 1;
    }
    gf2_square(&mut even, &odd);
    gf2_square(&mut odd, &even);
    loop {
        gf2_square(&mut even, &odd);
        if len2 & 1 != 0 {
            crc1 = gf2_times(&even, crc1);
        }
        len2 >>= 1;
        if len2 == 0 {
            break;
        }
        gf2_square(&mut odd, &even);
        if len2 & 1 != 0 {
            crc1 = gf2_times(&odd, crc1);
        }
        len2 >>= 1;
        if len2 == 0 {
            break;
        }
    }
    crc1 ^ crc2
}

/// crc32 of `n` zero bytes.
pub fn crc32_zeros(n: u64) -> u32 {
    // crc of a run of zeros: build by doubling
    // crc(0^n) = combine(crc(0^a), crc(0^b), b) with a+b=n
    let mut result = crc32(&[]);
    let mut block_crc = crc32(&[0u8]);
    let mut block_len = 1u64;
    let mut rem = n;
    while rem > 0 {
        if rem & 1 != 0 {
            result = combine(result, block_crc, block_len);
        }
        block_crc = combine(block_crc, block_crc, block_len);
        block_len <<= 1;
        rem >>= 1;
    }
    result
}

pub fn selftest() -> Result<(), String> {
    if crc32(b"123456789") != 0xCBF43926 {
        return Err("crc32 check value".into());
    }
    if crc32_bitwise(b"123456789") != 0xCBF43926 {
        return Err("crc32 bitwise check value".into());
    }
    for n in [0u64, 1, 2, 3, 7, 8, 255, 256, 1000, 65537] {
        let z = vec![0u8; n as usize];
        if crc32(&z) != crc32_zeros(n) {
            return Err(format!("crc32_zeros({n})"));
        }
    }
    let a = b"hello ";
    let b = b"world";
    let mut ab = a.to_vec();
    ab.extend_from_slice(b);
    if combine(crc32(a), crc32(b), b.len() as u64) != crc32(&ab) {
        return Err("combine".into());
    }
    Ok(())
}

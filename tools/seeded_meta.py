#!/usr/bin/env python3
"""Write meta.json for every /verif/seeded/<id>/ from eval.json and the table below."""
import json, os, glob
NEEDS = {
 "C01-1": ("ZipWriter::write hashes/counts the whole caller buffer instead of the bytes the encoder accepted", "one large incompressible write (>= 64 KiB deflate, 256 KiB zstd, ~1 MiB bzip2) through a compressing method"),
 "C01-2": ("end-of-central-directory search window 22 bytes too short", "archive comment of 65514..65535 bytes"),
 "C02-1": ("central-only extra data no longer validated", "start_file_with_extra_data, end_local_start_central_extra_data, then >= 65536 bytes or malformed central-only data"),
 "C02-2": ("local ZIP64 block patched with compressed/uncompressed sizes swapped", "large_file(true) entry whose compressed size differs from its size"),
 "C03-1": ("end-of-central-directory search window 22 bytes too short", "comment + trailing garbage totalling 65514..65535 bytes"),
 "C03-2": ("central ZIP64 sizes read as a pair whenever either 32-bit size is saturated", "foreign archive whose central ZIP64 block carries exactly one of the two sizes"),
 "C04-1": ("zero-payload entries bypass the CRC check", "empty stored entry or directory whose declared CRC is damaged"),
 "C04-2": ("CRC compared once the declared size has been handed out, later bytes unchecked", "bit flip in deflate data that lengthens the output + a read ending exactly at the declared size"),
 "C05-1": ("stream reader passes AES info without password -> unwrap on InvalidPassword", "streamed local header with a valid AES extra block and the encryption flag clear"),
 "C05-2": ("new_append pre-allocates the claimed entry count", "ZIP64 end record with a lying entry count opened for append"),
 "C06-1": ("leading '.' earns depth credit in enclosed_name", "name starting with './' followed by one more '..' than normal components"),
 "C06-2": ("mangled_name cuts at NUL after classifying components", "NUL immediately after a '..' or '.' component"),
 "C07-1": ("seekable extractor converts backslashes to '/' after the safety check", "entry name with backslash-separated '..' components"),
 "C07-2": ("streaming extractor masks the mode to 0o777", "entry whose recorded mode has set-uid/set-gid/sticky bits, streaming extractor"),
 "C08-1": ("4 GiB write guard evaluated before the write", "exactly 2^32 bytes of compressible data into an entry not declared large, limit crossed by the last write"),
 "C08-2": ("ZIP64 size slots read in fixed-header order", "foreign archive with both sizes in the ZIP64 block and differing sizes"),
 "C09-1": ("AES MAC fetched with read instead of read_exact", "short underlying read ending inside the 10-byte authentication code"),
 "C09-2": ("ZipCrypto writer hands its buffer to the sink with write instead of write_all", "sink short write inside an encrypted entry's bytes"),
 "C10-1": ("drop-time drain skipped when the uncompressed size is 0", "empty entry with a compressing method released unread"),
 "C10-2": ("central signature read with a single read()", "visitor over a stream that returns fewer than 4 bytes at a later central header"),
 "C11-1": ("seek back to the end of the entry ignored (let _ =)", "exactly that seek fails (I/O call 20 or 41 of the two-file scenario); every call still returns Ok"),
 "C11-2": ("failing stream_position() swallowed while parsing a central header", "one particular seek fails during ZipArchive::new; only central_header_start() of that entry is wrong"),
 "C12-1": ("CRC/byte counters reset moved into finish_file's non-raw branch", "raw_copy_file, then start_file, write, finish: the copy's bytes leak into the next entry's size and CRC"),
 "C12-2": ("implicit end of extra data skipped in central-only mode", "start_file_with_extra_data, end_local_start_central_extra_data, then start_file / add_directory / finish"),
 "C13-1": ("made-by system rewritten as Unix when the central directory is re-emitted", "base archive with DOS/NTFS-made entries and non-zero attributes; any append round, even an empty one"),
 "C13-2": ("stream length at open measured without the prepended data", "base with prepended data AND longer old end structures (forced ZIP64 records / long file comments)"),
 "C14-1": ("raw copy skips the data when the uncompressed size is 0", "empty source entry with a compressing method (non-empty compressed bytes)"),
 "C14-2": ("start_entry refuses Unsupported methods up front", "raw copy of an entry with a method the crate cannot decode (by_index_raw)"),
 "C15-1": ("Info-ZIP validator compares two header bytes", "foreign bit-3 ZipCrypto entry whose 11th header byte is not the low time byte"),
 "C15-2": ("empty password means no encryption", "with_deprecated_encryption(b\"\")"),
 "C16-1": ("AE-2 CRC enforced when non-zero", "AE-2 entry whose CRC field is non-zero and not the real CRC"),
 "C16-2": ("'>' instead of '>=' when computing the AES payload length", "empty stored AES entry (compressed size exactly salt+2+10)"),
 "C17-1": ("alignment arithmetic on the data offset truncated to u16", "non-power-of-two alignment with a data offset of 65 532 or more"),
 "C17-2": ("validate_extra_data only for the local part", "invalid central-only extra data"),
 "C18-1": ("seconds rounded up when packing", "odd second through the checked constructor / try_from"),
 "C18-2": ("OffsetDateTime converted to UTC after the range check on the local year", "non-UTC OffsetDateTime whose local and UTC years differ at the range edges"),
 "C19-1": ("CP437 decoder falls back to the table only if the bytes are not valid UTF-8", "flag clear + name/comment that is well-formed multi-byte UTF-8"),
 "C19-2": ("UTF-8 flag test off by one (c > U+0080)", "name whose only non-ASCII character is U+0080"),
 "C20-1": ("reader position cached in the shared part to skip a seek", "handle A finishes entry k, handle B then opens entry k+1 (single thread alternation or threads)"),
 "C20-2": ("data_start published half-computed and reused by a fast path", "two threads racing in find_content on the same entry"),
 "C01-3": ("Drop skips finalize when no entry was added", "zero entries AND completion by drop (comment on an entry-less archive lost, 0 bytes written)"),
 "C01-4": ("add_directory only recognises '/' as an existing trailing separator", "directory name ending in a backslash"),
 "C02-3": ("central-only extra-data mode not reset (early return)", "an entry through the central-only path, then a later non-stored entry via start_file_with_extra_data ... end_extra_data"),
 "C02-4": ("end record takes the comment (mem::take)", "new_append + new end records shorter than the old stream end + non-empty new comment: second pass writes an empty comment"),
 "C03-3": ("central header positions computed from decoded comment length", "non-ASCII (CP437) file comment on a non-last entry; later entries' central_header_start() wrong"),
 "C03-4": ("end-of-central-directory search window 22 bytes too short", "comment (+ garbage) of 65514..65535 bytes"),
 "C04-3": ("AE-1 treated like AE-2 for the CRC", "AE-1 entry whose declared CRC is damaged"),
 "C04-4": ("entries declaring size 0 bypass decoder and CRC check", "empty entry / directory with a damaged CRC, or a zeroed size field with data present"),
 "C05-3": ("method-99 rejection only without AES info", "AES extra field naming method 99 again, correct password, entry actually read"),
 "C05-4": ("new_append pre-allocates the declared entry count", "ZIP64 end record with a lying count opened for append"),
 "C06-3": ("mangled_name short-cuts through enclosed_name", "relative name with interior '..' or leading '.' and no backslash/NUL"),
 "C06-4": ("CurDir counted as a level of depth", "name starting './' with one more '..' than normal components"),
 "C07-3": ("existing directory skips the permission block", "directory entry listed after an entry inside it, mode other than the default"),
 "C07-4": ("mode 0 used as 'no mode' sentinel in the streaming extractor", "entry whose recorded permission bits are all zero"),
 "C08-3": ("end_extra_data forgets the 20-byte ZIP64 block in the local extra length", "large_file(true) with start_file_with_extra_data / start_file_aligned"),
 "C08-4": ("raw copy derives large_file from the compressed size only", "raw copy of an entry whose size exceeds 4 GiB while its compressed size does not"),
 "C09-3": ("archive comment read with a single read()", "short underlying read inside the comment while the end record is parsed"),
 "C09-4": ("local extra data written with write instead of write_all", "short sink write during exactly that write of an entry with extra data / alignment padding"),
 "C10-3": ("ZIP64 block read compressed-size first", "streamed large_file entry with a compressing method (both sizes in the local ZIP64 block, different)"),
 "C10-4": ("local header not patched when no bytes were written", "empty entry with a compressing method (2/14/9 compressed bytes)"),
}
HISTORY = {
 "C01-4": "missed at first (no name in the alphabet ended in a separator); C01's name alphabet gained 'w\\' and 's/'",
 "C02-4": "missed by C02 at first (its append part never changed the comment; C13 caught it); C02's append part now keeps / shortens / lengthens the comment",
 "C04-4": "missed at first (no seed had an empty entry, size fields were not damaged); C04 gained the 'writer-empties' seed and size-field damage positions",
 "C08-3": "missed by C08 at first (C02/C12/C17 caught it); C08 now runs 157 programs with the large_file flag on small entries through the strict parser and both readers",
 "C08-4": "missed at first (the ZIP64-sized raw copy was a stored entry: equal sizes); C08 now raw-copies a compressed entry claiming 2^32-1 .. 2^40 bytes",
 "C07-2": "missed at first (modes compared & 0o777); C07 now sweeps all 4096 twelve-bit modes and compares & 0o7777",
 "C03-1": "missed at first (comment + garbage <= 1500 bytes); C03 now has the window-edge part (sums 65 513..65 535)",
 "C10-2": "missed at first (visitor only over a plain cursor); C10 now runs the visitor over 1-byte, 3-byte and every single-cut stream",
 "C08-2": "missed by C08 at first (foreign ZIP64 cases were stored: equal sizes); C08 now checks 512 builder archives with every ZIP64 subset and differing sizes (C03 caught it already)",
 "C18-2": "missed at first (calendar sweep was UTC only); C18 now sweeps 9 offsets around the range edges",
 "C17-1": "missed at first (data offsets stayed below 2^16); C17 now has preceding entries of 65 500 and 200 000 bytes",
 "C13-2": "missed at first (no base combined a prefix with longer old end structures); C13 now has four such bases",
 "C11-2": "missed at first (reader observation lacked the offset accessors); C09/C11 observations now include header_start, central_header_start, data_start and unix_mode",
 "C17-2": "patch re-based onto the tree after fix D15 touched the same function (same change)",
}
for d in sorted(glob.glob('/verif/seeded/*/')):
    name = os.path.basename(d.rstrip('/'))
    ev = {}
    p = os.path.join(d, 'eval.json')
    if os.path.exists(p):
        try: ev = json.load(open(p))
        except Exception: ev = {"raw": open(p).read()}
    mp = os.path.join(d, 'meta.json')
    old = json.load(open(mp)) if os.path.exists(mp) else {}
    what, needs = NEEDS.get(name, (old.get('change', ''), old.get('needs_to_manifest', '')))
    meta = {
        "id": name, "property": name.split('-')[0], "origin": "independent sub-agent given only the property text and a scratch worktree",
        "change": what, "needs_to_manifest": needs,
        "confirmed": {"demo_passes_without_patch": ev.get('demo_clean_exit') == 0, "demo_fails_with_patch": ev.get('demo_patched_exit', 0) != 0,
                      "repository_suite_passes_with_patch": ev.get('suite_exit') == 0 and ev.get('suite_failed_tests') == 0},
        "ran": ["tools/eval_seeded.sh patch.diff demo.rs <ID> <name>: scratch worktree of /repo HEAD; cargo test --offline --test seeded_demo without and with the patch; cargo test --workspace --no-fail-fast --offline with the patch; worktree removed",
                "git -C /repo apply patch.diff; ./check <ID> quick; git -C /repo checkout -- ."],
        "check_exit_with_patch": ev.get('check_exit'), "first_violation": ev.get('first_violation', ''),
        "detected": ev.get('check_exit') == 1,
        "history": HISTORY.get(name, ""),
    }
    json.dump(meta, open(mp, 'w'), indent=1)
    print(name, 'detected' if meta['detected'] else 'MISSED', meta['confirmed'])

#!/usr/bin/env python3
"""Write meta.json for every /verif/seeded/<id>/ from eval.json and the table below."""
import json, os, glob
NEEDS = {
 "C01-1": ("ZipWriter::write hashes/counts the whole caller buffer instead of the bytes the encoder accepted", "one large incompressible write (>= 64 KiB deflate, 256 KiB zstd, ~1 MiB bzip2) through a compressing method"),
 "C01-2": ("end-of-central-directory search window 22 bytes too short", "archive comment of 65514..65535 bytes"),
 "C02-1": ("central-only extra data no longer validated", "start_file_with_extra_data, end_local_start_central_extra_data, then >= 65536 bytes or malformed central-only data"),
 "C02-2": ("local ZIP64 block patched with compressed/uncompressed sizes swapped", "large_file(true) entry whose compressed size differs from its size"),
 "C03-1": ("end-of-central-directory search window 22 bytes too short", "comment + trailing garbage totalling 65514..65535 bytes"),
 "C03-2": ("central ZIP64 sizes read as a pair whenever either 32-bit size is saturated", "foreign archive whose central ZIP64 block carries exactly one of the two sizes"),
 "C04-1": ("zero-payload entries bypass the CRC check", "empty stored entry or directory whose declared CRC is damaged"),
 "C04-2": ("CRC compared once the declared size has been handed out, later bytes unchecked", "bit flip in deflate data that lengthens the output + a read ending exactly at the declared size"),
 "C05-1": ("stream reader passes AES info without password -> unwrap on InvalidPassword", "streamed local header with a valid AES extra block and the encryption flag clear"),
 "C05-2": ("new_append pre-allocates the claimed entry count", "ZIP64 end record with a lying entry count opened for append"),
 "C06-1": ("leading '.' earns depth credit in enclosed_name", "name starting with './' followed by one more '..' than normal components"),
 "C06-2": ("mangled_name cuts at NUL after classifying components", "NUL immediately after a '..' or '.' component"),
 "C07-1": ("seekable extractor converts backslashes to '/' after the safety check", "entry name with backslash-separated '..' components"),
 "C07-2": ("streaming extractor masks the mode to 0o777", "entry whose recorded mode has set-uid/set-gid/sticky bits, streaming extractor"),
 "C08-1": ("4 GiB write guard evaluated before the write", "exactly 2^32 bytes of compressible data into an entry not declared large, limit crossed by the last write"),
 "C08-2": ("ZIP64 size slots read in fixed-header order", "foreign archive with both sizes in the ZIP64 block and differing sizes"),
 "C09-1": ("AES MAC fetched with read instead of read_exact", "short underlying read ending inside the 10-byte authentication code"),
 "C09-2": ("ZipCrypto writer hands its buffer to the sink with write instead of write_all", "sink short write inside an encrypted entry's bytes"),
 "C10-1": ("drop-time drain skipped when the uncompressed size is 0", "empty entry with a compressing method released unread"),
 "C10-2": ("central signature read with a single read()", "visitor over a stream that returns fewer than 4 bytes at a later central header"),
}
for d in sorted(glob.glob('/verif/seeded/*/')):
    name = os.path.basename(d.rstrip('/'))
    ev = {}
    p = os.path.join(d, 'eval.json')
    if os.path.exists(p):
        try: ev = json.load(open(p))
        except Exception: ev = {"raw": open(p).read()}
    mp = os.path.join(d, 'meta.json')
    old = json.load(open(mp)) if os.path.exists(mp) else {}
    what, needs = NEEDS.get(name, (old.get('change', ''), old.get('needs_to_manifest', '')))
    meta = {
        "id": name, "property": name.split('-')[0], "origin": "independent sub-agent given only the property text and a scratch worktree",
        "change": what, "needs_to_manifest": needs,
        "confirmed": {"demo_passes_without_patch": ev.get('demo_clean_exit') == 0, "demo_fails_with_patch": ev.get('demo_patched_exit', 0) != 0,
                      "repository_suite_passes_with_patch": ev.get('suite_exit') == 0 and ev.get('suite_failed_tests') == 0},
        "ran": ["tools/eval_seeded.sh patch.diff demo.rs <ID> <name>: scratch worktree of /repo HEAD; cargo test --offline --test seeded_demo without and with the patch; cargo test --workspace --no-fail-fast --offline with the patch; worktree removed",
                "git -C /repo apply patch.diff; ./check <ID> quick; git -C /repo checkout -- ."],
        "check_exit_with_patch": ev.get('check_exit'), "first_violation": ev.get('first_violation', ''),
        "detected": ev.get('check_exit') == 1,
        "history": old.get('history', []),
    }
    json.dump(meta, open(mp, 'w'), indent=1)
    print(name, 'detected' if meta['detected'] else 'MISSED', meta['confirmed'])

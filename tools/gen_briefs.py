#!/usr/bin/env python3
"""tools/gen_briefs.py <round> <n1> <n2> [outdir]
Write one brief per property for a round of independently seeded changes: the property's text (from properties.jsonl,
nothing else from /verif), the ideas already used for it (one line each, so that the new ones differ), and the
deliverables. The sub-agent gets the brief and its own scratch worktree, nothing more."""
import json, sys, os, re
rnd, n1, n2 = sys.argv[1], sys.argv[2], sys.argv[3]
out = sys.argv[4] if len(sys.argv) > 4 else '/tmp/briefs'
os.makedirs(out, exist_ok=True)
used = {}
for d in sorted(os.listdir('/verif/seeded')):
    mp = f'/verif/seeded/{d}/meta.json'
    if os.path.exists(mp):
        m = json.load(open(mp))
        used.setdefault(m['property'], []).append(f"- {m['change']} (needed: {m['needs_to_manifest']})")
EXTRA = {
 '6': """Five rounds of changes have already been written for this property (list below): single-site slips, cross-call state,
 feature combinations, cooperating sites, environment answers, rare-but-legal values. Find something that list does NOT touch.
 Directions worth trying now:
  * the state a REFUSED or FAILED call leaves behind (an error return that the caller ignores and carries on from), a second
    finish(), a writer re-opened by new_append more than once, an archive handle used again after an entry failed to open;
  * two features of the crate meeting (encryption + streaming, raw copy + alignment, append + ZIP64, extra data + large_file,
    data descriptors + prepended data, comments + many entries) where each works alone;
  * a quantity crossing an INTERNAL boundary of the crate or of a codec (a 64 KiB scratch buffer, BufReader's 8 KiB, the
    32 KiB decoder input buffer, a u16/u32 intermediate) only when a second quantity is also unusual;
  * an accessor, iterator or trait impl of the public API that earlier ideas never went through (look at src/lib.rs,
    src/read.rs, src/read/stream.rs, src/write.rs, src/types.rs, src/result.rs, src/unstable.rs, src/compression.rs);
  * order dependence: the same calls in another order, entries listed in the central directory in another order than they lie in
    the file, a handle that opened a LATER entry first, an operation repeated twice;
  * legitimate but unusual environment behaviour at ONE particular point (short transfer, Interrupted, WouldBlock-free retry, a
    seek that reports a different position, a sink not at offset 0, a reader positioned mid-stream).
 The change should look like something a maintainer could plausibly write (a refactoring, an optimisation, a 'robustness' tweak).""",
 '5': """Earlier rounds have used up the obvious single-site slips, many cross-call state bugs and several feature combinations
 (see the list below). This time look for something that list does NOT touch. Directions that have produced good changes:
  * an API entry point or accessor of this crate that the property covers but the used ideas never went through
    (look at the public API in src/lib.rs, src/read.rs, src/read/stream.rs, src/write.rs, src/types.rs, src/unstable.rs);
  * an interaction with a neighbouring entry, a previous call, a re-opened archive or a second handle;
  * a boundary that depends on TWO quantities at once (a length plus an offset, a count plus a comment, a size plus a flag);
  * behaviour under an unusual but legitimate environment (short reads/writes, Interrupted, seeks that land elsewhere, a sink
    that is not at position 0 when the writer starts, a reader positioned mid-stream);
  * a value that is legal but rare (all-zero or all-one fields, maximal lengths, empty names, second 60, mode 0).
 The change should look like something a maintainer could plausibly write (a refactoring, an optimisation, a 'robustness' tweak).""",
 '4': """Earlier changes for this property were mostly single-site slips. This time aim for one of:
  * state that survives across calls or across entries (a field not reset, a cache, a flag set on one path and read on another);
  * a combination of two or three options / features that each work alone;
  * two cooperating sites that each look fine alone (writer and reader changed symmetrically so the crate's own round trip
    still works, but the bytes are wrong for other tools or for archives made by other tools);
  * behaviour that depends on sizes or counts crossing an internal buffer or field boundary;
  * an environment answer (short read/write, a transient error, Interrupted) at one particular point.
 The change should look like something a maintainer could plausibly write (a refactoring, an optimisation, a 'robustness' tweak).""",
}
for l in open('/verif/properties.jsonl'):
    p = json.loads(l)
    pid = p['id']
    wt = f'/tmp/wt-{pid}'
    txt = f"""# Task: two property-breaking changes for the Rust `zip` crate (property {pid})

You work in your own scratch git worktree of the crate: `{wt}` (already created; a copy of the repository at its
current HEAD). Work ONLY inside that directory. Do not read or write /repo or /verif. The machine is offline:
always run cargo with `CARGO_NET_OFFLINE=true` and `--offline`, and with `CARGO_TARGET_DIR={wt}/target`.

## The property

{json.dumps({k: p[k] for k in ('id', 'title', 'statement', 'quantifier', 'why_tests_cant', 'anchors')}, indent=1)}

## What I need from you

Two DIFFERENT, independent changes to the crate's source (`src/**`), each of which
1. breaks the property above (some input / call sequence / environment behaviour inside the property's stated domain
   now violates the statement),
2. still compiles, and still passes the crate's whole existing test suite
   (`CARGO_NET_OFFLINE=true CARGO_TARGET_DIR={wt}/target cargo test --workspace --no-fail-fast --offline` — run it, all tests must pass),
3. needs something specific to manifest — a particular multi-step sequence of calls, an unusual but legitimate input,
   a combination of options, a fault or short transfer at a particular point, a particular interleaving, or two
   cooperating sites — NOT something ordinary use would expose at once,
4. is realistic: small (a few lines to ~30 lines), reads like a plausible refactoring / optimisation / tweak, does not
   mention testing, has no comments that give it away.

{EXTRA.get(rnd, '')}

Ideas ALREADY USED for this property (do not repeat these or close variants; pick different code and a different trigger):
{chr(10).join(used.get(pid, ['- (none)']))}

For each change also write a demonstration: a Rust integration test file (it will be copied to `tests/seeded_demo.rs`
and run with `cargo test --offline --test seeded_demo`) that uses only the crate's public API (dev-dependencies of the crate
are available; no new crates) and
  * PASSES on the unchanged tree, and
  * FAILS with your change applied,
and that demonstrates a violation of THIS property (not merely any difference in behaviour). Keep it deterministic and fast (< 20 s).

## Deliverables (exact file names)

Create `{wt}/_out/` and put there:
  * `patch{n1}.diff`, `demo{n1}.rs`, `notes{n1}.md`  — first change
  * `patch{n2}.diff`, `demo{n2}.rs`, `notes{n2}.md`  — second change
Each patch is made with `git diff` against the worktree's HEAD and contains ONLY changes under `src/` (not the demo, not
`_out`, not Cargo.lock); each must apply on its own to a clean HEAD with `git apply` (verify with `git diff > file`, `git checkout -- src`, `git apply --check file`; do NOT use `git stash`:
the stash is shared between all worktrees of the repository and another worker's changes would get mixed into yours). notes: 5-10 lines: what was changed, which clause breaks, what exactly is needed to
manifest it, what you ran and saw (suite result with the change; demo result without and with the change).
Leave the worktree's `src/` clean (HEAD state) when you finish; leave `_out/` in place. Do not commit anything.
When done, reply with a 3-line summary per change.
"""
    open(f'{out}/{pid}.md', 'w').write(txt)
print('briefs in', out)

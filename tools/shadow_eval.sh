#!/bin/bash
# tools/shadow_eval.sh sync            (re)create /tmp/shadow: a scratch worktree of /repo HEAD + a copy of /verif's working tree
#                                      whose engine builds against that worktree (own target dir)
# tools/shadow_eval.sh eval <name>...  apply seeded/<name>/patch.diff to the shadow worktree, run the property's quick check from
#                                      the shadow copy, undo; merge the verdict with confirm.json into /verif/seeded/<name>/eval.json
# tools/shadow_eval.sh clean           remove /tmp/shadow (worktree and build output)
# A convenience for first verdicts while /repo and /verif are being worked on; verdicts that are recorded as final come from
# tools/recheck_seeded.sh (apply to /repo itself, ./check, undo).
set -u
S=${SHADOW:-/tmp/shadow}
case "$1" in
sync)
  mkdir -p $S
  if [ ! -d $S/repo ]; then git -C /repo worktree add -q --detach $S/repo HEAD || exit 3; else git -C $S/repo checkout -q --detach "$(git -C /repo rev-parse HEAD)" || exit 3; fi
  cp /repo/Cargo.lock $S/repo/ 2>/dev/null
  mkdir -p $S/verif
  rsync -a --delete --exclude .git --exclude '.target*' --exclude evidence --exclude replays --exclude seeded --exclude '.build' /verif/ $S/verif/
  sed -i "s#path = \"/repo\"#path = \"$S/repo\"#" $S/verif/engine/Cargo.toml
  sed -i "s#/repo/src/#$S/repo/src/#g" $S/verif/check-loom
  sed -i "s#^set -u#set -u; export ZIPMC_REPO=$S/repo#" $S/verif/check-loom
  mkdir -p $S/verif/evidence
  ;;
eval)
  shift
  for NAME in "$@"; do
    ID="${NAME%%-*}"; D=/verif/seeded/$NAME
    git -C $S/repo checkout -q -- . ; git -C $S/repo apply "$D/patch.diff" || { echo "$NAME: patch does not apply"; continue; }
    (cd $S/verif && ./check "$ID" quick) >"$S/$NAME.log" 2>&1; CK=$?
    git -C $S/repo checkout -q -- .
    python3 - "$D" "$CK" "$S/$NAME.log" <<'PY'
import json, sys, os
d, ck, log = sys.argv[1], int(sys.argv[2]), sys.argv[3]
src = d + '/confirm.json' if os.path.exists(d + '/confirm.json') else d + '/eval.json'
ev = json.load(open(src))
if os.path.exists(d + '/eval.json'):
    old = json.load(open(d + '/eval.json'))
    if 'first_check_exit' in old: ev['first_check_exit'] = old['first_check_exit']
    elif 'check_exit' in old: ev['first_check_exit'] = old['check_exit']
viol = ''
for l in open(log, errors='replace'):
    if l.startswith('  violation'):
        viol = l.strip()[:400]; break
ev['check_exit'] = ck; ev['first_violation'] = viol; ev['verdict_from'] = 'shadow copy (tools/shadow_eval.sh)'
json.dump(ev, open(d + '/eval.json', 'w'))
print(ev['name'], 'check exit', ck, viol[:180])
PY
  done
  ;;
clean)
  git -C /repo worktree remove --force $S/repo 2>/dev/null; rm -rf $S; git -C /repo worktree prune
  ;;
esac

#!/usr/bin/env python3
"""Regenerate /verif/MANIFEST.json from the table below (kept next to the code so that the
manifest only ever lists checks that exist). Run after adding/removing a check."""
import json, os, subprocess, sys

V = '/verif'

# id -> (category, engine, technique, level text, level note, design ref)
CHECKS = {}

def add(pid, engine, technique, text, note, category='model_checking'):
    CHECKS[pid] = dict(engine=engine, technique=technique, text=text, note=note, category=category)

def extra(pid, t):
    """additions made after the seeded rounds: appended to the level text"""
    CHECKS[pid]['text'] += ' ' + t

exec(open(os.path.join(V, 'tools', 'checks_table.py')).read())

titles = {}
for l in open(os.path.join(V, 'properties.jsonl')):
    p = json.loads(l)
    titles[p['id']] = p['title']

NA = {}
na_path = os.path.join(V, 'tools', 'not_applicable.json')
if os.path.exists(na_path):
    NA = json.load(open(na_path))

checks = []
for pid in sorted(CHECKS):
    c = CHECKS[pid]
    checks.append({
        "property_id": pid,
        "quick_cmd": f"./check {pid} quick",
        "thorough_cmd": f"./check {pid} thorough",
        "evidence_file": f"/verif/evidence/{pid}.json",
        "replay_cmd_template": f"./check {pid} --replay {{path}}",
        "engine": c['engine'],
        "level_claimed": {"category": c['category'], "text": c['text'], "design_ref": f"DESIGN.md section 4, {pid}"},
        "level_note": c['note'],
        "technique": c['technique'],
    })

not_app = []
for pid in sorted(titles):
    if pid not in CHECKS:
        not_app.append({"property_id": pid, "reason": NA.get(pid, "check not built yet (work in progress; see DESIGN.md section 4 for the plan)")})

hook_commits = []
try:
    out = subprocess.check_output(['git', '-C', '/repo', 'log', '--format=%H %s'], text=True)
    for line in out.splitlines():
        h, s = line.split(' ', 1)
        if s.startswith('verif hook'):
            hook_commits.append(h)
except Exception:
    pass

m = {
    "version": 1,
    "setup_cmd": "./setup.sh",
    "hooks": {
        "guard": "zip_rs_zip_verif",
        "enable": "RUSTFLAGS=\"--cfg zip_rs_zip_verif\" with CARGO_TARGET_DIR=/verif/.target (set by ./check); the loom build of C20 additionally sets --cfg zip_rs_zip_verif_loom with its own target dir",
        "baseline_off_cmd": "cd /repo && cargo test --workspace --no-fail-fast --offline",
        "source_commits": hook_commits,
        "add_only": True,
    },
    "engines": [
        {"name": "zipmc", "path": "/verif/engine", "serves_properties": sorted(CHECKS),
         "kind_free_text": "Rust harness: E-SEQ explicit-state search over operation histories on the real objects, E-DEV deviation-bounded search over I/O answers, E-PROD exhaustive enumeration of finite input domains; independent ZIP parser/builder/ciphers as oracles"},
    ],
    "checks": checks,
    "not_applicable": not_app,
    "notes": "All checks are bounded-exhaustive explorations of the real crate code (no sampling decides a verdict). ./check rebuilds the harness against /repo's working tree on every invocation. Exit 2 = machinery failure, never a verdict.",
}
json.dump(m, open(os.path.join(V, 'MANIFEST.json'), 'w'), indent=1)
print(f"MANIFEST.json: {len(checks)} checks, {len(not_app)} not_applicable")
try:
    import jsonschema
    jsonschema.validate(m, json.load(open('/root/.vp/MANIFEST.schema.json')))
    print("manifest validates")
except ImportError:
    pass

#!/bin/bash
# tools/eval_seeded_split.sh A|B <ID> <n>      (seeded/<ID>-<n>/ must hold patch.diff and demo.rs)
# A: confirm the change in a scratch worktree (demo passes clean, fails patched, repository suite passes patched); writes confirm.json.
#    Uses only its own worktree /tmp/ev-<name>: several A phases may run in parallel.
# B: apply to /repo, run the property's quick check, undo; merges with confirm.json into eval.json. One at a time.
set -u
PH="$1"; ID="$2"; N="$3"; NAME="$ID-$N"
D="/verif/seeded/$NAME"
export CARGO_NET_OFFLINE=true
if [ "$PH" = A ]; then
  WT="/tmp/ev-$NAME"
  git -C /repo worktree remove --force "$WT" >/dev/null 2>&1
  git -C /repo worktree add -q --detach "$WT" HEAD || exit 3
  cp /repo/Cargo.lock "$WT/" 2>/dev/null
  cd "$WT"
  export CARGO_TARGET_DIR="$WT/target"
  cp "$D/demo.rs" tests/seeded_demo.rs
  cargo test --offline --test seeded_demo >"$WT/demo_clean.log" 2>&1; DC=$?
  if ! git apply "$D/patch.diff"; then echo "{\"name\":\"$NAME\",\"error\":\"patch does not apply\"}" > "$D/confirm.json"; cd /; git -C /repo worktree remove --force "$WT"; exit 3; fi
  cargo test --offline --test seeded_demo >"$WT/demo_patched.log" 2>&1; DP=$?
  rm tests/seeded_demo.rs
  cargo test --workspace --no-fail-fast --offline >"$WT/suite.log" 2>&1; SU=$?
  SF=$(grep -cE "^test .* FAILED" "$WT/suite.log")
  cd /
  git -C /repo worktree remove --force "$WT"
  echo "{\"name\":\"$NAME\",\"property\":\"$ID\",\"demo_clean_exit\":$DC,\"demo_patched_exit\":$DP,\"suite_exit\":$SU,\"suite_failed_tests\":$SF}" > "$D/confirm.json"
  cat "$D/confirm.json"
else
  cd /verif
  if ! git -C /repo diff --quiet; then echo "refusing: /repo dirty" >&2; exit 3; fi
  git -C /repo apply "$D/patch.diff" || exit 3
  ./check "$ID" quick >"/tmp/ev-$NAME.check.log" 2>&1; CK=$?
  git -C /repo checkout -- .
  python3 - "$D" "$CK" "/tmp/ev-$NAME.check.log" <<'PY'
import json, sys
d, ck, log = sys.argv[1], int(sys.argv[2]), sys.argv[3]
ev = json.load(open(d + '/confirm.json'))
viol = ''
for l in open(log, errors='replace'):
    if l.startswith('  violation'):
        viol = l.strip()[:400]; break
ev['check_exit'] = ck; ev['first_violation'] = viol
json.dump(ev, open(d + '/eval.json', 'w'))
print(ev['name'], 'check exit', ck, viol[:200])
PY
fi

#!/bin/bash
# tools/eval_seeded.sh <patch> <demo.rs> <ID> <name>
# Confirms a seeded change in a scratch worktree (compiles, repo suite passes, demo fails with / passes without),
# then applies it to /repo, runs the property's quick check, and undoes it. Prints a JSON summary line.
set -u
PATCH="$(realpath "$1")"; DEMO="$(realpath "$2")"; ID="$3"; NAME="$4"
WT="/tmp/ev-$NAME"
export CARGO_NET_OFFLINE=true
git -C /repo worktree remove --force "$WT" >/dev/null 2>&1
git -C /repo worktree add -q --detach "$WT" HEAD || exit 3
cp /repo/Cargo.lock "$WT/" 2>/dev/null
cd "$WT"
export CARGO_TARGET_DIR="$WT/target"
cp "$DEMO" tests/seeded_demo.rs
cargo test --offline --test seeded_demo >"$WT/demo_clean.log" 2>&1; DEMO_CLEAN=$?
git apply "$PATCH" || { echo "{\"name\":\"$NAME\",\"error\":\"patch does not apply\"}"; cd /; git -C /repo worktree remove --force "$WT"; exit 3; }
cargo test --offline --test seeded_demo >"$WT/demo_patched.log" 2>&1; DEMO_PATCHED=$?
rm tests/seeded_demo.rs
cargo test --workspace --no-fail-fast --offline >"$WT/suite.log" 2>&1; SUITE=$?
SUITE_FAILS=$(grep -cE "^test .* FAILED" "$WT/suite.log")
cd /verif
git -C /repo worktree remove --force "$WT"
if ! git -C /repo diff --quiet; then echo "refusing: /repo dirty" >&2; exit 3; fi
git -C /repo apply "$PATCH"
./check "$ID" quick >"/tmp/ev-$NAME.check.log" 2>&1; CHECK=$?
git -C /repo checkout -- .
python3 - "$NAME" "$ID" "$DEMO_CLEAN" "$DEMO_PATCHED" "$SUITE" "$SUITE_FAILS" "$CHECK" "/tmp/ev-$NAME.check.log" <<'PY'
import json, sys
name, pid, dc, dp, su, sf, ck, log = sys.argv[1:9]
viol = ''
for l in open(log, errors='replace'):
    if l.startswith('  violation'):
        viol = l.strip()[:400]
        break
print(json.dumps({"name": name, "property": pid, "demo_clean_exit": int(dc), "demo_patched_exit": int(dp), "suite_exit": int(su),
                  "suite_failed_tests": int(sf), "check_exit": int(ck), "first_violation": viol}))
PY

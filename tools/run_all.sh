#!/bin/bash
# tools/run_all.sh [quick|thorough] — run every registered check in order; print one line per check
cd "$(dirname "$0")/.."
T="${1:-quick}"
for id in C01 C02 C03 C04 C05 C06 C07 C08 C09 C10 C11 C12 C13 C14 C15 C16 C17 C18 C19 C20; do
  S=$(date +%s)
  OUT=$(./check $id $T 2>&1); RC=$?
  E=$(( $(date +%s) - S ))
  echo "$id exit=$RC ${E}s $(echo "$OUT" | grep -E '^(OK|VIOLATION|KNOWN-FINDING|MACHINERY)' | head -2 | tr '\n' ' ')"
done

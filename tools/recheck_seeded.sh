#!/bin/bash
# tools/recheck_seeded.sh <name>... — re-run the property's quick check against already confirmed seeded changes
# (apply to /repo, check, undo) and update check_exit / first_violation in seeded/<name>/eval.json.
cd "$(dirname "$0")/.."
for NAME in "$@"; do
  ID="${NAME%%-*}"
  if ! git -C /repo diff --quiet; then echo "refusing: /repo dirty" >&2; exit 3; fi
  git -C /repo apply "$PWD/seeded/$NAME/patch.diff" || { echo "$NAME: patch does not apply"; continue; }
  ./check "$ID" quick >"/tmp/rc-$NAME.log" 2>&1; RC=$?
  git -C /repo checkout -- .
  python3 - "$NAME" "$RC" "/tmp/rc-$NAME.log" <<'PY'
import json, sys
name, rc, log = sys.argv[1], int(sys.argv[2]), sys.argv[3]
p = f'/verif/seeded/{name}/eval.json'
ev = json.load(open(p))
viol = ''
for l in open(log, errors='replace'):
    if l.startswith('  violation'):
        viol = l.strip()[:400]; break
if 'first_check_exit' not in ev:
    ev['first_check_exit'] = ev.get('check_exit')
ev['check_exit'] = rc
ev['verdict_from'] = '/repo itself (tools/recheck_seeded.sh: git apply, ./check, git checkout)'
ev['first_violation'] = viol
json.dump(ev, open(p, 'w'))
print(name, 'exit', rc, viol[:160])
PY
  rm -f "/tmp/rc-$NAME.log"
done

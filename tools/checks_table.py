# one add(...) per built check; see gen_manifest.py
add('C18', 'zipmc/E-PROD',
    'exhaustive enumeration of the full 2^32 input domain on the real code, against a bit-field / calendar reference model',
    'Every one of the 2^32 (date,time) words is packed/unpacked through the real DateTime code and compared with an independent bit-field model; constructor acceptance is decided over each argument\'s entire type range plus the 8^6 boundary product; calendar conversions are checked on every day 1979..2108 (quick: 2^20 to_time pairs, thorough: all 2^32). Exhaustive over the stated domains, so no input in them can violate the property.',
    'Trusted: the harness\'s own bit-field model and proleptic-Gregorian validity test; the `time` crate for calendar arithmetic on the oracle side of to_time comparisons.')
add('C01', 'zipmc/E-PROD',
    'bounded-exhaustive enumeration of writer programs on the real writer+reader; the program is the reference model',
    'Every program in the stated finite space (length-1 full product over kind/content/name/method-level/large/perm/time classes; all 512 permission values; all 2^16 date words and all 2^16 time words; every documented method/level pair; all entry lists of length 2 and 3 (thorough 4) over reduced alphabets; comment variants) is executed on the real ZipWriter twice (finish and drop) and read back through the real ZipArchive; every observable the statement names is compared with the program. Exhaustive inside those bounds; says nothing about contents or names outside the alphabets.',
    'Trusted: flate2/bzip2/zstd codecs; the harness crc32; the enumeration code. Entry counts near 65535 are covered by C08.')

# one add(...) per built check; see gen_manifest.py
add('C18', 'zipmc/E-PROD',
    'exhaustive enumeration of the full 2^32 input domain on the real code, against a bit-field / calendar reference model',
    'Every one of the 2^32 (date,time) words is packed/unpacked through the real DateTime code and compared with an independent bit-field model; constructor acceptance is decided over each argument\'s entire type range plus the 8^6 boundary product; calendar conversions are checked on every day 1979..2108 (quick: 2^20 to_time pairs, thorough: all 2^32). Exhaustive over the stated domains, so no input in them can violate the property.',
    'Trusted: the harness\'s own bit-field model and proleptic-Gregorian validity test; the `time` crate for calendar arithmetic on the oracle side of to_time comparisons.')

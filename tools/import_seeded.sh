#!/bin/bash
# tools/import_seeded.sh <ID> <n> [srcdir] [dst-n] — copy <srcdir>/{patch,demo,notes}<n>.* to /verif/seeded/<ID>-<dst-n>/ and evaluate
set -u
ID="$1"; N="$2"; SRC="${3:-/tmp/wt-$ID/_out}"; DN="${4:-$N}"
DST="/verif/seeded/$ID-$DN"
mkdir -p "$DST"
cp "$SRC/patch$N.diff" "$DST/patch.diff" || exit 3
cp "$SRC/demo$N.rs" "$DST/demo.rs" || exit 3
cp "$SRC/notes$N.md" "$DST/notes.md" 2>/dev/null
/verif/tools/eval_seeded.sh "$DST/patch.diff" "$DST/demo.rs" "$ID" "$ID-$DN" | tail -1 > "$DST/eval.json"
cat "$DST/eval.json"

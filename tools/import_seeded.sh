#!/bin/bash
# tools/import_seeded.sh <ID> <n>  — copy /tmp/wt-<ID>/_out/{patch,demo,notes}<n>.* to /verif/seeded/<ID>-<n>/ and evaluate
set -u
ID="$1"; N="$2"
SRC="/tmp/wt-$ID/_out"
DST="/verif/seeded/$ID-$N"
mkdir -p "$DST"
cp "$SRC/patch$N.diff" "$DST/patch.diff" || exit 3
cp "$SRC/demo$N.rs" "$DST/demo.rs" || exit 3
cp "$SRC/notes$N.md" "$DST/notes.md" 2>/dev/null
/verif/tools/eval_seeded.sh "$DST/patch.diff" "$DST/demo.rs" "$ID" "$ID-$N" | tail -1 > "$DST/eval.json"
cat "$DST/eval.json"

#!/bin/bash
# tools/try_patch.sh <patch> <ID> [tier]  — apply a patch to /repo, run one check, always undo.
set -u
P="$(realpath "$1")"; ID="$2"; TIER="${3:-quick}"
cd /verif
if ! git -C /repo diff --quiet; then echo "refusing: /repo has uncommitted changes" >&2; exit 3; fi
git -C /repo apply "$P" || { echo "patch does not apply" >&2; exit 3; }
./check "$ID" "$TIER" 2>&1 | grep -E "^(VIOLATION|KNOWN-FINDING|OK|MACHINERY|  violation|\[C)" | head -${LINES_MAX:-12}
RC=${PIPESTATUS[0]}
git -C /repo checkout -- .
echo "exit=$RC"
exit $RC

#!/bin/bash
# Build the framework once, offline, from files on disk only.
set -eu
cd "$(dirname "$0")"
V="$(pwd)"
export ZIPMC_VERIF_ROOT="$V"
export CARGO_NET_OFFLINE=true
export CARGO_TARGET_DIR="$V/.target"
export RUSTFLAGS="--cfg zip_rs_zip_verif"
mkdir -p evidence .target
(cd engine && cargo build --release --offline)
python3 pyref/dump_cp437.py --check engine/src/reference/cp437_table.rs
./.target/release/zipmc selftest
[ -x ./setup-loom.sh ] && ./setup-loom.sh
echo "setup ok"
